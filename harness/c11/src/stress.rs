//! Free-running stress section for the dynamic container: real OS threads, no baton.
//!
//! The baton scheduler can only interleave at hook sites, and no site can sit inside
//! `ArchiveManager` (its lock is held across the whole append). This section therefore lets
//! the operating system sample interleavings *inside* the container's critical sections:
//! T threads, each with its own runtime, are released together and write distinct contents;
//! afterwards every written object must read back byte for byte under its own key. A correct
//! implementation can never fail this oracle, whatever the schedule (no false alarms); an
//! implementation whose append / index update is not atomic fails with a probability that
//! grows with the number of rounds.

use cascette_client_storage::StorageError;
use cascette_client_storage::container::{Container, DynamicContainer};
use proptest::prelude::*;
use serde::{Deserialize, Serialize};
use std::sync::{Arc, Barrier};
use vh_engine::Verdict;
use vh_engine::refimpl::md5;
use vh_engine::util::Rng;

#[derive(Debug, Clone, Serialize, Deserialize)]
pub struct StressCase {
    pub threads: u8,
    pub writes_per_thread: u8,
    pub rounds: u8,
    pub max_len: u16,
    pub content_seed: u64,
}

pub fn strategy() -> BoxedStrategy<StressCase> {
    (2u8..=4, 2u8..=8, 1u8..=3, prop_oneof![Just(64u16), Just(600u16), Just(4000u16)], any::<u64>())
        .prop_map(|(threads, writes_per_thread, rounds, max_len, content_seed)| StressCase { threads, writes_per_thread, rounds, max_len, content_seed })
        .boxed()
}

fn payload(case: &StressCase, round: u8, t: u8, i: u8) -> Vec<u8> {
    let mut r = Rng::new(case.content_seed ^ ((round as u64) << 40) ^ ((t as u64) << 32) ^ ((i as u64) << 24));
    let len = 1 + r.below(case.max_len as u64) as usize;
    // tagged so that a foreign object is recognisable in a failure message
    let mut v = r.bytes(len);
    v[0] = 0x10 * (t + 1) + (i & 0x0f);
    v
}

fn ekey(data: &[u8]) -> [u8; 16] {
    let mut v = Vec::with_capacity(data.len() + 9);
    v.extend_from_slice(b"BLTE");
    v.extend_from_slice(&0u32.to_be_bytes());
    v.push(b'N');
    v.extend_from_slice(data);
    md5::md5(&v)
}

fn rt() -> tokio::runtime::Runtime {
    tokio::runtime::Builder::new_current_thread().build().expect("tokio runtime")
}

pub fn check(case: &StressCase) -> Verdict {
    let dir = {
        let mut b = tempfile::Builder::new();
        b.prefix("vh-c11-stress-");
        let shm = std::path::Path::new("/dev/shm");
        match if shm.is_dir() { b.tempdir_in(shm) } else { b.tempdir() } {
            Ok(d) => d,
            Err(_) => return Verdict::pass().class("infrastructure:no-tempdir"),
        }
    };
    let c = match DynamicContainer::builder(dir.path().join("store")).build() {
        Ok(c) => c,
        Err(_) => return Verdict::pass().class("infrastructure:container-not-built"),
    };
    if rt().block_on(c.open()).is_err() {
        return Verdict::pass().class("infrastructure:container-not-opened");
    }
    let c = Arc::new(c);
    let mut v = Verdict::pass().nontrivial(true);
    for round in 0..case.rounds {
        let barrier = Arc::new(Barrier::new(case.threads as usize));
        let mut handles = Vec::new();
        for t in 0..case.threads {
            let (c, barrier, case2) = (Arc::clone(&c), Arc::clone(&barrier), case.clone());
            handles.push(std::thread::spawn(move || {
                let rt = rt();
                let mut errs: Vec<String> = Vec::new();
                barrier.wait();
                for i in 0..case2.writes_per_thread {
                    let data = payload(&case2, round, t, i);
                    let key = ekey(&data);
                    if let Err(e) = rt.block_on(c.write(&key, &data)) {
                        errs.push(format!("t{t} write #{i} ({} bytes): {e}", data.len()));
                    }
                }
                errs
            }));
        }
        let mut write_errors: Vec<String> = Vec::new();
        for h in handles {
            match h.join() {
                Ok(e) => write_errors.extend(e),
                Err(_) => return v.with_fail("C11:container:stress:panic-in-concurrent-write", "a writer thread panicked"),
            }
        }
        if let Some(e) = write_errors.first() {
            // writes of different contents do not conflict: none of them loses a race
            return v.class("write-error").with_fail(
                "C11:container:stress:write-of-distinct-content-fails-under-concurrency",
                format!("round {round}: {} of {} concurrent writes failed, first: {e}", write_errors.len(), case.threads as usize * case.writes_per_thread as usize),
            );
        }
        // every object written so far reads back byte for byte
        let rt = rt();
        for r2 in 0..=round {
            for t in 0..case.threads {
                for i in 0..case.writes_per_thread {
                    let data = payload(case, r2, t, i);
                    let key = ekey(&data);
                    let mut buf = vec![0x5Au8; data.len() + 64];
                    match rt.block_on(c.read(&key, 0, data.len() as u32, &mut buf)) {
                        Ok(n) if buf[..n] == data[..] => {}
                        Ok(n) => {
                            let tag = buf.first().copied().unwrap_or(0);
                            return v.with_fail(
                                "C11:container:stress:read-returns-other-bytes-after-concurrent-writes",
                                format!("round {r2} t{t} #{i}: wrote {} bytes tagged {:#04x}, read {n} bytes tagged {tag:#04x} (another writer's object or a mixture)", data.len(), data[0]),
                            );
                        }
                        Err(StorageError::NotFound(_)) => {
                            return v.with_fail(
                                "C11:container:stress:written-object-missing-after-concurrent-writes",
                                format!("round {r2} t{t} #{i}: {} bytes written successfully, read says NotFound", data.len()),
                            );
                        }
                        Err(e) => {
                            return v.with_fail(
                                "C11:container:stress:read-fails-after-concurrent-writes",
                                format!("round {r2} t{t} #{i}: {} bytes written successfully, read fails: {e}", data.len()),
                            );
                        }
                    }
                }
            }
        }
    }
    v = v.class_if(case.threads >= 3, "threads>=3").class_if(case.max_len > 1000, "large-objects");
    v
}


/// Driver: the failures of a free-running stress are not reproducible case by case, so the
/// section does not go through the proptest runner (no shrinking, no "flaky" verdict): every
/// failing case is reported with its key (known findings are counted), replay = same parameters.
pub fn run(ck: &mut vh_engine::Check, cases: u64) {
    let section = "stress-container";
    if let Some((sec, case, path)) = ck.replay_request() {
        if sec != section {
            return;
        }
        let c: StressCase = match serde_json::from_value(case) {
            Ok(c) => c,
            Err(e) => {
                eprintln!("bad replay case: {e}");
                std::process::exit(2);
            }
        };
        // a stress case is a schedule sample: repeat it to give the race a fair chance
        let mut fail = None;
        for _ in 0..200 {
            if let Some(f) = check(&c).fail {
                fail = Some((f.key, f.msg));
                break;
            }
        }
        ck.conclude_replay(&path, fail);
    }
    if !ck.section_enabled(section) {
        return;
    }
    let mut r = Rng::new(ck.seed ^ 0x57e55);
    let all: Vec<StressCase> = (0..cases)
        .map(|_| StressCase {
            threads: 2 + r.below(3) as u8,
            writes_per_thread: 2 + r.below(7) as u8,
            rounds: 1 + r.below(3) as u8,
            max_len: [64u16, 600, 4000][r.below(3) as usize],
            content_seed: r.next_u64(),
        })
        .collect();
    let next = std::sync::atomic::AtomicUsize::new(0);
    let fails: std::sync::Mutex<Vec<(StressCase, String, String)>> = std::sync::Mutex::new(Vec::new());
    let classes: std::sync::Mutex<std::collections::BTreeMap<String, u64>> = std::sync::Mutex::new(Default::default());
    std::thread::scope(|sc| {
        for _ in 0..4 {
            sc.spawn(|| loop {
                let i = next.fetch_add(1, std::sync::atomic::Ordering::Relaxed);
                let Some(c) = all.get(i) else { break };
                let v = check(c);
                {
                    let mut cl = classes.lock().unwrap();
                    for k in &v.classes {
                        *cl.entry((*k).to_string()).or_default() += 1;
                    }
                }
                if let Some(f) = v.fail {
                    fails.lock().unwrap().push((c.clone(), f.key, f.msg));
                }
            });
        }
    });
    let hashes: Vec<u64> = all.iter().map(|c| vh_engine::util::fnv64(serde_json::to_string(c).unwrap_or_default().as_bytes())).collect();
    let samples = all.iter().take(2).map(|c| serde_json::to_value(c).unwrap_or_default()).collect();
    ck.record_external(section, all.len() as u64, hashes, classes.into_inner().unwrap(), samples, None);
    for (c, key, msg) in fails.into_inner().unwrap() {
        ck.report_external(section, &c, &key, &msg);
    }
}
