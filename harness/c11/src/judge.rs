//! Oracle: what the statement of C11 demands of one run.
//!
//!  1. the history has a linearization w.r.t. the sequential map model of C10
//!     (strict while no eviction can be due; "may evict / latest or nothing"
//!     once the trace shows that the cache started an eviction);
//!  2. no returned value is a mixture (every value is exactly one put's value);
//!  3. an operation that is not concurrent with any conflicting operation does
//!     not return an error;
//!  4. after all tasks finished and every key was read once (C10's sweep) the
//!     reported entry count / byte usage equal what is retrievable;
//!  5. nothing panics.
//!
//! Failure keys are `C11:<system>:<category>:race=<a~b>[+<c~d>…]`: the pairs of
//! operation kinds that race in the *reduced* failing case — `a` was pre-empted
//! in the middle (at a hook site) and `b`, an operation of another task on the
//! same key (or a clear), ran inside that window. The reduction switches the
//! pre-emptions of the failing schedule off one by one and drops operations
//! from the program as long as a failure of the same category remains, always
//! by re-running. `:sequential` = fails without any pre-emption, `:whole-ops` =
//! fails with pre-emptions between (never inside) operations only.

use crate::lin::{self, Model, Timed};
use crate::sched::Entry;
use crate::sys::{Case, Event, MAX_KEYS, Op, Res, Run, SETUP_TASK, SWEEP_TASK, Sys, cache_value, container_data, key_name, run_case};
use std::collections::BTreeSet;

#[derive(Debug, Clone)]
pub struct Failure {
    /// e.g. "not-linearizable", "books:bytes-differ", "error-without-race:get"
    pub category: String,
    pub detail: String,
}

#[derive(Debug, Default)]
pub struct Analysis {
    pub failures: Vec<Failure>,
    pub preemptions: usize,
    /// sites at which a pre-emption happened (op.boundary excluded), sorted, distinct
    pub preempt_sites: Vec<&'static str>,
    /// pre-emptions inside an operation (not at an operation boundary)
    pub midop_preemptions: usize,
    /// racing pairs "a~b" (a <= b): an operation of kind a/b was pre-empted mid-way while
    /// an operation of the other kind, of another task, on the same key (or a clear) ran
    pub pairs: BTreeSet<String>,
    /// all sites reached
    pub sites: BTreeSet<&'static str>,
    /// two operations of different tasks on the same key (or a clear) overlapped in time
    pub overlap_same_key: bool,
    pub eviction: bool,
    pub error_in_race: bool,
    pub error_any: bool,
    pub get_hit: bool,
    pub zero_seen_expired: bool,
    pub lin_skipped: bool,
    pub lin_checked: bool,
    pub ops: usize,
}

/// One completed call on the common time line.
#[derive(Debug, Clone)]
pub struct Call {
    pub task: u8,
    pub opi: u8,
    pub op: Op,
    pub res: Res,
    pub inv: usize,
    pub ret: usize,
}

pub fn calls_of(log: &[Entry<Event>]) -> Vec<Call> {
    let mut calls: Vec<Call> = Vec::new();
    for (pos, e) in log.iter().enumerate() {
        match e {
            Entry::Event(Event::Invoke { task, opi, op }) => {
                calls.push(Call { task: *task, opi: *opi, op: *op, res: Res::Err("<no return recorded>".into()), inv: pos, ret: usize::MAX })
            }
            Entry::Event(Event::Return { task, opi, res }) => {
                if let Some(c) = calls.iter_mut().rev().find(|c| c.task == *task && c.opi == *opi) {
                    c.res = res.clone();
                    c.ret = pos;
                }
            }
            _ => {}
        }
    }
    calls
}

fn concurrent(a: &Call, b: &Call) -> bool {
    !(a.ret < b.inv || b.ret < a.inv)
}

// ---------------------------------------------------------------------------
// sequential model
// ---------------------------------------------------------------------------

/// per key: 0 = absent, 1+id = live value of put `id`, 0x80|(1+id) = expired (ZERO-TTL) value
type State = [u8; MAX_KEYS as usize];

fn val_id(task: u8, opi: u8) -> u8 {
    task * 4 + opi.min(3)
}

struct MapModel {
    sys: Sys,
    /// an eviction was observed: a read may miss, a remove may find nothing
    may_evict: bool,
}

struct MCall {
    op: Op,
    res: Res,
    id: u8,
}

impl MapModel {
    fn value_of(&self, k: u8, id: u8) -> Vec<u8> {
        match self.sys {
            Sys::Container | Sys::ContainerCut => container_data(k),
            _ => cache_value(id / 4, id % 4),
        }
    }
}

impl Model for MapModel {
    type State = State;
    type Call = MCall;

    fn step(&self, s: &State, c: &MCall) -> Vec<State> {
        let set = |k: u8, v: u8| {
            let mut n = *s;
            n[k as usize] = v;
            n
        };
        let failed = matches!(c.res, Res::Err(_) | Res::Panic { .. });
        match c.op {
            Op::Put { k } => {
                let with = set(k, 1 + c.id);
                if failed { vec![*s, with] } else { vec![with] }
            }
            Op::PutZero { k } => {
                let with = set(k, 0x80 | (1 + c.id));
                if failed { vec![*s, with] } else { vec![with] }
            }
            Op::Get { k } => {
                let cur = s[k as usize];
                match &c.res {
                    Res::Got(Some(b)) => {
                        if cur != 0 && cur & 0x80 == 0 && *b == self.value_of(k, cur - 1) {
                            vec![*s]
                        } else {
                            vec![]
                        }
                    }
                    Res::Got(None) => {
                        if cur == 0 || cur & 0x80 != 0 {
                            vec![*s]
                        } else if self.may_evict {
                            vec![*s, set(k, 0)]
                        } else {
                            vec![]
                        }
                    }
                    _ if failed => vec![*s],
                    _ => vec![],
                }
            }
            Op::Has { k } => {
                let cur = s[k as usize];
                let live = cur != 0 && cur & 0x80 == 0;
                match &c.res {
                    Res::Bool(true) => {
                        if live {
                            vec![*s]
                        } else {
                            vec![]
                        }
                    }
                    Res::Bool(false) => {
                        if !live {
                            vec![*s]
                        } else if self.may_evict {
                            vec![*s, set(k, 0)]
                        } else {
                            vec![]
                        }
                    }
                    _ if failed => vec![*s],
                    _ => vec![],
                }
            }
            Op::Remove { k } => {
                let cur = s[k as usize];
                let gone = set(k, 0);
                match &c.res {
                    // the caches report whether an entry was there; an expired entry may or
                    // may not have been purged lazily before
                    Res::Bool(true) => {
                        if cur != 0 {
                            vec![gone]
                        } else {
                            vec![]
                        }
                    }
                    Res::Bool(false) => {
                        if cur == 0 || cur & 0x80 != 0 || self.may_evict {
                            vec![gone]
                        } else {
                            vec![]
                        }
                    }
                    // the container's remove reports nothing
                    Res::Unit => vec![gone],
                    _ if failed => vec![*s, gone],
                    _ => vec![],
                }
            }
            Op::Clear => {
                if failed {
                    vec![*s, [0; MAX_KEYS as usize]]
                } else {
                    vec![[0; MAX_KEYS as usize]]
                }
            }
        }
    }
}

fn describe_state(s: &State, keys: &[u8]) -> String {
    let mut parts = Vec::new();
    for &k in keys {
        let v = s[k as usize];
        parts.push(match v {
            0 => format!("{}: absent", key_name(k)),
            v if v & 0x80 != 0 => format!("{}: expired value of t{}#{}", key_name(k), ((v & 0x7f) - 1) / 4, ((v & 0x7f) - 1) % 4),
            v => format!("{}: value of t{}#{}", key_name(k), (v - 1) / 4, (v - 1) % 4),
        });
    }
    parts.join(", ")
}

fn task_name(t: u8) -> String {
    match t {
        SETUP_TASK => "setup".into(),
        SWEEP_TASK => "sweep".into(),
        t => format!("t{t}"),
    }
}

fn describe_call(c: &Call) -> String {
    let k = c.op.key().map(key_name).unwrap_or_default();
    format!("{}#{} {}({}) -> {}", task_name(c.task), c.opi, c.op.kind(), k, c.res.short())
}

pub fn describe_history(calls: &[Call]) -> String {
    // in invocation order, with the interval positions
    calls.iter().map(|c| format!("[{}..{}] {}", c.inv, c.ret, describe_call(c))).collect::<Vec<_>>().join("; ")
}

// ---------------------------------------------------------------------------
// analysis of one run
// ---------------------------------------------------------------------------

pub fn analyze(case: &Case, run: &Run) -> Analysis {
    let mut a = Analysis::default();
    let sysname = case.sys.name();
    let _ = sysname;
    let calls = calls_of(&run.log);
    a.ops = calls.iter().filter(|c| c.task < SETUP_TASK).count();

    // trace facts
    let mut windows: Vec<(usize, usize, u8)> = Vec::new(); // (from, to, pre-empted task)
    for (pos, e) in run.log.iter().enumerate() {
        if let Entry::Point { thread, site, next, .. } = e {
            a.sites.insert(site);
            if site.starts_with("memory.perform_eviction") || site.starts_with("memory.evict_") {
                a.eviction = true;
            }
            if next != thread {
                a.preemptions += 1;
                if *site != "op.boundary" {
                    a.midop_preemptions += 1;
                    if !a.preempt_sites.contains(site) {
                        a.preempt_sites.push(site);
                    }
                    // the window ends when the pre-empted task does anything again
                    let end = run.log[pos + 1..]
                        .iter()
                        .position(|x| match x {
                            Entry::Point { thread: t, .. } | Entry::End { thread: t, .. } => t == thread,
                            Entry::Event(Event::Invoke { task, .. }) | Entry::Event(Event::Return { task, .. }) => task == thread,
                        })
                        .map_or(run.log.len(), |d| pos + 1 + d);
                    windows.push((pos, end, *thread));
                }
            }
        }
    }
    a.preempt_sites.sort_unstable();
    let kind = |op: Op| -> &'static str {
        match (case.sys, op) {
            (Sys::Container | Sys::ContainerCut, Op::Get { .. }) => "read",
            (Sys::Container | Sys::ContainerCut, Op::Has { .. }) => "query",
            (Sys::Container | Sys::ContainerCut, Op::Put { .. }) => "write",
            (_, Op::PutZero { .. }) => "put",
            (_, o) => o.kind(),
        }
    };
    for cross in [false, true] {
        for &(from, to, t) in &windows {
            let Some(x) = calls.iter().find(|c| c.task == t && c.inv < from && c.ret > from) else { continue };
            for y in calls.iter().filter(|c| c.task != t && c.task < SETUP_TASK && c.inv < to && c.ret > from) {
                if x.op.same_key(y.op) != cross {
                    let (p, q) = (kind(x.op), kind(y.op));
                    let (p, q) = if p <= q { (p, q) } else { (q, p) };
                    a.pairs.insert(format!("{p}~{q}{}", if cross { "/other-key" } else { "" }));
                }
            }
        }
        if !a.pairs.is_empty() {
            break;
        }
    }

    for (i, x) in calls.iter().enumerate() {
        for y in &calls[i + 1..] {
            if x.task != y.task && x.task < SETUP_TASK && y.task < SETUP_TASK && x.op.same_key(y.op) && concurrent(x, y) {
                a.overlap_same_key = true;
            }
        }
    }

    // 5. panics
    for c in &calls {
        if let Res::Panic { file, norm, .. } = &c.res {
            a.failures.push(Failure { category: format!("panic:{file}:{norm}"), detail: format!("{}; history: {}", describe_call(c), describe_history(&calls)) });
        }
    }

    // 2. values: every served value is exactly one put's value for that key
    for c in &calls {
        if let (Op::Get { k }, Res::Got(Some(b))) = (c.op, &c.res) {
            a.get_hit = true;
            let put_for = |key: u8| -> Vec<Vec<u8>> {
                match case.sys {
                    Sys::Container | Sys::ContainerCut => vec![container_data(key)],
                    _ => calls
                        .iter()
                        .filter(|p| matches!(p.op, Op::Put { k } | Op::PutZero { k } if k == key))
                        .map(|p| cache_value(p.task, p.opi))
                        .collect(),
                }
            };
            if !put_for(k).iter().any(|v| v == b) {
                let other = run.keys.iter().any(|&o| o != k && put_for(o).iter().any(|v| v == b));
                let (cat, what) = if other { ("other-keys-value", "a value that was put for another key") } else { ("torn-value", "bytes that no put of the program wrote (a mixture)") };
                a.failures.push(Failure { category: cat.into(), detail: format!("{} returned {what}; history: {}", describe_call(c), describe_history(&calls)) });
            }
        }
    }

    // 3. errors
    for c in &calls {
        if let Res::Err(e) = &c.res {
            a.error_any = true;
            let racing: Vec<&Call> = calls.iter().filter(|o| o.task != c.task && o.op.conflicts(c.op) && concurrent(c, o)).collect();
            if racing.is_empty() {
                a.failures.push(Failure {
                    category: format!("error-without-race:{}", c.op.kind()),
                    detail: format!("{} failed although no conflicting operation of another task overlaps it ({e}); history: {}", describe_call(c), describe_history(&calls)),
                });
            } else {
                // "Every operation appears to take effect at one instant": an operation that is
                // atomic cannot see the intermediate state of another one, so on a healthy file
                // system it cannot fail because of it either (the spurious rename errors of two
                // racing puts are the example the property gives). The model still lets a failed
                // writer take effect or not, so that the error is reported once, here.
                a.error_in_race = true;
                a.failures.push(Failure {
                    category: format!("error-in-race:{}", c.op.kind()),
                    detail: format!(
                        "{} failed ({e}) while {} ran; history: {}",
                        describe_call(c),
                        racing.iter().map(|o| describe_call(o)).collect::<Vec<_>>().join(", "),
                        describe_history(&calls)
                    ),
                });
            }
        }
    }

    // 1. linearizability
    let clear_failed = calls.iter().any(|c| c.op == Op::Clear && !matches!(c.res, Res::Unit));
    if clear_failed {
        // a clear that reports an error may have taken effect partially: no sequential reading
        a.lin_skipped = true;
    } else {
        a.lin_checked = true;
        // setup and sweep run on the controller without a scheduler callback, so their evictions
        // leave no trace: a capacity below the roomy one always means "may evict"
        if case.sys == Sys::Memory && case.cfg.max_entries < crate::sys::ROOMY {
            a.eviction = true;
        }
        let model = MapModel { sys: case.sys, may_evict: a.eviction };
        let timed: Vec<Timed<MCall>> =
            calls.iter().map(|c| Timed { call: MCall { op: c.op, res: c.res.clone(), id: val_id(c.task, c.opi) }, inv: c.inv, ret: c.ret }).collect();
        if let Err(stuck) = lin::linearize(&model, [0; MAX_KEYS as usize], &timed) {
            let prefix: Vec<String> = stuck.prefix.iter().map(|&i| describe_call(&calls[i])).collect();
            let blocked: Vec<String> = stuck.blocked.iter().map(|&i| describe_call(&calls[i])).collect();
            a.failures.push(Failure {
                category: "not-linearizable".into(),
                detail: format!(
                    "no order of the calls that respects real time is a legal run of a map{}. Longest legal prefix: [{}] -> model {{{}}}; none of the calls that may come next is possible there: [{}]. History (log positions invoke..return): {}",
                    if a.eviction { " (may-evict model: an eviction was observed)" } else { "" },
                    prefix.join("; "),
                    describe_state(&stuck.state, &run.keys),
                    blocked.join(" | "),
                    describe_history(&calls)
                ),
            });
        }
    }
    a.zero_seen_expired = calls.iter().any(|c| matches!(c.op, Op::PutZero { .. }));

    // 4. books, judged on the sweep
    let sweep: Vec<&Call> = calls.iter().filter(|c| c.task == SWEEP_TASK).collect();
    let sweep_ok = sweep.iter().all(|c| matches!(c.res, Res::Got(_)));
    if sweep_ok {
        let hits = sweep.iter().filter(|c| matches!(c.res, Res::Got(Some(_)))).count();
        let bytes: usize = sweep.iter().map(|c| if let Res::Got(Some(b)) = &c.res { b.len() } else { 0 }).sum();
        match &run.figures {
            Err(e) => a.failures.push(Failure { category: "books:figures-returned-error".into(), detail: e.clone() }),
            Ok((size, entry_count, reported)) => {
                let mut wrong: Vec<String> = Vec::new();
                if case.sys == Sys::Multi {
                    // no figures are compared for the layered cache (see System::figures)
                } else if case.sys.is_container() {
                    if *entry_count != hits {
                        wrong.push(format!("entry_count() = {entry_count}"));
                    }
                } else {
                    if *entry_count != hits {
                        wrong.push(format!("stats.entry_count = {entry_count}"));
                    }
                    if *size != hits {
                        wrong.push(format!("size() = {size}"));
                    }
                    if *reported != bytes {
                        wrong.push(format!("stats reports {reported} bytes"));
                    }
                }
                if !wrong.is_empty() {
                    a.failures.push(Failure {
                        category: "books".into(),
                        detail: format!(
                            "{} — but after all tasks finished and every key was read once {hits} key(s) are retrievable, {bytes} bytes in total; history: {}",
                            wrong.join(", "),
                            describe_history(&calls)
                        ),
                    });
                }
            }
        }
    }
    a
}

// ---------------------------------------------------------------------------
// keys
// ---------------------------------------------------------------------------

pub fn trim_schedule(case: &mut Case, unused: usize) {
    let keep = case.schedule.len().saturating_sub(unused);
    case.schedule.truncate(keep);
    while case.schedule.last() == Some(&0) {
        case.schedule.pop();
    }
}

/// Which operation a consumed schedule element belongs to.
#[derive(Debug, Clone, Copy, PartialEq, Eq)]
enum Owner {
    Start,
    /// a site inside operation `opi` of `task`
    In { task: u8, opi: u8 },
    /// the boundary before operation `opi` of `task`
    Before { task: u8, opi: u8 },
    End,
}

fn owners(run: &Run, ntasks: usize) -> Vec<Owner> {
    let mut out = Vec::new();
    if ntasks >= 2 {
        out.push(Owner::Start);
    }
    let mut cur: [u8; 8] = [0; 8]; // index of the operation a task is in / has last been in
    for e in &run.log {
        match e {
            Entry::Event(Event::Invoke { task, opi, .. }) if (*task as usize) < cur.len() => cur[*task as usize] = *opi,
            Entry::Point { thread, site, choice: true, .. } => {
                let opi = cur[*thread as usize];
                out.push(if *site == "op.boundary" { Owner::Before { task: *thread, opi: opi + 1 } } else { Owner::In { task: *thread, opi } });
            }
            Entry::End { choice: true, .. } => out.push(Owner::End),
            _ => {}
        }
    }
    out
}

struct Tried {
    an: Analysis,
    owners: Vec<Owner>,
}

fn try_candidate(cand: &mut Case, category: &str) -> Result<Option<Tried>, String> {
    let run = run_case(cand)?;
    trim_schedule(cand, run.unused_schedule);
    let an = analyze(cand, &run);
    Ok(if an.failures.iter().any(|f| f.category == category) { Some(Tried { owners: owners(&run, cand.tasks.len()), an }) } else { None })
}

/// `case` without operation `opi` of `task`; the schedule elements that were consumed
/// inside that operation (and at one adjacent boundary) are taken out so that the
/// remaining choices keep their meaning.
fn without_op(case: &Case, own: &[Owner], task: usize, opi: usize) -> Case {
    let mut c = case.clone();
    c.tasks[task].remove(opi);
    let (t, i) = (task as u8, opi as u8);
    let boundary = if opi > 0 { Owner::Before { task: t, opi: i } } else { Owner::Before { task: t, opi: 1 } };
    let mut sched = Vec::with_capacity(case.schedule.len());
    for (idx, &v) in case.schedule.iter().enumerate() {
        match own.get(idx) {
            Some(o) if *o == (Owner::In { task: t, opi: i }) || *o == boundary => {}
            _ => sched.push(v),
        }
    }
    c.schedule = sched;
    c
}

/// Reduce a failing case: switch pre-emptions off one by one (last first), drop
/// operations one by one, switch pre-emptions off again — each step is kept
/// only if a re-run still shows a failure of `category`.
/// `Err` = infrastructure trouble during a re-run.
pub fn minimize(case: &Case, category: &str) -> Result<(Case, Analysis), String> {
    let mut cur = case.clone();
    let Some(mut cur_t) = try_candidate(&mut cur, category)? else {
        return Err(format!("failure {category} did not reproduce on re-run (non-deterministic run?)"));
    };
    for pass in 0..3 {
        // pre-emptions (and the start / end choices)
        let mut idx = cur.schedule.len();
        while idx > 0 {
            idx -= 1;
            if idx >= cur.schedule.len() || cur.schedule[idx] == 0 {
                continue;
            }
            let mut cand = cur.clone();
            cand.schedule[idx] = 0;
            if let Some(t) = try_candidate(&mut cand, category)? {
                cur = cand;
                cur_t = t;
            }
        }
        if pass == 2 {
            break;
        }
        // operations
        let mut changed = false;
        for t in 0..cur.tasks.len() {
            let mut i = cur.tasks[t].len();
            while i > 0 {
                i -= 1;
                let mut cand = without_op(&cur, &cur_t.owners, t, i);
                if let Some(tr) = try_candidate(&mut cand, category)? {
                    cur = cand;
                    cur_t = tr;
                    changed = true;
                    continue;
                }
                // the dropped operation may have been what the first task did before the
                // others got going: try the other start as well
                if cur.tasks.len() == 2 {
                    let mut cand = without_op(&cur, &cur_t.owners, t, i);
                    if cand.schedule.is_empty() {
                        cand.schedule.push(0);
                    }
                    cand.schedule[0] = if cand.schedule[0] == 0 { 1 } else { 0 };
                    if let Some(tr) = try_candidate(&mut cand, category)? {
                        cur = cand;
                        cur_t = tr;
                        changed = true;
                    }
                }
            }
        }
        let mut i = cur.setup.len();
        while i > 0 {
            i -= 1;
            let mut cand = cur.clone();
            cand.setup.remove(i);
            if let Some(tr) = try_candidate(&mut cand, category)? {
                cur = cand;
                cur_t = tr;
                changed = true;
            }
        }
        if !changed {
            break;
        }
    }
    Ok((cur, cur_t.an))
}

pub fn race_of(an: &Analysis) -> String {
    if an.preemptions == 0 {
        "sequential".to_string()
    } else if an.midop_preemptions == 0 {
        "whole-ops".to_string()
    } else if an.pairs.is_empty() {
        "race=none".to_string()
    } else {
        format!("race={}", an.pairs.iter().cloned().collect::<Vec<_>>().join("+"))
    }
}

pub fn key_of(sys: Sys, category: &str, an: &Analysis) -> String {
    if category.starts_with("panic:") {
        // the root cause of a panic is its site, whatever race led there
        return format!("C11:{}:{}", sys.name(), category);
    }
    // the hook sites at which the reduced case is pre-empted inside an operation tell apart
    // different root causes that show through the same racing pair (e.g. a put pre-empted between
    // its file write and its index update vs a get pre-empted after it read the index)
    let race = race_of(an);
    if race.starts_with("race=") && !an.preempt_sites.is_empty() {
        format!("C11:{}:{}:{}@{}", sys.name(), category, race, an.preempt_sites.join(","))
    } else {
        format!("C11:{}:{}:{}", sys.name(), category, race)
    }
}

/// Does the race named by `key` (a key of this system and `category`) occur in the run
/// analysed as `an`? Used to attribute a failing run to a listed / already reported
/// finding without reducing it again.
pub fn key_matches(key: &str, sys: Sys, category: &str, an: &Analysis) -> bool {
    if category.starts_with("panic:") {
        return key == format!("C11:{}:{}", sys.name(), category);
    }
    let prefix = format!("C11:{}:{}:", sys.name(), category);
    let Some(race) = key.strip_prefix(&prefix) else { return false };
    // optional "@site,site": every listed pre-emption site must occur in the run as well
    let (race, sites) = match race.split_once('@') {
        Some((r, s)) => (r, Some(s)),
        None => (race, None),
    };
    if let Some(s) = sites {
        if !s.split(',').all(|x| an.preempt_sites.iter().any(|y| *y == x)) {
            return false;
        }
    }
    match race {
        // pattern key of a listed root cause: any racing pairs, as long as the run is pre-empted at the listed site(s)
        "race=*" => sites.is_some() && an.midop_preemptions > 0,
        "sequential" => an.preemptions == 0,
        "whole-ops" => an.preemptions > 0 && an.midop_preemptions == 0,
        "race=none" => an.midop_preemptions > 0 && an.pairs.is_empty(),
        r => match r.strip_prefix("race=") {
            Some(list) => list.split('+').all(|p| an.pairs.contains(p)),
            None => false,
        },
    }
}

pub struct Keyed {
    pub key: String,
    pub msg: String,
    /// the reduced case (what a replay file should hold)
    pub case: Case,
}

/// Reduce the failure of `category` and give it its key.
pub fn keyed_failure(case: &Case, category: &str) -> Result<Keyed, String> {
    let (min_case, min_an) = minimize(case, category)?;
    let detail = min_an.failures.iter().find(|x| x.category == category).map(|x| x.detail.clone()).unwrap_or_default();
    let key = key_of(case.sys, category, &min_an);
    let pre = trace_summary(&min_case);
    Ok(Keyed { key, msg: format!("{detail} || pre-emptions: {}", if pre.is_empty() { "none".into() } else { pre.join(", ") }), case: min_case })
}

/// "t0 at memory.get.expired-guard-dropped -> t1" for every pre-emption of a (re-)run of `case`.
fn trace_summary(case: &Case) -> Vec<String> {
    match run_case(case) {
        Ok(run) => run
            .log
            .iter()
            .filter_map(|e| match e {
                Entry::Point { thread, site, next, .. } if thread != next => Some(format!("t{thread} at {site} -> t{next}")),
                _ => None,
            })
            .collect(),
        Err(_) => Vec::new(),
    }
}
