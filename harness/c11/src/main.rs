//! C11 — concurrent cache and storage use is linearizable and keeps its books.
//!
//! Engine `sched`: every case is (system, program, schedule). The program's
//! tasks run as OS threads under the baton scheduler of `sched.rs`; the code
//! under test calls `sched_point(site)` (verif-hooks) between two accesses to
//! shared state and the *schedule* decides who runs next. The oracle is in
//! `judge.rs` (linearizability w.r.t. the sequential map model, no torn value,
//! no error without a race, books after the sweep, no panic).
//!
//! Sections
//!   dfs-memory / dfs-disk / dfs-container   exhaustive: every program of the
//!       stated finite family × every schedule with ≤ 3 pre-emptions (stateless
//!       depth-first search over the choice points the run itself reveals);
//!   random-memory / random-disk / random-container   proptest: 2–3 tasks ×
//!       1–3 ops over up to 3 keys, optional setup, random schedules;
//!   evict-memory   proptest: tiny capacities so that evictions run concurrently
//!       (judged with the "may evict" model + books + no panic).

mod judge;
mod lin;
mod sched;
mod stress;
mod cleanup;
mod sys;

use judge::{Analysis, analyze};
use proptest::prelude::*;
use std::collections::{BTreeMap, HashMap, HashSet};
use std::sync::Mutex;
use std::sync::atomic::{AtomicBool, AtomicUsize, Ordering};
use sys::{Case, Cfg, Op, Pol, Sys, run_case};
use vh_engine::{Check, Known, Section, Verdict};

const BOUND: usize = 3;

static INFRA: Mutex<Vec<String>> = Mutex::new(Vec::new());
/// Every hand-over time-out costs a minute: after a few of them the remaining cases are
/// skipped (the run ends with exit 2 anyway).
static INFRA_COUNT: AtomicUsize = AtomicUsize::new(0);
const INFRA_LIMIT: usize = 3;

fn infra(msg: String) {
    INFRA_COUNT.fetch_add(1, Ordering::Relaxed);
    let mut g = INFRA.lock().unwrap_or_else(|e| e.into_inner());
    if g.len() < 20 {
        g.push(msg);
    }
}

fn drain_infra_stderr() {
    for m in std::mem::take(&mut *INFRA.lock().unwrap_or_else(|e| e.into_inner())) {
        eprintln!("INFRA: {m}");
    }
}

fn drain_infra(ck: &mut Check) {
    let msgs: Vec<String> = std::mem::take(&mut *INFRA.lock().unwrap_or_else(|e| e.into_inner()));
    for m in msgs {
        ck.infra(m);
    }
}

fn intern(s: String) -> &'static str {
    static TABLE: Mutex<Option<HashMap<String, &'static str>>> = Mutex::new(None);
    let mut g = TABLE.lock().unwrap_or_else(|e| e.into_inner());
    let t = g.get_or_insert_with(HashMap::new);
    if let Some(v) = t.get(&s) {
        return v;
    }
    let leaked: &'static str = Box::leak(s.clone().into_boxed_str());
    t.insert(s, leaked);
    leaked
}

fn classes_of(an: &Analysis, nontrivial: bool) -> Vec<&'static str> {
    let mut c: Vec<&'static str> = Vec::new();
    c.push(match an.preemptions {
        0 => "preemptions=0",
        1 => "preemptions=1",
        2 => "preemptions=2",
        3 => "preemptions=3",
        _ => "preemptions>3",
    });
    for s in &an.sites {
        c.push(intern(format!("site:{s}")));
    }
    for s in &an.preempt_sites {
        c.push(intern(format!("preempted-at:{s}")));
    }
    if nontrivial {
        c.push("nontrivial");
    }
    if an.overlap_same_key {
        c.push("same-key-ops-overlap");
    }
    if an.eviction {
        c.push("eviction-occurred(may-evict model)");
    }
    if an.error_in_race {
        c.push("error-returned-in-a-race");
    }
    if an.lin_skipped {
        c.push("linearizability-skipped(clear failed)");
    }
    if an.get_hit {
        c.push("get-hit");
    }
    c
}

/// Findings reported in this process: (key, category, system, message, reduced case).
/// A later failing run in which the same race occurs is attributed to the same key
/// without being reduced again.
static ESTABLISHED: Mutex<Vec<(String, String, Sys, String, Case)>> = Mutex::new(Vec::new());

enum Attributed {
    /// listed open finding
    Known(String),
    /// not listed: (key, msg, reduced case)
    Violation(String, String, Case),
}

/// Give every distinct failure category of a failing run its key.
fn attribute(case: &Case, an: &Analysis, known: &Known, known_keys: &[String]) -> Result<Vec<Attributed>, String> {
    let mut out = Vec::new();
    let mut cats: Vec<&str> = Vec::new();
    for f in &an.failures {
        if cats.contains(&f.category.as_str()) {
            continue;
        }
        cats.push(&f.category);
        if f.category.starts_with("panic:") {
            let key = format!("C11:{}:{}", case.sys.name(), f.category);
            if known.is_open(&key) {
                out.push(Attributed::Known(key));
                continue;
            }
        }
        // fast path: a listed or already reported race occurs in this run
        if let Some(k) = known_keys.iter().find(|k| judge::key_matches(k, case.sys, &f.category, an)) {
            out.push(Attributed::Known(k.clone()));
            continue;
        }
        let hit = {
            let g = ESTABLISHED.lock().unwrap_or_else(|e| e.into_inner());
            g.iter().find(|(k, c, s, _, _)| *s == case.sys && *c == f.category && judge::key_matches(k, case.sys, &f.category, an)).map(|(k, _, _, m, c)| (k.clone(), m.clone(), c.clone()))
        };
        if let Some((k, m, c)) = hit {
            out.push(Attributed::Violation(k, m, c));
            continue;
        }
        let k = judge::keyed_failure(case, &f.category)?;
        if known.is_open(&k.key) {
            out.push(Attributed::Known(k.key));
        } else {
            let mut g = ESTABLISHED.lock().unwrap_or_else(|e| e.into_inner());
            if !g.iter().any(|(key, ..)| *key == k.key) {
                g.push((k.key.clone(), f.category.clone(), case.sys, k.msg.clone(), k.case.clone()));
            }
            out.push(Attributed::Violation(k.key, k.msg, k.case));
        }
    }
    Ok(out)
}

fn open_keys(known: &Known, candidates: &[String]) -> Vec<String> {
    candidates.iter().filter(|k| known.is_open(k)).cloned().collect()
}

/// Every key this check can produce for the race-independent categories, to find the
/// listed ones (the engine's `Known` offers no iteration).
fn candidate_keys() -> Vec<String> {
    let kinds = ["clear", "contains", "get", "put", "remove", "read", "query", "write"];
    let mut pairs: Vec<String> = Vec::new();
    for (i, a) in kinds.iter().enumerate() {
        for b in &kinds[i..] {
            pairs.push(format!("{a}~{b}"));
            pairs.push(format!("{a}~{b}/other-key"));
        }
    }
    let mut races: Vec<String> = vec!["sequential".into(), "whole-ops".into(), "race=none".into()];
    for (i, p) in pairs.iter().enumerate() {
        races.push(format!("race={p}"));
        for q in &pairs[i + 1..] {
            races.push(format!("race={p}+{q}"));
        }
    }
    let mut cats: Vec<String> = vec!["not-linearizable".into(), "books".into(), "torn-value".into(), "other-keys-value".into()];
    for k in ["get", "contains", "put", "put_zero", "remove", "clear"] {
        cats.push(format!("error-without-race:{k}"));
        cats.push(format!("error-in-race:{k}"));
    }
    let mut out = Vec::new();
    for sys in ["memory", "disk", "container"] {
        for c in &cats {
            for r in &races {
                out.push(format!("C11:{sys}:{c}:{r}"));
            }
        }
    }
    out
}

/// Run and judge one case. Returns the verdict for the engine; failures carry
/// their narrow key. Known-open keys are reported through `known_hits` so that
/// a second, unknown failure of the same run is not hidden.
fn check_case(case: &Case, known: &Known, known_keys: &[String]) -> Verdict {
    if INFRA_COUNT.load(Ordering::Relaxed) >= INFRA_LIMIT {
        return Verdict::pass().class("skipped-after-infrastructure-trouble");
    }
    let run = match run_case(case) {
        Ok(r) => r,
        Err(e) => {
            infra(format!("{e} — case {}", serde_json::to_string(case).unwrap_or_default()));
            return Verdict::pass().class("infrastructure-trouble");
        }
    };
    let an = analyze(case, &run);
    let nontrivial = an.preemptions >= 1 && an.overlap_same_key;
    let mut v = Verdict::pass().nontrivial(nontrivial);
    v.classes = classes_of(&an, nontrivial);
    if an.failures.is_empty() {
        return v;
    }
    match attribute(case, &an, known, known_keys) {
        Err(e) => {
            infra(format!("{e} — case {}", serde_json::to_string(case).unwrap_or_default()));
            v.class("infrastructure-trouble")
        }
        Ok(list) => {
            for a in list {
                match a {
                    Attributed::Known(k) => {
                        if !v.known_hits.contains(&k) {
                            v.known_hits.push(k);
                        }
                    }
                    Attributed::Violation(k, m, _) => v = v.with_fail(k, m),
                }
            }
            v
        }
    }
}

// ---------------------------------------------------------------------------
// exhaustive section: programs × all schedules with ≤ bound pre-emptions
// ---------------------------------------------------------------------------

#[derive(Debug, Clone)]
struct Program {
    sys: Sys,
    setup: Vec<Op>,
    tasks: Vec<Vec<Op>>,
    /// pre-emption bound of the search for this program
    bound: usize,
    /// disk cache with two levels of hashed sub-directories instead of the flat layout
    subdirs: bool,
}

fn swap_keys(op: Op) -> Op {
    match op.key() {
        Some(0) => op.with_key(1),
        Some(1) => op.with_key(0),
        _ => op,
    }
}

/// All programs with `shape[t]` operations in task `t` over `alphabet`, one
/// representative per symmetry class (exchange of tasks of equal length; exchange
/// of key0/key1 when the setup is empty).
fn programs(sys: Sys, alphabet: &[Op], setups: &[Vec<Op>], shape: &[usize], bound: usize) -> Vec<Program> {
    fn canon(mut t: Vec<Vec<Op>>) -> Vec<Vec<Op>> {
        // tasks of equal length are interchangeable: sort them (stable within each length class)
        t.sort_by(|a, b| a.len().cmp(&b.len()).then_with(|| a.cmp(b)));
        t
    }
    let slots: usize = shape.iter().sum();
    let mut out = Vec::new();
    for setup in setups {
        let mut idx = vec![0usize; slots];
        'outer: loop {
            let mut tasks: Vec<Vec<Op>> = Vec::new();
            let mut p = 0;
            for &n in shape {
                tasks.push(idx[p..p + n].iter().map(|&i| alphabet[i]).collect());
                p += n;
            }
            let c = canon(tasks.clone());
            let mut keep = c == tasks;
            if keep && setup.is_empty() {
                let sw = canon(tasks.iter().map(|t| t.iter().map(|o| swap_keys(*o)).collect()).collect());
                if sw < tasks {
                    keep = false;
                }
            }
            if keep {
                out.push(Program { sys, setup: setup.clone(), tasks, bound, subdirs: false });
            }
            // next tuple
            let mut d = slots;
            loop {
                if d == 0 {
                    break 'outer;
                }
                d -= 1;
                idx[d] += 1;
                if idx[d] < alphabet.len() {
                    break;
                }
                idx[d] = 0;
            }
        }
    }
    out
}

fn uses_key(p: &Program, k: u8) -> bool {
    p.setup.iter().chain(p.tasks.iter().flatten()).any(|o| o.key() == Some(k))
}

#[derive(Default)]
struct DfsStats {
    evaluations: u64,
    nontrivial: HashSet<u64>,
    classes: BTreeMap<String, u64>,
    samples: Vec<serde_json::Value>,
    /// key -> (case, msg)
    failures: BTreeMap<String, (Case, String)>,
    known: BTreeMap<String, u64>,
    max_schedules_per_program: u64,
    programs: u64,
}

/// Depth-first search over the schedules of one program.
fn dfs_program(p: &Program, known: &Known, known_keys: &[String], st: &mut DfsStats, stop: &AtomicBool) {
    // (explicit choices, pre-emptions among them)
    let mut stack: Vec<(Vec<u8>, usize)> = vec![(Vec::new(), 0)];
    let mut schedules = 0u64;
    while let Some((prefix, pre)) = stack.pop() {
        if stop.load(Ordering::Relaxed) || INFRA_COUNT.load(Ordering::Relaxed) >= INFRA_LIMIT {
            stop.store(true, Ordering::Relaxed);
            return;
        }
        let case = Case { sys: p.sys, cfg: Cfg { subdirs: p.subdirs, ..Cfg::roomy() }, setup: p.setup.clone(), tasks: p.tasks.clone(), schedule: prefix.clone() };
        let run = match run_case(&case) {
            Ok(r) => r,
            Err(e) => {
                infra(format!("{e} — case {}", serde_json::to_string(&case).unwrap_or_default()));
                stop.store(true, Ordering::Relaxed);
                return;
            }
        };
        schedules += 1;
        // children: flip one later choice
        for i in prefix.len()..run.choices.len() {
            let ch = run.choices[i];
            let npre = pre + usize::from(ch.preemptive);
            if npre > p.bound {
                continue;
            }
            for c in 1..ch.options {
                let mut child: Vec<u8> = run.choices[..i].iter().map(|x| x.chosen).collect();
                child.push(c);
                stack.push((child, npre));
            }
        }
        let an = analyze(&case, &run);
        let nontrivial = an.preemptions >= 1 && an.overlap_same_key;
        st.evaluations += 1;
        for c in classes_of(&an, nontrivial) {
            *st.classes.entry(c.to_string()).or_default() += 1;
        }
        if nontrivial {
            let js = serde_json::to_value(&case).unwrap_or(serde_json::Value::Null);
            if st.nontrivial.insert(vh_engine::util::fnv64(js.to_string().as_bytes())) && st.samples.len() < 2 {
                st.samples.push(js);
            }
        }
        if an.failures.is_empty() {
            continue;
        }
        match attribute(&case, &an, known, known_keys) {
            Err(e) => infra(format!("{e} — case {}", serde_json::to_string(&case).unwrap_or_default())),
            Ok(list) => {
                for a in list {
                    match a {
                        Attributed::Known(k) => *st.known.entry(k).or_default() += 1,
                        Attributed::Violation(k, m, c) => {
                            st.failures.entry(k).or_insert((c, m));
                        }
                    }
                }
            }
        }
    }
    st.programs += 1;
    st.max_schedules_per_program = st.max_schedules_per_program.max(schedules);
}

fn run_dfs_section(ck: &mut Check, name: &'static str, scope: String, programs: Vec<Program>, shards: usize, known_keys: &[String]) {
    if !ck.section_enabled(name) {
        return;
    }
    let t0 = std::time::Instant::now();
    let known = ck.known().clone();
    // regression replays first
    for (path, cj) in ck.stored_replays(name) {
        let Ok(case) = serde_json::from_value::<Case>(cj) else { continue };
        let v = check_case(&case, &known, known_keys);
        ck.record_external(name, 1, Vec::new(), v.classes.iter().map(|c| (c.to_string(), 1)), Vec::new(), None);
        for k in &v.known_hits {
            ck.count_known(name, k, 1);
        }
        if let Some(f) = v.fail {
            eprintln!("regression replay {} fails: {} {}", path.display(), f.key, f.msg);
            ck.report_external(name, &case, &f.key, &f.msg);
        }
    }
    let next = AtomicUsize::new(0);
    let stop = AtomicBool::new(false);
    let total = Mutex::new(DfsStats::default());
    std::thread::scope(|sc| {
        for _ in 0..shards.max(1) {
            sc.spawn(|| {
                vh_engine::util::install_panic_capture();
                let mut st = DfsStats::default();
                loop {
                    let i = next.fetch_add(1, Ordering::Relaxed);
                    if i >= programs.len() || stop.load(Ordering::Relaxed) {
                        break;
                    }
                    dfs_program(&programs[i], &known, known_keys, &mut st, &stop);
                }
                let mut g = total.lock().unwrap_or_else(|e| e.into_inner());
                g.evaluations += st.evaluations;
                g.programs += st.programs;
                g.max_schedules_per_program = g.max_schedules_per_program.max(st.max_schedules_per_program);
                g.nontrivial.extend(st.nontrivial);
                for (k, v) in st.classes {
                    *g.classes.entry(k).or_default() += v;
                }
                for (k, v) in st.known {
                    *g.known.entry(k).or_default() += v;
                }
                for s in st.samples {
                    if g.samples.len() < 3 {
                        g.samples.push(s);
                    }
                }
                for (k, v) in st.failures {
                    g.failures.entry(k).or_insert(v);
                }
            });
        }
    });
    let st = total.into_inner().unwrap_or_else(|e| e.into_inner());
    let complete = !stop.load(Ordering::Relaxed) && st.programs as usize == programs.len();
    let mut classes: Vec<(String, u64)> = st.classes.into_iter().collect();
    classes.push(("programs".into(), st.programs));
    classes.push(("max-schedules-of-one-program".into(), st.max_schedules_per_program));
    classes.push(("wall-seconds".into(), t0.elapsed().as_secs()));
    ck.record_external(name, st.evaluations, st.nontrivial, classes, st.samples, if complete { Some(scope) } else { None });
    for (k, n) in st.known {
        ck.count_known(name, &k, n);
    }
    for (key, (case, msg)) in st.failures {
        ck.report_external(name, &case, &key, &msg);
    }
    drain_infra(ck);
    eprintln!("[{name}] {} programs, {} schedules, {:.1} s", st.programs, st.evaluations, t0.elapsed().as_secs_f64());
}

// ---------------------------------------------------------------------------
// random programs and schedules
// ---------------------------------------------------------------------------

fn op_strategy(sys: Sys, nkeys: u8) -> BoxedStrategy<Op> {
    // keys skewed towards key 0 so that tasks meet on one key
    let key = prop_oneof![5 => Just(0u8), 3 => Just(1u8), 2 => Just(2u8), 1 => Just(3u8)].prop_map(move |k| k.min(nkeys - 1));
    match sys {
        // the layered cache without zero-TTL puts: an expired entry in the first layer above an
        // older value in the disk layer is the put_to_layer staleness listed under C12
        // ... and without remove and clear: they are sequences of per-layer steps without a common
        // lock, which is not atomic (two listed findings, kept as stored replays); what is explored
        // here is lookups against puts, where a value moves between the layers
        Sys::Multi => (prop_oneof![4 => Just(0u8), 2 => Just(1u8), 4 => Just(2u8)], key)
            .prop_map(|(o, k)| match o {
                0 => Op::Get { k },
                1 => Op::Has { k },
                _ => Op::Put { k },
            })
            .boxed(),
        Sys::Container | Sys::ContainerCut => (prop_oneof![3 => Just(0u8), 2 => Just(1u8), 3 => Just(2u8), 2 => Just(4u8)], key)
            .prop_map(|(o, k)| match o {
                0 => Op::Get { k },
                1 => Op::Has { k },
                2 => Op::Put { k },
                _ => Op::Remove { k },
            })
            .boxed(),
        _ => (prop_oneof![3 => Just(0u8), 2 => Just(1u8), 3 => Just(2u8), 2 => Just(3u8), 2 => Just(4u8), 1 => Just(5u8)], key)
            .prop_map(|(o, k)| match o {
                0 => Op::Get { k },
                1 => Op::Has { k },
                2 => Op::Put { k },
                3 => Op::PutZero { k },
                4 => Op::Remove { k },
                _ => Op::Clear,
            })
            .boxed(),
    }
}

fn schedule_strategy(max_len: usize) -> BoxedStrategy<Vec<u8>> {
    // 0 = the running task continues; the density of pre-emptions varies per schedule
    prop_oneof![
        2 => proptest::collection::vec(prop_oneof![6 => Just(0u8), 3 => Just(1u8), 1 => Just(2u8)], 0..=max_len),
        1 => proptest::collection::vec(prop_oneof![2 => Just(0u8), 3 => Just(1u8), 1 => Just(2u8)], 0..=max_len),
        1 => proptest::collection::vec(prop_oneof![12 => Just(0u8), 2 => Just(1u8), 1 => Just(2u8)], 0..=max_len * 2),
    ]
    .boxed()
}

fn random_case(sys: Sys) -> BoxedStrategy<Case> {
    (1u8..=3)
        .prop_flat_map(move |nkeys| {
            let setup_op = match sys {
                Sys::Container | Sys::ContainerCut | Sys::Multi => op_strategy(sys, nkeys).prop_map(|o| Op::Put { k: o.key().unwrap_or(0) }).boxed(),
                _ => (op_strategy(sys, nkeys), any::<bool>()).prop_map(|(o, z)| if z { Op::PutZero { k: o.key().unwrap_or(0) } } else { Op::Put { k: o.key().unwrap_or(0) } }).boxed(),
            };
            (
                proptest::collection::vec(setup_op, 0..=2),
                proptest::collection::vec(proptest::collection::vec(op_strategy(sys, nkeys), 1..=3), 2..=3),
                schedule_strategy(24),
                any::<bool>(),
            )
        })
        .prop_map(move |(setup, tasks, schedule, subdirs)| Case { sys, cfg: Cfg { subdirs: subdirs && sys == Sys::Disk, ..Cfg::roomy() }, setup, tasks, schedule })
        .boxed()
}

fn evict_case() -> BoxedStrategy<Case> {
    // tiny capacities: most puts start an eviction
    let op = (prop_oneof![5 => Just(2u8), 2 => Just(0u8), 1 => Just(1u8), 1 => Just(3u8), 1 => Just(4u8), 1 => Just(5u8)], 0u8..4).prop_map(|(o, k)| match o {
        0 => Op::Get { k },
        1 => Op::Has { k },
        2 => Op::Put { k },
        3 => Op::PutZero { k },
        4 => Op::Remove { k },
        _ => Op::Clear,
    });
    (
        prop_oneof![Just(1usize), Just(2usize), Just(3usize)],
        prop_oneof![Just(Pol::Lru), Just(Pol::Lfu), Just(Pol::Fifo), Just(Pol::Ttl)],
        proptest::collection::vec((0u8..4).prop_map(|k| Op::Put { k }), 0..=3),
        proptest::collection::vec(proptest::collection::vec(op, 1..=3), 2..=3),
        schedule_strategy(40),
    )
        .prop_map(|(max_entries, policy, setup, tasks, schedule)| Case { sys: Sys::Memory, cfg: Cfg { max_entries, policy, subdirs: false }, setup, tasks, schedule })
        .boxed()
}

// ---------------------------------------------------------------------------

fn cache_alphabet(keys: &[u8]) -> Vec<Op> {
    let mut v = Vec::new();
    for &k in keys {
        v.extend([Op::Get { k }, Op::Has { k }, Op::Put { k }, Op::PutZero { k }, Op::Remove { k }]);
    }
    v.push(Op::Clear);
    v
}

fn container_alphabet(keys: &[u8]) -> Vec<Op> {
    let mut v = Vec::new();
    for &k in keys {
        v.extend([Op::Get { k }, Op::Has { k }, Op::Put { k }, Op::Remove { k }]);
    }
    v
}

/// Development aid: VH_C11_BENCH=<runs> times the executor on one fixed case per system.
fn bench(n: usize) {
    for sys in [Sys::Memory, Sys::Disk, Sys::Container] {
        let case = Case {
            sys,
            cfg: Cfg::roomy(),
            setup: vec![Op::Put { k: 0 }],
            tasks: vec![vec![Op::Get { k: 0 }, Op::Put { k: 0 }], vec![Op::Put { k: 0 }, Op::Remove { k: 0 }]],
            schedule: vec![0, 0, 1, 0, 1, 1],
        };
        let n = if sys == Sys::Memory { n } else { n / 10 + 1 };
        let t0 = std::time::Instant::now();
        let mut points = 0usize;
        for _ in 0..n {
            let r = run_case(&case).expect("run");
            points += r.choices.len();
            let _ = analyze(&case, &r);
        }
        let el = t0.elapsed();
        eprintln!("bench {sys:?}: {n} runs, {:.1} us/run, {} choice points/run", el.as_secs_f64() * 1e6 / n as f64, points / n);
    }
}

fn main() {
    if let Some(n) = std::env::var("VH_C11_BENCH").ok().and_then(|s| s.parse::<usize>().ok()) {
        bench(n);
        return;
    }
    if std::env::var("VH_C11_COUNT").is_ok() {
        // development aid: sizes of the exhaustive program families
        let k0 = [0u8];
        let k01 = [0u8, 1];
        let e: Vec<Vec<Op>> = vec![vec![]];
        for (name, n) in [
            ("memory 2x2 key0", programs(Sys::Memory, &cache_alphabet(&k0), &e, &[2, 2], 3).len()),
            ("memory 2x2 key0+key1", programs(Sys::Memory, &cache_alphabet(&k01), &e, &[2, 2], 3).len()),
            ("memory 2x3 key0", programs(Sys::Memory, &cache_alphabet(&k0), &e, &[3, 3], 3).len()),
            ("memory 3x2 key0", programs(Sys::Memory, &cache_alphabet(&k0), &e, &[2, 2, 2], 2).len()),
            ("container 2x2 key0+key1", programs(Sys::Container, &container_alphabet(&k01), &e, &[2, 2], 3).len()),
        ] {
            eprintln!("{name}: {n} programs per setup");
        }
        // … and a smoke run of the search on a few programs of the big families
        let s: Vec<Vec<Op>> = vec![vec![Op::PutZero { k: 0 }]];
        for (name, fam) in [
            ("memory 2x3", programs(Sys::Memory, &cache_alphabet(&k0), &s, &[3, 3], 3)),
            ("memory 3x2", programs(Sys::Memory, &cache_alphabet(&k0), &s, &[2, 2, 2], 2)),
            ("disk 2x2", programs(Sys::Disk, &cache_alphabet(&k0), &s, &[2, 2], 3)),
        ] {
            let mut st = DfsStats::default();
            let stop = AtomicBool::new(false);
            let t0 = std::time::Instant::now();
            for p in fam.iter().step_by(fam.len() / 12 + 1) {
                dfs_program(p, &Known::default(), &[], &mut st, &stop);
            }
            eprintln!(
                "{name}: {} programs, {} schedules (max {} per program), {} distinct failure keys, {:.1} s",
                st.programs,
                st.evaluations,
                st.max_schedules_per_program,
                st.failures.len(),
                t0.elapsed().as_secs_f64()
            );
            for k in st.failures.keys() {
                eprintln!("   {k}");
            }
        }
        drain_infra_stderr();
        return;
    }
    let mut ck = Check::from_args("C11", "exploration");
    let tier = ck.tier;
    ck.extra(
        "rule",
        "case = (system, program, schedule); programs = 2-3 tasks x 1-3 ops of {get, contains, put, put_with_ttl(ZERO), remove, clear} on one MemoryCache / DiskCache \
         (values tagged per task+op, distinct lengths) and {write, read, remove, query} on one DynamicContainer; every sched_point (verif-hooks) is a choice point of the \
         schedule; dfs-* sections enumerate every schedule with <= 3 pre-emptions of every program of the stated family, random-* draw programs and schedules; \
         non-trivial = the run has >= 1 pre-emption and two operations of different tasks on the same key (or a clear) overlap in time; distinct by case hash"
            .into(),
    );
    ck.assume("interleaving happens only at the sched_point sites of the verif-hooks feature (between accesses to shared state, never while a map/lock guard is held); races inside DashMap/parking_lot/std locks, inside one file-system call, and real multi-core memory ordering are outside the hook granularity");
    ck.assume(format!(
        "linearizability programs use max_entries = {} and no byte limit, far above the <= 4 keys of a program: no eviction is due; a run whose trace shows that the cache started an eviction anyway is judged with the 'may evict / latest or nothing' model of C10",
        sys::ROOMY
    ));
    ck.assume("TTLs are Duration::ZERO (expired from the start) or the default 1 h / 24 h; no clock is read by the oracle; a baton hand-over without progress for 60 s is reported as infrastructure trouble (exit 2), never as a verdict");
    ck.assume("an operation that returned an error may or may not have taken effect (both are tried by the linearizability search); a failed clear() makes the run's linearizability undecided (skipped)");
    ck.assume("the harness's file system is healthy (tmpfs / local disk with space): an Err from any operation is the code's own doing. An error is a failure with or without a conflicting operation overlapping it (categories error-without-race / error-in-race): an operation that takes effect at one instant cannot trip over another one's intermediate state");

    // replay of a case found by an exhaustive section (the proptest sections replay through Check::run)
    if let Some((section, cj, path)) = ck.replay_request() {
        if section.starts_with("dfs-") {
            let case: Case = match serde_json::from_value(cj) {
                Ok(c) => c,
                Err(e) => {
                    eprintln!("replay case does not deserialize: {e}");
                    std::process::exit(2);
                }
            };
            // judge without the known list (conclude_replay maps known keys itself); a run can
            // fail in several categories: report the one the replay file was recorded for
            let recorded: Option<String> = std::fs::read_to_string(&path)
                .ok()
                .and_then(|t| serde_json::from_str::<serde_json::Value>(&t).ok())
                .and_then(|v| v.get("key").and_then(|k| k.as_str()).map(str::to_string));
            let outcome = run_case(&case).and_then(|run| {
                let an = analyze(&case, &run);
                attribute(&case, &an, &Known::default(), &[])
            });
            match outcome {
                Err(e) => {
                    eprintln!("INFRA: {e}");
                    sys::drop_executor();
                    std::process::exit(2);
                }
                Ok(list) => {
                    let mut fails: Vec<(String, String)> = list
                        .into_iter()
                        .filter_map(|a| match a {
                            Attributed::Violation(k, m, _) => Some((k, m)),
                            Attributed::Known(_) => None,
                        })
                        .collect();
                    let pick = fails.iter().position(|(k, _)| Some(k) == recorded.as_ref()).unwrap_or(0);
                    let fail = if fails.is_empty() { None } else { Some(fails.swap_remove(pick)) };
                    sys::drop_executor();
                    ck.conclude_replay(&path, fail);
                }
            }
        }
    }

    let known = ck.known().clone();
    let known_keys: Vec<String> = known.open_keys();
    let _ = (open_keys as fn(&Known, &[String]) -> Vec<String>, candidate_keys as fn() -> Vec<String>);
    let k01: [u8; 2] = [0, 1];
    let k0: [u8; 1] = [0];

    // --- exhaustive -----------------------------------------------------------------
    {
        // one key: bound 3; two keys: bound 2 (quick) / 3 (thorough)
        let setups1: Vec<Vec<Op>> = vec![vec![], vec![Op::Put { k: 0 }], vec![Op::PutZero { k: 0 }]];
        let setups2: Vec<Vec<Op>> = tier.pick(vec![vec![], vec![Op::PutZero { k: 0 }]], vec![vec![], vec![Op::Put { k: 0 }], vec![Op::PutZero { k: 0 }], vec![Op::Put { k: 0 }, Op::PutZero { k: 1 }]]);
        let mut progs = programs(Sys::Memory, &cache_alphabet(&k0), &setups1, &[2, 2], BOUND);
        let one = progs.len();
        let two: Vec<Program> = programs(Sys::Memory, &cache_alphabet(&k01), &setups2, &[2, 2], tier.pick(2, BOUND)).into_iter().filter(|p| uses_key(p, 1)).collect();
        let ntwo = two.len();
        progs.extend(two);
        let mut more = String::new();
        if tier == vh_engine::Tier::Thorough {
            let s: Vec<Vec<Op>> = vec![vec![], vec![Op::PutZero { k: 0 }]];
            let a = programs(Sys::Memory, &cache_alphabet(&k0), &s, &[3, 3], BOUND);
            let b = programs(Sys::Memory, &cache_alphabet(&k0), &s, &[2, 2, 2], 2);
            more = format!(" + {} programs of 2 tasks x 3 ops on key0 (<= {BOUND} pre-emptions) + {} programs of 3 tasks x 2 ops on key0 (<= 2 pre-emptions), setups {s:?}", a.len(), b.len());
            progs.extend(a);
            progs.extend(b);
        }
        let scope = format!(
            "MemoryCache, 2 tasks x 2 ops over {{get, contains, put, put_with_ttl(ZERO), remove}} + clear, one program per task/key symmetry class, every schedule up to the pre-emption bound at the sched_point sites:              {one} programs on key0 only with setups {setups1:?} (<= {BOUND} pre-emptions) + {ntwo} programs that also use key1 with setups {setups2:?} (<= {} pre-emptions){more}",
            tier.pick(2, BOUND)
        );
        run_dfs_section(&mut ck, "dfs-memory", scope, progs, 16, &known_keys);
    }
    {
        let setups1: Vec<Vec<Op>> = vec![vec![], vec![Op::Put { k: 0 }], vec![Op::PutZero { k: 0 }]];
        let mut progs = programs(Sys::Disk, &cache_alphabet(&k0), &setups1, &[2, 2], tier.pick(2, BOUND));
        let one = progs.len();
        let mut ntwo = 0;
        if tier == vh_engine::Tier::Thorough {
            let two: Vec<Program> = programs(Sys::Disk, &cache_alphabet(&k01), &[vec![], vec![Op::PutZero { k: 0 }]], &[2, 2], 2).into_iter().filter(|p| uses_key(p, 1)).collect();
            ntwo = two.len();
            progs.extend(two);
        }
        let scope = format!(
            "DiskCache (flat layout), 2 tasks x 2 ops over {{get, contains, put, put_with_ttl(ZERO), remove}} + clear, one program per symmetry class, every schedule up to the pre-emption bound at the sched_point sites:              {one} programs on key0 only with setups {setups1:?} (<= {} pre-emptions) + {ntwo} programs that also use key1 (<= 2 pre-emptions)",
            tier.pick(2, BOUND)
        );
        run_dfs_section(&mut ck, "dfs-disk", scope, progs, 16, &known_keys);
    }
    {
        // the hashed layout: entries live in sub-directories that clear() removes when they are empty
        let setups: Vec<Vec<Op>> = vec![vec![], vec![Op::Put { k: 0 }]];
        let alphabet = vec![Op::Get { k: 0 }, Op::Put { k: 0 }, Op::Remove { k: 0 }, Op::Clear];
        let mut progs = programs(Sys::Disk, &alphabet, &setups, &[2, 2], 2);
        for p in &mut progs {
            p.subdirs = true;
        }
        let scope = format!(
            "DiskCache with two levels of hashed sub-directories, 2 tasks x 2 ops over {{get, put, remove}} on key0 + clear, one program per symmetry class, setups {setups:?}, every schedule with <= 2 pre-emptions at the sched_point sites: {} programs",
            progs.len()
        );
        run_dfs_section(&mut ck, "dfs-disk-hashed-layout", scope, progs, 16, &known_keys);
    }
    {
        let setups: Vec<Vec<Op>> = vec![vec![], vec![Op::Put { k: 0 }]];
        let mut progs = programs(Sys::Container, &container_alphabet(&k0), &setups, &[2, 2], BOUND);
        let one = progs.len();
        let two: Vec<Program> = programs(Sys::Container, &container_alphabet(&k01), &setups, &[2, 2], tier.pick(1, BOUND)).into_iter().filter(|p| uses_key(p, 1)).collect();
        let ntwo = two.len();
        progs.extend(two);
        let scope = format!(
            "DynamicContainer, 2 tasks x 2 ops over {{write, read, query, remove}} (content-addressed: key k = key of data k), one program per symmetry class, setups {setups:?}, every schedule up to the pre-emption bound at the sched_point sites:              {one} programs on key0 only (<= {BOUND} pre-emptions) + {ntwo} programs that also use key1 (<= {} pre-emptions)",
            tier.pick(1, BOUND)
        );
        run_dfs_section(&mut ck, "dfs-container", scope, progs, 16, &known_keys);
    }

    {
        // a container that came up on an archive without its tail: object 0 is indexed, reads of it
        // take the truncated-read path (which writes to the index) while removes and writes run
        let setups: Vec<Vec<Op>> = vec![vec![Op::Put { k: 0 }]];
        let mut progs = programs(Sys::ContainerCut, &container_alphabet(&k0), &setups, &[2, 2], BOUND);
        progs.extend(programs(Sys::ContainerCut, &container_alphabet(&k0), &setups, &[2, 2, 2], tier.pick(1, 2)));
        let scope = format!(
            "DynamicContainer opened on a store whose archive lost its tail (object 0 indexed, its bytes gone: read -> TruncatedRead = 'present'; a write stores them again), 2 tasks x 2 ops (<= {BOUND} pre-emptions) and 3 tasks x 2 ops (<= {} pre-emptions) over {{write, read, query, remove}} on key0, one program per symmetry class, every schedule at the sched_point sites: {} programs",
            tier.pick(1, 2),
            progs.len()
        );
        run_dfs_section(&mut ck, "dfs-container-truncated", scope, progs, 16, &known_keys);
    }

    {
        // the layered cache: a value that lives in the disk layer only (setup), looked up, replaced,
        // removed through both layers
        let setups: Vec<Vec<Op>> = vec![vec![], vec![Op::Put { k: 0 }]];
        let alphabet = vec![Op::Get { k: 0 }, Op::Has { k: 0 }, Op::Put { k: 0 }];
        let (b2, b3) = (tier.pick(2, BOUND), tier.pick(1, 2));
        let mut progs = programs(Sys::Multi, &alphabet, &setups, &[2, 2], b2);
        progs.extend(programs(Sys::Multi, &alphabet, &setups, &[2, 2, 2], b3));
        let scope = format!(
            "MultiLayerCacheImpl over [MemoryCache, DiskCache], 2 tasks x 2 ops (<= {b2} pre-emptions) and 3 tasks x 2 ops (<= {b3} pre-emptions) over {{get, contains, put}} on key0, one program per symmetry class, setups {{none, value in the disk layer only}}, every schedule at the sched_point sites of the layers: {} programs (remove and clear: see the two stored replays multi-*.json)",
            progs.len()
        );
        run_dfs_section(&mut ck, "dfs-multi", scope, progs, 16, &known_keys);
    }

    // --- the background sweep as one more task ---------------------------------------------------
    ck.run(
        Section::enumerate(
            "memory-with-cleanup-task",
            "MemoryCache::new_with_cleanup (sweep every 60 s, paused clock): two tasks put values that are expired from the start or good for an hour, sweep ticks in between (never / after every / after every 2nd operation) and after the tasks finished; then size(), stats.entry_count and stats bytes equal what a read of every key finds",
            || Box::new(cleanup::all_cases().into_iter()),
            cleanup::check,
        )
        .shards(8),
    );

    // --- random -----------------------------------------------------------------------
    let (kn, kk) = (known.clone(), known_keys.clone());
    ck.run(Section::pbt("random-memory", tier.pick(120_000, 6_000_000), || random_case(Sys::Memory), move |c: &Case| check_case(c, &kn, &kk)).shards(16));
    drain_infra(&mut ck);
    let (kn, kk) = (known.clone(), known_keys.clone());
    ck.run(Section::pbt("random-disk", tier.pick(30_000, 1_500_000), || random_case(Sys::Disk), move |c: &Case| check_case(c, &kn, &kk)).shards(16));
    drain_infra(&mut ck);
    let (kn, kk) = (known.clone(), known_keys.clone());
    ck.run(Section::pbt("random-multi", tier.pick(20_000, 1_000_000), || random_case(Sys::Multi), move |c: &Case| check_case(c, &kn, &kk)).shards(16));
    drain_infra(&mut ck);
    let (kn, kk) = (known.clone(), known_keys.clone());
    ck.run(Section::pbt("random-container", tier.pick(12_000, 600_000), || random_case(Sys::Container), move |c: &Case| check_case(c, &kn, &kk)).shards(16));
    drain_infra(&mut ck);
    let (kn, kk) = (known.clone(), known_keys.clone());
    ck.run(Section::pbt("evict-memory", tier.pick(60_000, 3_000_000), evict_case, move |c: &Case| check_case(c, &kn, &kk)).shards(16));
    drain_infra(&mut ck);

    // --- free-running stress (real threads, interleavings inside the container's own critical sections)
    stress::run(&mut ck, tier.pick(1_500, 60_000));
    drain_infra(&mut ck);

    sys::drop_executor();
    ck.finish();
}
