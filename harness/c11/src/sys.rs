//! The three systems under test, the operations of a program, and the
//! execution of one (system, program, schedule) case under the baton scheduler.

use crate::sched::{Baton, Choice, Entry};
use bytes::Bytes;
use cascette_cache::config::{DiskCacheConfig, MemoryCacheConfig};
use cascette_cache::disk_cache::DiskCache;
use cascette_cache::key::CacheKey;
use cascette_cache::memory_cache::MemoryCache;
use cascette_cache::traits::{AsyncCache, EvictionPolicy};
use cascette_client_storage::StorageError;
use cascette_client_storage::container::{Container, DynamicContainer};
use serde::{Deserialize, Serialize};
use std::path::Path;
use std::sync::Arc;
use std::time::Duration;
use vh_engine::refimpl::md5;

/// Cache key over a (file-name safe) string — same as C10.
#[derive(Debug, Clone, PartialEq, Eq, Hash)]
pub struct SKey(pub String);

impl CacheKey for SKey {
    fn as_cache_key(&self) -> &str {
        &self.0
    }
}

#[derive(Debug, Clone, Copy, PartialEq, Eq, Hash, Serialize, Deserialize)]
pub enum Sys {
    Memory,
    Disk,
    Container,
    /// `MultiLayerCacheImpl` over [MemoryCache (roomy), DiskCache]; setup puts go to the disk
    /// layer only (`put_to_layer(.., 1)`), so that lookups travel through both layers
    Multi,
    /// `DynamicContainer` that comes up on a store whose archive lost its tail (a crash): object 0
    /// is indexed but its bytes are not there, so a read of it takes the truncated-read path
    /// (`TruncatedRead`, the entry is marked non-resident and stays indexed). The setup `Put {k:0}`
    /// stands for that stored object. Programs use key 0 only: a write of object 0 puts the same
    /// bytes where they were (a write of another object would land there instead).
    ContainerCut,
}

impl Sys {
    pub fn is_container(self) -> bool {
        matches!(self, Sys::Container | Sys::ContainerCut)
    }
    pub fn name(self) -> &'static str {
        match self {
            Sys::ContainerCut => "container-truncated",
            Sys::Memory => "memory",
            Sys::Disk => "disk",
            Sys::Container => "container",
            Sys::Multi => "multi",
        }
    }
}

#[derive(Debug, Clone, Copy, PartialEq, Eq, Serialize, Deserialize)]
pub enum Pol {
    Lru,
    Lfu,
    Fifo,
    Ttl,
}

impl Pol {
    fn to_policy(self) -> EvictionPolicy {
        match self {
            Pol::Lru => EvictionPolicy::Lru,
            Pol::Lfu => EvictionPolicy::Lfu,
            Pol::Fifo => EvictionPolicy::Fifo,
            Pol::Ttl => EvictionPolicy::Ttl,
        }
    }
}

/// Configuration of the system. `max_entries`/`policy` matter for the memory
/// cache only; `subdirs` for the disk cache only.
#[derive(Debug, Clone, Copy, PartialEq, Eq, Serialize, Deserialize)]
pub struct Cfg {
    pub max_entries: usize,
    pub policy: Pol,
    pub subdirs: bool,
}

/// Capacity used by every linearizability program: far above the ≤ 4 keys a
/// program touches, so no eviction is due; if one happens all the same (the
/// trace shows an eviction site) the run is judged with the "may evict" model.
pub const ROOMY: usize = 64;

impl Cfg {
    pub const fn roomy() -> Cfg {
        Cfg { max_entries: ROOMY, policy: Pol::Lru, subdirs: false }
    }
}

/// One operation. For the container: `Put` = write(data_k), `Get` = read(key_k),
/// `Has` = query(key_k), `Remove` = remove(key_k); `PutZero` and `Clear` do not exist there.
#[derive(Debug, Clone, Copy, PartialEq, Eq, PartialOrd, Ord, Hash, Serialize, Deserialize)]
pub enum Op {
    Get { k: u8 },
    Has { k: u8 },
    Put { k: u8 },
    /// put_with_ttl(key, value, Duration::ZERO): expired from the start
    PutZero { k: u8 },
    Remove { k: u8 },
    Clear,
}

impl Op {
    pub fn key(self) -> Option<u8> {
        match self {
            Op::Get { k } | Op::Has { k } | Op::Put { k } | Op::PutZero { k } | Op::Remove { k } => Some(k),
            Op::Clear => None,
        }
    }
    pub fn is_writer(self) -> bool {
        matches!(self, Op::Put { .. } | Op::PutZero { .. } | Op::Remove { .. } | Op::Clear)
    }
    pub fn kind(self) -> &'static str {
        match self {
            Op::Get { .. } => "get",
            Op::Has { .. } => "contains",
            Op::Put { .. } => "put",
            Op::PutZero { .. } => "put_zero",
            Op::Remove { .. } => "remove",
            Op::Clear => "clear",
        }
    }
    pub fn with_key(self, k: u8) -> Op {
        match self {
            Op::Get { .. } => Op::Get { k },
            Op::Has { .. } => Op::Has { k },
            Op::Put { .. } => Op::Put { k },
            Op::PutZero { .. } => Op::PutZero { k },
            Op::Remove { .. } => Op::Remove { k },
            Op::Clear => Op::Clear,
        }
    }
    /// same key (or one of them is clear) and at least one of them writes
    pub fn conflicts(self, o: Op) -> bool {
        let same = match (self.key(), o.key()) {
            (Some(a), Some(b)) => a == b,
            _ => true,
        };
        same && (self.is_writer() || o.is_writer())
    }
    /// same key or one of them is clear
    pub fn same_key(self, o: Op) -> bool {
        match (self.key(), o.key()) {
            (Some(a), Some(b)) => a == b,
            _ => true,
        }
    }
}

/// Self-contained, replayable case.
#[derive(Debug, Clone, PartialEq, Eq, Serialize, Deserialize)]
pub struct Case {
    pub sys: Sys,
    pub cfg: Cfg,
    /// executed one after the other before the tasks start
    pub setup: Vec<Op>,
    /// the concurrent tasks
    pub tasks: Vec<Vec<Op>>,
    /// choices of the scheduler, see sched.rs
    #[serde(with = "vh_engine::util::hexbytes")]
    pub schedule: Vec<u8>,
}

pub const SETUP_TASK: u8 = 3;
pub const SWEEP_TASK: u8 = 4;
pub const MAX_KEYS: u8 = 4;

/// Cache key of pool key `k`. The hot key (0) and key 2 carry dots, as the keys of real callers do
/// (`cdn/.../<hash>.index`, version strings): DiskCache derives temporary file names from the key.
pub fn key_name(k: u8) -> String {
    match k {
        0 => "key0.index".into(),
        2 => "v1.15.7".into(),
        _ => format!("key{k}"),
    }
}

/// Value written by op `opi` of task `task` (setup = task 3): one tag byte
/// repeated, and a length that is unique per (task, op) — a torn or mixed value
/// (two tags, or a length that does not belong to its tag) is recognisable, and
/// replacing a value always changes the size.
pub fn cache_value(task: u8, opi: u8) -> Vec<u8> {
    let id = task * 4 + opi.min(3);
    vec![0xA0 + id; 4 + 3 * id as usize]
}

/// Content-addressed container: key `k` always stands for the same data.
pub fn container_data(k: u8) -> Vec<u8> {
    vec![0xC0 + k; 40 + 17 * k as usize]
}

/// `MD5(BLTE(single chunk, mode 'N'))` — what the storage documents as the key of
/// an uncompressed write (computed with the reference MD5, not the code under test).
pub fn container_key(k: u8) -> [u8; 16] {
    let data = container_data(k);
    let mut v = Vec::with_capacity(data.len() + 9);
    v.extend_from_slice(b"BLTE");
    v.extend_from_slice(&0u32.to_be_bytes());
    v.push(b'N');
    v.extend_from_slice(&data);
    md5::md5(&v)
}

/// Observed result of one operation.
#[derive(Debug, Clone, PartialEq, Eq)]
pub enum Res {
    /// get / read
    Got(Option<Vec<u8>>),
    /// contains / remove / query
    Bool(bool),
    /// put / clear / container remove
    Unit,
    Err(String),
    Panic { file: String, line: u32, msg: String, norm: String },
}

impl Res {
    pub fn short(&self) -> String {
        match self {
            Res::Got(None) => "None".into(),
            Res::Got(Some(b)) => format!("Some({})", describe_bytes(b)),
            Res::Bool(b) => format!("{b}"),
            Res::Unit => "ok".into(),
            Res::Err(e) => format!("Err({e})"),
            Res::Panic { file, line, msg, .. } => format!("PANIC at {file}:{line}: {msg}"),
        }
    }
}

pub fn describe_bytes(b: &[u8]) -> String {
    if b.is_empty() {
        return "0 bytes".into();
    }
    // runs of equal bytes
    let mut runs: Vec<(u8, usize)> = Vec::new();
    for &x in b {
        match runs.last_mut() {
            Some((v, n)) if *v == x => *n += 1,
            _ => runs.push((x, 1)),
        }
    }
    let s: Vec<String> = runs.iter().take(4).map(|(v, n)| format!("{n}x{v:02x}")).collect();
    format!("{}{}", s.join("+"), if runs.len() > 4 { "+…" } else { "" })
}

#[derive(Debug, Clone)]
pub enum Event {
    Invoke { task: u8, opi: u8, op: Op },
    Return { task: u8, opi: u8, res: Res },
}

pub enum System {
    Mem(MemoryCache<SKey>),
    Disk(DiskCache<SKey>),
    Cont(DynamicContainer),
    /// see `Sys::ContainerCut`
    ContCut(DynamicContainer),
    Multi(cascette_cache::multi_layer::MultiLayerCacheImpl<SKey>),
}

const YEAR: Duration = Duration::from_secs(365 * 24 * 3600);

impl System {
    /// Build the system on `dir`. No background task is started by any of the
    /// constructors used here.
    pub fn build(sys: Sys, cfg: Cfg, dir: &Path, rt: &tokio::runtime::Runtime) -> Result<System, String> {
        match sys {
            Sys::Memory => MemoryCache::new(MemoryCacheConfig {
                max_entries: cfg.max_entries,
                max_memory_bytes: None,
                default_ttl: None, // plain put: 1 h
                eviction_policy: cfg.policy.to_policy(),
                cleanup_interval: YEAR,
                ..MemoryCacheConfig::default()
            })
            .map(System::Mem)
            .map_err(|e| e.to_string()),
            Sys::Disk => DiskCache::new(DiskCacheConfig {
                default_ttl: None, // plain put: 24 h
                use_subdirectories: cfg.subdirs,
                subdirectory_levels: if cfg.subdirs { 2 } else { 0 },
                cleanup_interval: YEAR,
                sync_interval: YEAR,
                ..DiskCacheConfig::new(dir.join("cache"))
            })
            .map(System::Disk)
            .map_err(|e| e.to_string()),
            Sys::Multi => {
                let mem = MemoryCacheConfig { max_entries: ROOMY, max_memory_bytes: None, default_ttl: None, cleanup_interval: YEAR, ..MemoryCacheConfig::default() };
                let disk = DiskCacheConfig { default_ttl: None, use_subdirectories: false, cleanup_interval: YEAR, sync_interval: YEAR, ..DiskCacheConfig::new(dir.join("cache")) };
                let cfg = cascette_cache::config::MultiLayerCacheConfig::new().add_memory_layer(mem).add_disk_layer(disk);
                let _g = rt.enter();
                cascette_cache::multi_layer::MultiLayerCacheImpl::<SKey>::new(cfg).map(System::Multi).map_err(|e| e.to_string())
            }
            Sys::Container => {
                let c = DynamicContainer::builder(dir.join("store")).build().map_err(|e| e.to_string())?;
                rt.block_on(c.open()).map_err(|e| e.to_string())?;
                Ok(System::Cont(c))
            }
            Sys::ContainerCut => {
                let store = dir.join("store");
                let data_files = |store: &Path| -> Result<Vec<(std::path::PathBuf, u64)>, String> {
                    let mut v = Vec::new();
                    for e in std::fs::read_dir(store).map_err(|e| e.to_string())?.flatten() {
                        let name = e.file_name().to_string_lossy().into_owned();
                        if name.starts_with("data.") && name.len() == 8 {
                            v.push((e.path(), e.metadata().map_err(|e| e.to_string())?.len()));
                        }
                    }
                    v.sort();
                    Ok(v)
                };
                // object 3 (never used by a program) keeps the archive non-empty; object 0 behind it
                let before = {
                    let c = DynamicContainer::builder(store.clone()).build().map_err(|e| e.to_string())?;
                    rt.block_on(c.open()).map_err(|e| e.to_string())?;
                    rt.block_on(c.write(&container_key(3), &container_data(3))).map_err(|e| format!("storing object 3: {e}"))?;
                    let before = data_files(&store)?;
                    rt.block_on(c.write(&container_key(0), &container_data(0))).map_err(|e| format!("storing object 0: {e}"))?;
                    before
                };
                // the archive loses everything behind object 3: all of object 0's bytes. A later
                // write of object 0 puts the same bytes at the same place again (content-addressed).
                let after = data_files(&store)?;
                let (Some((path, l0)), Some((path1, l1))) = (before.last().cloned(), after.last().cloned()) else {
                    return Err("no archive file after storing two objects".into());
                };
                if before.len() != 1 || after.len() != 1 || path != path1 || l0 == 0 || l1 <= l0 {
                    return Err(format!("unexpected archive layout after storing two objects: {before:?} -> {after:?}"));
                }
                let f = std::fs::OpenOptions::new().write(true).open(&path).map_err(|e| e.to_string())?;
                f.set_len(l0).map_err(|e| e.to_string())?;
                drop(f);
                let c = DynamicContainer::builder(store).build().map_err(|e| e.to_string())?;
                rt.block_on(c.open()).map_err(|e| e.to_string())?;
                Ok(System::ContCut(c))
            }
        }
    }

    /// Execute one operation; `task`/`opi` decide the value a put writes.
    pub async fn exec(&self, op: Op, task: u8, opi: u8) -> Res {
        match self {
            System::Mem(c) => exec_cache(c, op, task, opi).await,
            System::Disk(c) => exec_cache(c, op, task, opi).await,
            System::Multi(c) => {
                // setup: the value lives in the slower layer only
                if task == SETUP_TASK {
                    if let Op::Put { k } = op {
                        use cascette_cache::traits::MultiLayerCache;
                        return match c.put_to_layer(SKey(key_name(k)), Bytes::from(cache_value(task, opi)), 1).await {
                            Ok(()) => Res::Unit,
                            Err(e) => Res::Err(e.to_string()),
                        };
                    }
                }
                // every other put of a task goes through the validated entry points (no hooks are
                // installed: the same contract as put, their own sequence of per-layer steps)
                if let (Op::Put { k }, true) = (op, task != SETUP_TASK && (task + opi) % 2 == 1) {
                    let v = Bytes::from(cache_value(task, opi));
                    let ck = cascette_crypto::ContentKey::from_data(&v);
                    let r = if opi % 2 == 0 {
                        c.put_with_validation(SKey(key_name(k)), ck, v).await.map(|_| ())
                    } else {
                        c.put_with_validation_and_ttl(SKey(key_name(k)), ck, v, Duration::from_secs(3600)).await.map(|_| ())
                    };
                    return match r {
                        Ok(()) => Res::Unit,
                        Err(e) => Res::Err(e.to_string()),
                    };
                }
                match (op, exec_cache(c, op, task, opi).await) {
                    // remove() reports "found in some layer", collected layer by layer without a common
                    // lock: two overlapping removes can both report true (listed finding
                    // C11:multi:remove-result-not-atomic-across-layers). The effect of the remove is
                    // judged, its boolean is not.
                    (Op::Remove { .. }, Res::Bool(_)) => Res::Unit,
                    (_, r) => r,
                }
            }
            System::Cont(c) | System::ContCut(c) => {
                let k = op.key().unwrap_or(0);
                let key = container_key(k);
                let cut = matches!(self, System::ContCut(_));
                if cut && task == SETUP_TASK && matches!(op, Op::Put { k: 0 }) {
                    // object 0 was stored (and lost its tail) before the container came up
                    return Res::Unit;
                }
                match op {
                    Op::Put { .. } => match c.write(&key, &container_data(k)).await {
                        Ok(()) => Res::Unit,
                        Err(e) => Res::Err(e.to_string()),
                    },
                    Op::Get { .. } => {
                        let want = container_data(k).len();
                        let mut buf = vec![0x5Au8; want + 64];
                        match c.read(&key, 0, want as u32, &mut buf).await {
                            Ok(n) => {
                                buf.truncate(n);
                                Res::Got(Some(buf))
                            }
                            Err(StorageError::NotFound(_)) => Res::Got(None),
                            // the object is indexed, its bytes are not all there: "present" for the model
                            Err(StorageError::TruncatedRead(_)) if cut && k == 0 => Res::Got(Some(container_data(0))),
                            Err(e) => Res::Err(e.to_string()),
                        }
                    }
                    Op::Has { .. } => match c.query(&key).await {
                        Ok(b) => Res::Bool(b),
                        Err(e) => Res::Err(e.to_string()),
                    },
                    Op::Remove { .. } => match c.remove(&key).await {
                        Ok(()) => Res::Unit,
                        Err(e) => Res::Err(e.to_string()),
                    },
                    Op::PutZero { .. } | Op::Clear => Res::Err("operation does not exist on the container (harness bug)".into()),
                }
            }
        }
    }

    /// (size(), stats.entry_count, stats bytes) — container: (entry_count, entry_count, 0)
    pub async fn figures(&self) -> Result<(usize, usize, usize), String> {
        match self {
            System::Mem(c) => {
                let size = c.size().await.map_err(|e| e.to_string())?;
                let st = c.stats().await.map_err(|e| e.to_string())?;
                Ok((size, st.entry_count, st.memory_usage_bytes))
            }
            System::Disk(c) => {
                let size = c.size().await.map_err(|e| e.to_string())?;
                let st = c.stats().await.map_err(|e| e.to_string())?;
                Ok((size, st.entry_count, st.memory_usage_bytes))
            }
            // object 3 of the truncated store is never touched by a program
            System::ContCut(c) => {
                let n = c.entry_count().saturating_sub(1);
                Ok((n, n, 0))
            }
            System::Cont(c) => {
                let n = c.entry_count();
                Ok((n, n, 0))
            }
            // size() adds the layers up and a value may sit in both: the books of the layers are
            // judged on the layers themselves (sections *-memory and *-disk)
            System::Multi(_) => Ok((usize::MAX, usize::MAX, usize::MAX)),
        }
    }
}

async fn exec_cache<C: AsyncCache<SKey>>(c: &C, op: Op, task: u8, opi: u8) -> Res {
    let key = |k: u8| SKey(key_name(k));
    match op {
        Op::Get { k } => match c.get(&key(k)).await {
            Ok(v) => Res::Got(v.map(|b| b.to_vec())),
            Err(e) => Res::Err(e.to_string()),
        },
        Op::Has { k } => match c.contains(&key(k)).await {
            Ok(b) => Res::Bool(b),
            Err(e) => Res::Err(e.to_string()),
        },
        Op::Put { k } => match c.put(key(k), Bytes::from(cache_value(task, opi))).await {
            Ok(()) => Res::Unit,
            Err(e) => Res::Err(e.to_string()),
        },
        Op::PutZero { k } => match c.put_with_ttl(key(k), Bytes::from(cache_value(task, opi)), Duration::ZERO).await {
            Ok(()) => Res::Unit,
            Err(e) => Res::Err(e.to_string()),
        },
        Op::Remove { k } => match c.remove(&key(k)).await {
            Ok(b) => Res::Bool(b),
            Err(e) => Res::Err(e.to_string()),
        },
        Op::Clear => match c.clear().await {
            Ok(()) => Res::Unit,
            Err(e) => Res::Err(e.to_string()),
        },
    }
}

/// Everything observed in one run.
pub struct Run {
    pub log: Vec<Entry<Event>>,
    pub choices: Vec<Choice>,
    pub unused_schedule: usize,
    /// (size(), stats.entry_count, stats bytes) after the sweep
    pub figures: Result<(usize, usize, usize), String>,
    /// keys used by the program (sorted), swept in this order
    pub keys: Vec<u8>,
}

fn new_rt() -> Result<tokio::runtime::Runtime, String> {
    // the operations under test never wait for I/O readiness or timers (std::fs, ready
    // semaphore); container open uses tokio::fs, which only needs the blocking pool
    tokio::runtime::Builder::new_current_thread().build().map_err(|e| format!("tokio runtime: {e}"))
}

fn scratch_dir() -> Result<tempfile::TempDir, String> {
    // tmpfs when available: DiskCache fsyncs every put
    let b = {
        let mut b = tempfile::Builder::new();
        b.prefix("vh-c11-");
        b
    };
    let shm = Path::new("/dev/shm");
    if shm.is_dir() {
        if let Ok(d) = b.tempdir_in(shm) {
            return Ok(d);
        }
    }
    b.tempdir().map_err(|e| format!("tempdir: {e}"))
}

pub fn program_keys(case: &Case) -> Vec<u8> {
    let mut keys: Vec<u8> = case.setup.iter().chain(case.tasks.iter().flatten()).filter_map(|o| o.key()).collect();
    keys.sort_unstable();
    keys.dedup();
    keys
}

/// What the workers of one run share.
pub struct Job {
    system: Arc<System>,
    tasks: Vec<Vec<Op>>,
}

type TheBaton = Baton<Event, Job>;

/// One controller (the calling thread) + up to three long-lived worker threads,
/// each with its own current-thread tokio runtime and its own sched callback.
pub struct Executor {
    baton: Arc<TheBaton>,
    rt: tokio::runtime::Runtime,
    workers: usize,
    /// base directory of this executor (one sub-directory per run)
    dir: Option<tempfile::TempDir>,
    serial: u64,
}

impl Drop for Executor {
    fn drop(&mut self) {
        // workers are not joined: after an aborted run one of them may be stuck for good
        self.baton.shutdown();
    }
}

impl Executor {
    pub fn new() -> Result<Executor, String> {
        Ok(Executor { baton: Baton::new(), rt: new_rt()?, workers: 0, dir: None, serial: 0 })
    }

    fn ensure_workers(&mut self, n: usize) -> Result<(), String> {
        while self.workers < n {
            let me = self.workers;
            let baton = Arc::clone(&self.baton);
            std::thread::Builder::new()
                .name(format!("c11-task{me}"))
                .stack_size(2 << 20)
                .spawn(move || worker_main(me, baton))
                .map_err(|e| format!("thread spawn: {e}"))?;
            self.workers += 1;
        }
        Ok(())
    }

    /// Run one case. `Err` = harness/infrastructure trouble (never a verdict); the
    /// executor must be dropped afterwards.
    pub fn run(&mut self, case: &Case) -> Result<Run, String> {
        let n = case.tasks.len();
        if n > crate::sched::MAX_TASKS {
            return Err(format!("{n} tasks: more than the scheduler supports"));
        }
        self.ensure_workers(n)?;
        let run_dir = if case.sys == Sys::Memory {
            None
        } else {
            if self.dir.is_none() {
                self.dir = Some(scratch_dir()?);
            }
            self.serial += 1;
            let d = self.dir.as_ref().map(|d| d.path().join(format!("r{}", self.serial))).unwrap_or_default();
            std::fs::create_dir(&d).map_err(|e| format!("create {}: {e}", d.display()))?;
            Some(d)
        };
        let nowhere = Path::new("/nonexistent-vh-c11");
        let system = Arc::new(System::build(case.sys, case.cfg, run_dir.as_deref().unwrap_or(nowhere), &self.rt)?);
        let job = Arc::new(Job { system: Arc::clone(&system), tasks: case.tasks.clone() });
        let baton = Arc::clone(&self.baton);
        baton.begin(n, &case.schedule, job);
        let rt = &self.rt;
        let exec = |op: Op, task: u8, opi: u8| match vh_engine::util::catch_panic(|| rt.block_on(system.exec(op, task, opi))) {
            Ok(r) => r,
            Err(p) => Res::Panic { norm: p.norm_msg(), file: p.file, line: p.line, msg: p.msg },
        };

        // the truncated container holds object 0 from the start, whatever the setup says
        if case.sys == Sys::ContainerCut && !case.setup.contains(&Op::Put { k: 0 }) {
            baton.record(Event::Invoke { task: SETUP_TASK, opi: 3, op: Op::Put { k: 0 } });
            baton.record(Event::Return { task: SETUP_TASK, opi: 3, res: Res::Unit });
        }
        // setup: sequential, recorded on the same time line
        for (i, op) in case.setup.iter().enumerate() {
            baton.record(Event::Invoke { task: SETUP_TASK, opi: i as u8, op: *op });
            let res = exec(*op, SETUP_TASK, i as u8);
            baton.record(Event::Return { task: SETUP_TASK, opi: i as u8, res });
        }
        baton.start();
        let out = baton.wait_all()?;

        // sweep: get every key of the program, then read the figures (C10 clause 3)
        let keys = program_keys(case);
        let mut log = out.log;
        for (i, k) in keys.iter().enumerate() {
            let op = Op::Get { k: *k };
            log.push(Entry::Event(Event::Invoke { task: SWEEP_TASK, opi: i as u8, op }));
            let res = exec(op, SWEEP_TASK, i as u8);
            log.push(Entry::Event(Event::Return { task: SWEEP_TASK, opi: i as u8, res }));
        }
        let figures = match vh_engine::util::catch_panic(|| rt.block_on(system.figures())) {
            Ok(f) => f,
            Err(p) => Err(format!("panic at {}:{}: {}", p.file, p.line, p.msg)),
        };
        drop(system);
        if let Some(d) = run_dir {
            let _ = std::fs::remove_dir_all(d);
        }
        Ok(Run { log, choices: out.choices, unused_schedule: out.unused, figures, keys })
    }
}

thread_local! {
    static EXECUTOR: std::cell::RefCell<Option<Executor>> = const { std::cell::RefCell::new(None) };
}

/// Drop the calling thread's executor (and its scratch directory). Needed on the main
/// thread, whose thread-locals are not destroyed by `process::exit`.
pub fn drop_executor() {
    EXECUTOR.with(|slot| *slot.borrow_mut() = None);
}

/// Run one case on the calling thread's executor. `Err` = infrastructure trouble.
pub fn run_case(case: &Case) -> Result<Run, String> {
    EXECUTOR.with(|slot| {
        let mut slot = slot.borrow_mut();
        if slot.is_none() {
            *slot = Some(Executor::new()?);
        }
        let r = slot.as_mut().map(|e| e.run(case)).unwrap_or_else(|| Err("no executor".into()));
        if r.is_err() {
            // a worker may be stuck: abandon this executor (its threads are leaked)
            *slot = None;
        }
        r
    })
}

fn worker_main(me: usize, baton: Arc<TheBaton>) {
    let b1 = Arc::clone(&baton);
    let cb: Arc<dyn Fn(&'static str) + Send + Sync> = Arc::new(move |site| b1.point(me, site));
    cascette_cache::verif_hooks::set_sched(Some(Arc::clone(&cb)));
    cascette_client_storage::verif_hooks::set_sched(Some(cb));
    let Ok(rt) = new_rt() else { return };
    let mut last = 0u64;
    while let Some((epoch, job)) = baton.next_job(me, last) {
        last = epoch;
        let body = || {
            rt.block_on(async {
                let ops = &job.tasks[me];
                for (i, op) in ops.iter().enumerate() {
                    if i > 0 {
                        baton.point(me, "op.boundary");
                    }
                    baton.record(Event::Invoke { task: me as u8, opi: i as u8, op: *op });
                    // a panic inside the operation is an observed result of that operation
                    let fut = job.system.exec(*op, me as u8, i as u8);
                    let res = match CatchPanic(Box::pin(fut)).await {
                        Ok(r) => r,
                        Err(None) => std::panic::resume_unwind(Box::new(crate::sched::Aborted)),
                        Err(Some(p)) => Res::Panic { norm: p.norm_msg(), file: p.file, line: p.line, msg: p.msg },
                    };
                    let stop = matches!(res, Res::Panic { .. });
                    baton.record(Event::Return { task: me as u8, opi: i as u8, res });
                    if stop {
                        // locks may be poisoned and state half-updated: this task stops here
                        break;
                    }
                }
            });
        };
        // Aborted unwinds (and anything unexpected in the harness's own code) end the task
        let _ = std::panic::catch_unwind(std::panic::AssertUnwindSafe(body));
        drop(job);
        baton.finish(me);
    }
}

/// Future adapter: a panic while polling becomes `Err(Some(info))`; the
/// scheduler's own `Aborted` unwind becomes `Err(None)`.
struct CatchPanic<'a, T>(std::pin::Pin<Box<dyn Future<Output = T> + 'a>>);

impl<T> Future for CatchPanic<'_, T> {
    type Output = Result<T, Option<vh_engine::util::PanicInfo>>;
    fn poll(mut self: std::pin::Pin<&mut Self>, cx: &mut std::task::Context<'_>) -> std::task::Poll<Self::Output> {
        use std::task::Poll;
        let inner = &mut self.0;
        match catch_with_payload(|| inner.as_mut().poll(cx)) {
            Ok(Poll::Pending) => Poll::Pending,
            Ok(Poll::Ready(v)) => Poll::Ready(Ok(v)),
            Err(e) => Poll::Ready(Err(e)),
        }
    }
}

fn catch_with_payload<T>(f: impl FnOnce() -> T) -> Result<T, Option<vh_engine::util::PanicInfo>> {
    // vh_engine::util::catch_panic swallows the payload; the Aborted unwind is raised with
    // resume_unwind (no panic hook, no PanicInfo), so "no info recorded" identifies it.
    let r = vh_engine::util::catch_panic(|| match std::panic::catch_unwind(std::panic::AssertUnwindSafe(f)) {
        Ok(v) => Some(v),
        Err(payload) => {
            if payload.is::<crate::sched::Aborted>() {
                None
            } else {
                std::panic::resume_unwind(payload)
            }
        }
    });
    match r {
        Ok(Some(v)) => Ok(v),
        Ok(None) => Err(None),
        Err(p) => Err(Some(p)),
    }
}
