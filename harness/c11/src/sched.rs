//! Deterministic thread-baton scheduler.
//!
//! Every concurrent task is an OS thread; exactly one of them holds the baton
//! at any time, all others are parked on a condition variable. The code under
//! test calls `sched_point(site)` (verif-hooks) between two accesses to shared
//! state; the callback installed by the harness lands in [`Baton::point`],
//! which lets the *schedule* decide who runs next.
//!
//! Schedule = `Vec<u8>` of choices consumed left to right, one element per
//! *choice point* (a point with at least two options):
//!   * start of the run: options = all tasks, element `c` picks task `min(c, n-1)`;
//!   * a `sched_point` reached by task `t` while other tasks are runnable:
//!     `0` = `t` continues (no pre-emption), `c > 0` = switch to the `c`-th other
//!     runnable task counted cyclically upwards from `t` (clamped) = one pre-emption;
//!   * task `t` finished and at least two tasks are runnable: element `c` picks
//!     the `min(c, m-1)`-th runnable task in ascending order (not a pre-emption).
//! When the schedule is exhausted every further choice is `0`: the running task
//! continues, and when it finishes the lowest-numbered runnable task runs to
//! completion — no further pre-emption.
//!
//! Everything a task does while it holds the baton is appended to one totally
//! ordered log (`Entry`), so invoke/return events of the history and the
//! scheduling steps share one time line.
//!
//! A hand-over that makes no progress for `HANDOVER_LIMIT` is harness trouble
//! (a site under a real lock, a stuck thread): the run is aborted and reported
//! as infrastructure trouble, never as a verdict.

use std::sync::{Arc, Condvar, Mutex};
use std::time::{Duration, Instant};

pub const HANDOVER_LIMIT: Duration = Duration::from_secs(60);

/// One consumed choice (the DFS needs `options`, the pre-emption bound needs `preemptive`).
#[derive(Debug, Clone, Copy, PartialEq, Eq)]
pub struct Choice {
    pub options: u8,
    pub chosen: u8,
    pub preemptive: bool,
}

#[derive(Debug, Clone)]
pub enum Entry<E> {
    /// task `thread` reached `site`; `next` ran afterwards
    Point { thread: u8, site: &'static str, next: u8 },
    /// task `thread` finished; `next` ran afterwards (None: nobody left)
    End { thread: u8, next: Option<u8> },
    /// history event recorded by the running task
    Event(E),
}

struct Inner<E> {
    /// who holds the baton (None: the controller)
    current: Option<usize>,
    done: Vec<bool>,
    schedule: Vec<u8>,
    pos: usize,
    choices: Vec<Choice>,
    log: Vec<Entry<E>>,
    /// bumped at every hand-over and every log entry: progress indicator for the watchdog
    progress: u64,
    aborted: Option<String>,
}

pub struct Baton<E> {
    m: Mutex<Inner<E>>,
    /// one condition variable per task (a hand-over wakes exactly the next task) …
    cvs: Vec<Condvar>,
    /// … and one for the controller
    ctl: Condvar,
}

/// Payload used to unwind a parked task after an abort.
pub struct Aborted;

pub struct Outcome<E> {
    pub log: Vec<Entry<E>>,
    pub choices: Vec<Choice>,
    /// schedule elements that were never consumed
    pub unused: usize,
}

impl<E: Send + 'static> Baton<E> {
    pub fn new(tasks: usize, schedule: &[u8]) -> Arc<Self> {
        Arc::new(Baton {
            m: Mutex::new(Inner {
                current: None,
                done: vec![false; tasks],
                schedule: schedule.to_vec(),
                pos: 0,
                choices: Vec::new(),
                log: Vec::new(),
                progress: 0,
                aborted: None,
            }),
            cvs: (0..tasks).map(|_| Condvar::new()).collect(),
            ctl: Condvar::new(),
        })
    }

    fn wake_everyone(&self) {
        for c in &self.cvs {
            c.notify_all();
        }
        self.ctl.notify_all();
    }

    fn lock(&self) -> std::sync::MutexGuard<'_, Inner<E>> {
        // the scheduler's own mutex is never held while the code under test runs,
        // so poisoning can only come from a bug in this file
        self.m.lock().unwrap_or_else(|e| e.into_inner())
    }

    fn take_choice(g: &mut Inner<E>, options: usize, preemptive: bool) -> usize {
        debug_assert!(options >= 2);
        let raw = if g.pos < g.schedule.len() { g.schedule[g.pos] } else { 0 };
        g.pos += 1;
        let chosen = (raw as usize).min(options - 1);
        g.choices.push(Choice { options: options as u8, chosen: chosen as u8, preemptive });
        chosen
    }

    /// Controller: give the baton to the first task.
    pub fn start(&self) {
        let mut g = self.lock();
        let n = g.done.len();
        let first = if n >= 2 { Self::take_choice(&mut g, n, false) } else { 0 };
        g.current = Some(first);
        g.progress += 1;
        drop(g);
        self.cvs[first].notify_all();
    }

    /// Park until `me` holds the baton. Unwinds with [`Aborted`] if the run was aborted.
    fn wait_for(&self, me: usize, mut g: std::sync::MutexGuard<'_, Inner<E>>) {
        loop {
            if g.aborted.is_some() {
                drop(g);
                std::panic::resume_unwind(Box::new(Aborted));
            }
            if g.current == Some(me) {
                return;
            }
            // the controller is the watchdog; a parked task only sleeps
            let (ng, _) = self.cvs[me].wait_timeout(g, Duration::from_secs(5)).unwrap_or_else(|e| e.into_inner());
            g = ng;
        }
    }

    /// Task: wait for the first turn.
    pub fn wait_turn(&self, me: usize) {
        let g = self.lock();
        self.wait_for(me, g);
    }

    /// Task (baton holder): append a history event.
    pub fn record(&self, e: E) {
        let mut g = self.lock();
        g.log.push(Entry::Event(e));
        g.progress += 1;
    }

    /// Task (baton holder): a scheduling point.
    pub fn point(&self, me: usize, site: &'static str) {
        let mut g = self.lock();
        if g.aborted.is_some() {
            drop(g);
            std::panic::resume_unwind(Box::new(Aborted));
        }
        if g.current != Some(me) {
            // a sched_point from a thread that does not hold the baton: the hooks were
            // reached from somewhere the harness does not control
            g.aborted = Some(format!("sched_point({site}) called by task {me} which does not hold the baton (holder {:?})", g.current));
            drop(g);
            self.wake_everyone();
            std::panic::resume_unwind(Box::new(Aborted));
        }
        let n = g.done.len();
        let others: Vec<usize> = (1..n).map(|d| (me + d) % n).filter(|&t| !g.done[t]).collect();
        let next = if others.is_empty() {
            me
        } else {
            let c = Self::take_choice(&mut g, others.len() + 1, true);
            if c == 0 { me } else { others[c - 1] }
        };
        g.log.push(Entry::Point { thread: me as u8, site, next: next as u8 });
        g.progress += 1;
        if next != me {
            g.current = Some(next);
            self.cvs[next].notify_all();
            self.wait_for(me, g);
        }
    }

    /// Task (baton holder): finished; hand the baton on.
    pub fn finish(&self, me: usize) {
        let mut g = self.lock();
        if g.current != Some(me) {
            // aborted while running (only the watchdog does that); nothing to hand over
            g.done[me] = true;
            drop(g);
            self.ctl.notify_all();
            return;
        }
        g.done[me] = true;
        let runnable: Vec<usize> = (0..g.done.len()).filter(|&t| !g.done[t]).collect();
        let next = match runnable.len() {
            0 => None,
            1 => Some(runnable[0]),
            m => Some(runnable[Self::take_choice(&mut g, m, false)]),
        };
        g.log.push(Entry::End { thread: me as u8, next: next.map(|t| t as u8) });
        g.current = next;
        g.progress += 1;
        drop(g);
        match next {
            Some(t) => self.cvs[t].notify_all(),
            None => self.ctl.notify_all(),
        }
    }

    /// Controller: wait until every task has finished. `Err` = harness trouble.
    pub fn wait_all(&self) -> Result<Outcome<E>, String> {
        let mut g = self.lock();
        let mut last_progress = g.progress;
        let mut since = Instant::now();
        loop {
            if let Some(a) = &g.aborted {
                return Err(a.clone());
            }
            if g.done.iter().all(|d| *d) {
                let unused = g.schedule.len().saturating_sub(g.pos);
                return Ok(Outcome { log: std::mem::take(&mut g.log), choices: std::mem::take(&mut g.choices), unused });
            }
            let (ng, _) = self.ctl.wait_timeout(g, Duration::from_millis(500)).unwrap_or_else(|e| e.into_inner());
            g = ng;
            if g.progress != last_progress {
                last_progress = g.progress;
                since = Instant::now();
            } else if since.elapsed() >= HANDOVER_LIMIT {
                let holder = g.current;
                let last = g.log.iter().rev().find_map(|e| match e {
                    Entry::Point { thread, site, next } => Some(format!("last point: task {thread} at {site} -> task {next}")),
                    _ => None,
                });
                let msg = format!(
                    "baton hand-over made no progress for {} s (holder {:?}, {}); the run is abandoned",
                    HANDOVER_LIMIT.as_secs(),
                    holder,
                    last.unwrap_or_else(|| "no point reached".into())
                );
                g.aborted = Some(msg.clone());
                drop(g);
                self.wake_everyone();
                return Err(msg);
            }
        }
    }
}

/// Number of pre-emptions a run took.
pub fn preemptions(choices: &[Choice]) -> usize {
    choices.iter().filter(|c| c.preemptive && c.chosen != 0).count()
}
