//! Deterministic thread-baton scheduler.
//!
//! Every concurrent task is an OS thread (a long-lived worker of the calling
//! shard's executor, with its own current-thread tokio runtime); exactly one of
//! them holds the baton at any time, all others are parked on their condition
//! variable. The code under test calls `sched_point(site)` (verif-hooks)
//! between two accesses to shared state; the callback installed by the harness
//! lands in [`Baton::point`], which lets the *schedule* decide who runs next.
//!
//! Schedule = `Vec<u8>` of choices consumed left to right, one element per
//! *choice point* (a point with at least two options):
//!   * start of the run: options = all tasks, element `c` picks task `min(c, n-1)`;
//!   * a `sched_point` reached by task `t` while other tasks are runnable:
//!     `0` = `t` continues (no pre-emption), `c > 0` = switch to the `c`-th other
//!     runnable task counted cyclically upwards from `t` (clamped) = one pre-emption;
//!   * task `t` finished and at least two tasks are runnable: element `c` picks
//!     the `min(c, m-1)`-th runnable task in ascending order (not a pre-emption).
//! When the schedule is exhausted every further choice is `0`: the running task
//! continues, and when it finishes the lowest-numbered runnable task runs to
//! completion — no further pre-emption.
//!
//! Everything a task does while it holds the baton is appended to one totally
//! ordered log (`Entry`), so invoke/return events of the history and the
//! scheduling steps share one time line.
//!
//! A hand-over that makes no progress for `HANDOVER_LIMIT` is harness trouble
//! (a site under a real lock, a stuck thread): the run is aborted and reported
//! as infrastructure trouble, never as a verdict.

use std::sync::atomic::{AtomicU64, Ordering};
use std::sync::{Arc, Condvar, Mutex, MutexGuard};
use std::time::{Duration, Instant};

pub const HANDOVER_LIMIT: Duration = Duration::from_secs(60);
pub const MAX_TASKS: usize = 3;

/// One consumed choice (the DFS needs `options`, the pre-emption bound needs `preemptive`).
#[derive(Debug, Clone, Copy, PartialEq, Eq)]
pub struct Choice {
    pub options: u8,
    pub chosen: u8,
    pub preemptive: bool,
}

#[derive(Debug, Clone)]
pub enum Entry<E> {
    /// task `thread` reached `site`; `next` ran afterwards; `choice`: a schedule element was consumed
    Point { thread: u8, site: &'static str, next: u8, choice: bool },
    /// task `thread` finished; `choice`: a schedule element was consumed to pick the next task
    End { thread: u8, choice: bool },
    /// history event recorded by the running task
    Event(E),
}

struct Inner<E, J> {
    /// run counter: a worker takes a job once per epoch
    epoch: u64,
    job: Option<Arc<J>>,
    /// who holds the baton (None: the controller)
    current: Option<usize>,
    done: Vec<bool>,
    schedule: Vec<u8>,
    pos: usize,
    choices: Vec<Choice>,
    log: Vec<Entry<E>>,
    /// bumped at every hand-over and every log entry: progress indicator for the watchdog
    progress: u64,
    aborted: Option<String>,
    shutdown: bool,
}

/// How long a waiting thread polls the hand-over word before it parks on its
/// condition variable. The steps between two points are far shorter than a
/// futex wake-up, so a short poll removes most of the hand-over latency; the
/// bound keeps a loaded machine from being burdened.
const SPIN: u32 = 3000;

pub struct Baton<E, J> {
    /// mirrors (`epoch`, `current`) for the pollers: epoch << 8 | (current + 1), 0 = controller
    turn: AtomicU64,
    m: Mutex<Inner<E, J>>,
    /// one condition variable per task (a hand-over wakes exactly the next task) …
    cvs: [Condvar; MAX_TASKS],
    /// … and one for the controller
    ctl: Condvar,
}

/// Payload used to unwind a parked task after an abort.
pub struct Aborted;

pub struct Outcome<E> {
    pub log: Vec<Entry<E>>,
    pub choices: Vec<Choice>,
    /// schedule elements that were never consumed
    pub unused: usize,
}

impl<E: Send + 'static, J: Send + Sync + 'static> Baton<E, J> {
    pub fn new() -> Arc<Self> {
        Arc::new(Baton {
            turn: AtomicU64::new(0),
            m: Mutex::new(Inner {
                epoch: 0,
                job: None,
                current: None,
                done: Vec::new(),
                schedule: Vec::new(),
                pos: 0,
                choices: Vec::new(),
                log: Vec::new(),
                progress: 0,
                aborted: None,
                shutdown: false,
            }),
            cvs: [Condvar::new(), Condvar::new(), Condvar::new()],
            ctl: Condvar::new(),
        })
    }

    fn publish(&self, g: &Inner<E, J>) {
        let who = g.current.map_or(0, |c| c as u64 + 1);
        self.turn.store(g.epoch << 8 | who, Ordering::Release);
    }

    /// Poll until the baton is with `who` (0 = controller) in an epoch later than `after`, or give up.
    fn poll(&self, who: u64, after: u64) {
        for _ in 0..SPIN {
            let t = self.turn.load(Ordering::Acquire);
            if t & 0xff == who && t >> 8 > after {
                return;
            }
            std::hint::spin_loop();
        }
    }

    fn wake_everyone(&self) {
        for c in &self.cvs {
            c.notify_all();
        }
        self.ctl.notify_all();
    }

    fn lock(&self) -> MutexGuard<'_, Inner<E, J>> {
        // the scheduler's own mutex is never held while the code under test runs,
        // so poisoning can only come from a bug in this file
        self.m.lock().unwrap_or_else(|e| e.into_inner())
    }

    fn take_choice(g: &mut Inner<E, J>, options: usize, preemptive: bool) -> usize {
        debug_assert!(options >= 2);
        let raw = if g.pos < g.schedule.len() { g.schedule[g.pos] } else { 0 };
        g.pos += 1;
        let chosen = (raw as usize).min(options - 1);
        g.choices.push(Choice { options: options as u8, chosen: chosen as u8, preemptive });
        chosen
    }

    /// Controller: prepare a run of `tasks` tasks (nobody runs yet).
    pub fn begin(&self, tasks: usize, schedule: &[u8], job: Arc<J>) {
        assert!(tasks <= MAX_TASKS);
        let mut g = self.lock();
        g.epoch += 1;
        g.job = Some(job);
        g.current = None;
        g.done = vec![false; tasks];
        g.schedule = schedule.to_vec();
        g.pos = 0;
        g.choices.clear();
        g.log.clear();
        g.aborted = None;
        self.publish(&g);
    }

    /// Controller: give the baton to the first task.
    pub fn start(&self) {
        let mut g = self.lock();
        let n = g.done.len();
        if n == 0 {
            return;
        }
        let first = if n >= 2 { Self::take_choice(&mut g, n, false) } else { 0 };
        g.current = Some(first);
        g.progress += 1;
        self.publish(&g);
        drop(g);
        self.cvs[first].notify_all();
    }

    /// Worker `me`: park until it is given the baton in a run it has not served yet.
    /// `None` = the executor shuts down.
    pub fn next_job(&self, me: usize, last_epoch: u64) -> Option<(u64, Arc<J>)> {
        self.poll(me as u64 + 1, last_epoch);
        let mut g = self.lock();
        loop {
            if g.shutdown {
                return None;
            }
            if g.epoch > last_epoch && g.current == Some(me) && g.aborted.is_none() {
                if let Some(j) = &g.job {
                    return Some((g.epoch, Arc::clone(j)));
                }
            }
            let (ng, _) = self.cvs[me].wait_timeout(g, Duration::from_secs(5)).unwrap_or_else(|e| e.into_inner());
            g = ng;
        }
    }

    /// Park until `me` holds the baton. Unwinds with [`Aborted`] if the run was aborted.
    fn wait_for(&self, me: usize, mut g: MutexGuard<'_, Inner<E, J>>) {
        loop {
            if g.aborted.is_some() || g.shutdown {
                drop(g);
                std::panic::resume_unwind(Box::new(Aborted));
            }
            if g.current == Some(me) {
                return;
            }
            // the controller is the watchdog; a parked task only sleeps
            let (ng, _) = self.cvs[me].wait_timeout(g, Duration::from_secs(5)).unwrap_or_else(|e| e.into_inner());
            g = ng;
        }
    }

    /// Baton holder (or the controller while nobody runs): append a history event.
    pub fn record(&self, e: E) {
        let mut g = self.lock();
        g.log.push(Entry::Event(e));
        g.progress += 1;
    }

    /// Task (baton holder): a scheduling point.
    pub fn point(&self, me: usize, site: &'static str) {
        let mut g = self.lock();
        if g.aborted.is_some() {
            drop(g);
            std::panic::resume_unwind(Box::new(Aborted));
        }
        if g.current != Some(me) {
            // a sched_point from a thread that does not hold the baton: the hooks were
            // reached from somewhere the harness does not control
            g.aborted = Some(format!("sched_point({site}) called by task {me} which does not hold the baton (holder {:?})", g.current));
            drop(g);
            self.wake_everyone();
            std::panic::resume_unwind(Box::new(Aborted));
        }
        let n = g.done.len();
        let mut others = [0usize; MAX_TASKS];
        let mut m = 0;
        for d in 1..n {
            let t = (me + d) % n;
            if !g.done[t] {
                others[m] = t;
                m += 1;
            }
        }
        let next = if m == 0 {
            me
        } else {
            let c = Self::take_choice(&mut g, m + 1, true);
            if c == 0 { me } else { others[c - 1] }
        };
        g.log.push(Entry::Point { thread: me as u8, site, next: next as u8, choice: m > 0 });
        g.progress += 1;
        if next != me {
            g.current = Some(next);
            self.publish(&g);
            let epoch = g.epoch;
            drop(g);
            self.cvs[next].notify_all();
            self.poll(me as u64 + 1, epoch - 1);
            let g = self.lock();
            self.wait_for(me, g);
        }
    }

    /// Task: finished; hand the baton on.
    pub fn finish(&self, me: usize) {
        let mut g = self.lock();
        if me >= g.done.len() {
            return;
        }
        if g.current != Some(me) {
            // aborted while parked: nothing to hand over
            g.done[me] = true;
            drop(g);
            self.ctl.notify_all();
            return;
        }
        g.done[me] = true;
        let runnable: Vec<usize> = (0..g.done.len()).filter(|&t| !g.done[t]).collect();
        let next = match runnable.len() {
            0 => None,
            1 => Some(runnable[0]),
            m => Some(runnable[Self::take_choice(&mut g, m, false)]),
        };
        g.log.push(Entry::End { thread: me as u8, choice: runnable.len() >= 2 });
        g.current = next;
        g.progress += 1;
        self.publish(&g);
        drop(g);
        match next {
            Some(t) => self.cvs[t].notify_all(),
            None => self.ctl.notify_all(),
        }
    }

    /// Controller: wait until every task has finished. `Err` = harness trouble
    /// (the executor must not be used again).
    pub fn wait_all(&self) -> Result<Outcome<E>, String> {
        {
            let epoch = self.lock().epoch;
            // a run is a few microseconds of work for the memory cache
            for _ in 0..4 {
                self.poll(0, epoch - 1);
            }
        }
        let mut g = self.lock();
        let mut last_progress = g.progress;
        let mut since = Instant::now();
        loop {
            if let Some(a) = &g.aborted {
                return Err(a.clone());
            }
            if g.done.iter().all(|d| *d) {
                let unused = g.schedule.len().saturating_sub(g.pos);
                g.job = None;
                g.current = None;
                return Ok(Outcome { log: std::mem::take(&mut g.log), choices: std::mem::take(&mut g.choices), unused });
            }
            let (ng, _) = self.ctl.wait_timeout(g, Duration::from_millis(500)).unwrap_or_else(|e| e.into_inner());
            g = ng;
            if g.progress != last_progress {
                last_progress = g.progress;
                since = Instant::now();
            } else if since.elapsed() >= HANDOVER_LIMIT {
                let holder = g.current;
                let last = g.log.iter().rev().find_map(|e| match e {
                    Entry::Point { thread, site, next, .. } => Some(format!("last point: task {thread} at {site} -> task {next}")),
                    _ => None,
                });
                let msg = format!(
                    "baton hand-over made no progress for {} s (holder {:?}, {}); the run is abandoned",
                    HANDOVER_LIMIT.as_secs(),
                    holder,
                    last.unwrap_or_else(|| "no point reached".into())
                );
                g.aborted = Some(msg.clone());
                drop(g);
                self.wake_everyone();
                return Err(msg);
            }
        }
    }

    /// Controller: the executor goes away; parked workers exit.
    pub fn shutdown(&self) {
        let mut g = self.lock();
        g.shutdown = true;
        g.job = None;
        drop(g);
        self.wake_everyone();
    }
}
