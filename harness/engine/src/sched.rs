//! sched engine (filled in later)
