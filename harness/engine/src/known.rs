//! known_findings.json: committed list of genuine defects that are recorded
//! rather than repaired. Never written at run time.

use serde::Deserialize;
use std::collections::BTreeMap;

#[derive(Deserialize, Debug, Clone)]
pub struct Entry {
    pub property: String,
    pub key: String,
    pub what: String,
    /// "open" suppresses (prints KNOWN-FINDING); "fixed" suppresses nothing.
    pub status: String,
    #[serde(default)]
    pub commit: Option<String>,
}

#[derive(Default, Clone)]
pub struct Known {
    open: BTreeMap<String, String>,
}

impl Known {
    pub fn load(property: &str) -> Self {
        let path = crate::verif_dir().join("known_findings.json");
        let mut open = BTreeMap::new();
        if let Ok(txt) = std::fs::read_to_string(&path) {
            match serde_json::from_str::<Vec<Entry>>(&txt) {
                Ok(list) => {
                    for e in list {
                        if e.property == property && e.status == "open" {
                            open.insert(e.key, e.what);
                        }
                    }
                }
                Err(e) => {
                    eprintln!("known_findings.json does not parse: {e}");
                    std::process::exit(2);
                }
            }
        }
        // development aid: extra proposed entries (never set by the registered commands)
        if let Ok(extra) = std::env::var("VH_KNOWN_EXTRA") {
            if let Ok(txt) = std::fs::read_to_string(&extra) {
                match serde_json::from_str::<Vec<Entry>>(&txt) {
                    Ok(list) => {
                        for e in list {
                            if e.property == property && e.status == "open" {
                                open.insert(e.key, e.what);
                            }
                        }
                    }
                    Err(e) => {
                        eprintln!("VH_KNOWN_EXTRA {extra} does not parse: {e}");
                        std::process::exit(2);
                    }
                }
            }
        }
        Known { open }
    }
    pub fn is_open(&self, key: &str) -> bool {
        self.open.contains_key(key)
    }
    /// all open keys of this property
    pub fn open_keys(&self) -> Vec<String> {
        self.open.keys().cloned().collect()
    }
    pub fn what(&self, key: &str) -> Option<String> {
        self.open.get(key).cloned()
    }
}
