//! iso engine: master/worker process isolation for byte-level fuzzing.
//!
//! `worker_main` (child): reads frames `[u32 target][u32 len][bytes]` on stdin,
//! runs the target on a thread with a fixed stack, answers one line per input.
//! A tracking global allocator records the largest single request and the peak
//! of live bytes per input and *refuses* (returns null, after writing an
//! `X\tOVERSIZE` marker) any single request above the per-input limit, so the
//! machine never commits the 30–270 GB a hostile count field can ask for.
//!
//! `run_master` (parent): feeds inputs to N workers, knows which input a dead
//! worker was processing, classifies the death, respawns.

use std::alloc::{GlobalAlloc, Layout, System};
use std::io::{BufRead, BufReader, Read, Write};
use std::process::{Child, ChildStdin, Command, Stdio};
use std::sync::Mutex;
use std::sync::atomic::{AtomicBool, AtomicUsize, Ordering};
use std::sync::mpsc::{Receiver, RecvTimeoutError, channel};
use std::time::{Duration, Instant};

// ---------------------------------------------------------------- allocator

pub struct Tracking;

static ENABLED: AtomicBool = AtomicBool::new(false);
static LIMIT_SINGLE: AtomicUsize = AtomicUsize::new(usize::MAX);
static MAX_SINGLE: AtomicUsize = AtomicUsize::new(0);
static LIVE: AtomicUsize = AtomicUsize::new(0);
static PEAK: AtomicUsize = AtomicUsize::new(0);
static REFUSED: AtomicUsize = AtomicUsize::new(0);

fn note_request(size: usize) -> bool {
    // returns false when the request must be refused
    MAX_SINGLE.fetch_max(size, Ordering::Relaxed);
    if size > LIMIT_SINGLE.load(Ordering::Relaxed) {
        REFUSED.fetch_max(size, Ordering::Relaxed);
        // async-signal-safe style marker straight to fd 1
        let mut buf = [0u8; 48];
        let s = fmt_marker(&mut buf, size);
        unsafe {
            libc::write(1, s.as_ptr() as *const libc::c_void, s.len());
        }
        return false;
    }
    true
}

fn fmt_marker(buf: &mut [u8; 48], size: usize) -> &[u8] {
    let pre = b"X\tOVERSIZE\t";
    buf[..pre.len()].copy_from_slice(pre);
    let mut digits = [0u8; 24];
    let mut n = size;
    let mut i = 0;
    loop {
        digits[i] = b'0' + (n % 10) as u8;
        n /= 10;
        i += 1;
        if n == 0 {
            break;
        }
    }
    let mut p = pre.len();
    while i > 0 {
        i -= 1;
        buf[p] = digits[i];
        p += 1;
    }
    buf[p] = b'\n';
    &buf[..p + 1]
}

unsafe impl GlobalAlloc for Tracking {
    unsafe fn alloc(&self, layout: Layout) -> *mut u8 {
        if ENABLED.load(Ordering::Relaxed) {
            if !note_request(layout.size()) {
                return std::ptr::null_mut();
            }
            let l = LIVE.fetch_add(layout.size(), Ordering::Relaxed) + layout.size();
            PEAK.fetch_max(l, Ordering::Relaxed);
        }
        unsafe { System.alloc(layout) }
    }
    unsafe fn alloc_zeroed(&self, layout: Layout) -> *mut u8 {
        if ENABLED.load(Ordering::Relaxed) {
            if !note_request(layout.size()) {
                return std::ptr::null_mut();
            }
            let l = LIVE.fetch_add(layout.size(), Ordering::Relaxed) + layout.size();
            PEAK.fetch_max(l, Ordering::Relaxed);
        }
        unsafe { System.alloc_zeroed(layout) }
    }
    unsafe fn dealloc(&self, ptr: *mut u8, layout: Layout) {
        if ENABLED.load(Ordering::Relaxed) {
            // saturating: blocks allocated before tracking was enabled may be freed now
            let _ = LIVE.fetch_update(Ordering::Relaxed, Ordering::Relaxed, |v| Some(v.saturating_sub(layout.size())));
        }
        unsafe { System.dealloc(ptr, layout) }
    }
    unsafe fn realloc(&self, ptr: *mut u8, layout: Layout, new_size: usize) -> *mut u8 {
        if ENABLED.load(Ordering::Relaxed) {
            if !note_request(new_size) {
                return std::ptr::null_mut();
            }
            if new_size >= layout.size() {
                let d = new_size - layout.size();
                let l = LIVE.fetch_add(d, Ordering::Relaxed) + d;
                PEAK.fetch_max(l, Ordering::Relaxed);
            } else {
                let d = layout.size() - new_size;
                let _ = LIVE.fetch_update(Ordering::Relaxed, Ordering::Relaxed, |v| Some(v.saturating_sub(d)));
            }
        }
        unsafe { System.realloc(ptr, layout, new_size) }
    }
}

#[global_allocator]
static GLOBAL: Tracking = Tracking;

// ---------------------------------------------------------------- protocol

/// What a target reports about one input.
#[derive(Debug, Clone, Default)]
pub struct Outcome {
    /// short class string, e.g. "ok", "err:BadMagic"
    pub class: String,
    /// the input got past the magic / minimum-size gate
    pub gate: bool,
    /// semantic failure found by an in-target oracle: (key suffix, message)
    pub fail: Option<(String, String)>,
    /// the input was accepted (parse returned Ok) — for C08 bookkeeping
    pub accepted: bool,
}

impl Outcome {
    pub fn ok() -> Self {
        Outcome { class: "ok".into(), gate: true, accepted: true, fail: None }
    }
    pub fn err(class: impl Into<String>, gate: bool) -> Self {
        Outcome { class: class.into(), gate, accepted: false, fail: None }
    }
}

pub struct Target {
    pub name: &'static str,
    pub run: fn(&[u8]) -> Outcome,
    /// documented decompression cap applies (limit = 1 GiB + 64 MiB) instead of max(64 MiB, 1024·len)
    pub decompresses: bool,
}

pub fn single_limit(t: &Target, len: usize) -> usize {
    if t.decompresses {
        (1usize << 30) + (64 << 20)
    } else {
        (64usize << 20).max(1024usize.saturating_mul(len))
    }
}

/// Run `f` under the limit of a non-decompressing target (max(64 MiB, 1024·len)) whatever the
/// current target's own limit is: the parsing step of a parse-then-decompress target. The
/// documented 1 GiB cap is about decompression buffers; a header table sized from a count field
/// is "out of proportion to the input" long before that.
pub fn with_strict_alloc<T>(len: usize, f: impl FnOnce() -> T) -> T {
    let strict = (64usize << 20).max(1024usize.saturating_mul(len));
    let prev = LIMIT_SINGLE.load(Ordering::Relaxed);
    if strict < prev {
        LIMIT_SINGLE.store(strict, Ordering::Relaxed);
    }
    let r = f();
    LIMIT_SINGLE.store(prev, Ordering::Relaxed);
    r
}

/// live-bytes ceiling: generous multiple of the single-request limit
pub fn live_limit(t: &Target, len: usize) -> usize {
    single_limit(t, len).saturating_mul(4)
}

fn thread_cpu_us() -> u64 {
    let mut ts = libc::timespec { tv_sec: 0, tv_nsec: 0 };
    unsafe {
        libc::clock_gettime(libc::CLOCK_THREAD_CPUTIME_ID, &mut ts);
    }
    ts.tv_sec as u64 * 1_000_000 + ts.tv_nsec as u64 / 1000
}

fn sanitize(s: &str) -> String {
    s.chars().map(|c| if c == '\t' || c == '\n' || c == '\r' { ' ' } else { c }).take(400).collect()
}

/// Child process main loop. Never returns.
pub fn worker_main(targets: &'static [Target]) -> ! {
    // log arguments of the code under test are evaluated (see Check::from_args)
    if std::env::var_os("VH_NO_TRACING").is_none() {
        let _ = tracing_subscriber::fmt().with_max_level(tracing_subscriber::filter::LevelFilter::TRACE).with_writer(std::io::sink).try_init();
    }
    crate::util::install_panic_capture();
    let stdin = std::io::stdin();
    let mut inp = stdin.lock();
    let stdout = std::io::stdout();
    loop {
        let mut hdr = [0u8; 8];
        if inp.read_exact(&mut hdr).is_err() {
            std::process::exit(0);
        }
        let ti = u32::from_le_bytes(hdr[0..4].try_into().unwrap()) as usize;
        let len = u32::from_le_bytes(hdr[4..8].try_into().unwrap()) as usize;
        let mut data = vec![0u8; len];
        if inp.read_exact(&mut data).is_err() {
            std::process::exit(0);
        }
        let Some(t) = targets.get(ti) else {
            std::process::exit(3);
        };
        let run = t.run;
        let limit = single_limit(t, len);
        // run on a thread with a fixed 8 MiB stack
        let handle = std::thread::Builder::new()
            .stack_size(8 << 20)
            .spawn(move || {
                LIMIT_SINGLE.store(limit, Ordering::Relaxed);
                MAX_SINGLE.store(0, Ordering::Relaxed);
                LIVE.store(0, Ordering::Relaxed);
                PEAK.store(0, Ordering::Relaxed);
                REFUSED.store(0, Ordering::Relaxed);
                let c0 = thread_cpu_us();
                ENABLED.store(true, Ordering::SeqCst);
                let r = crate::util::catch_panic(|| run(&data));
                ENABLED.store(false, Ordering::SeqCst);
                let cpu = thread_cpu_us() - c0;
                (r, cpu)
            })
            .expect("spawn target thread");
        let (r, cpu) = match handle.join() {
            Ok(x) => x,
            Err(_) => std::process::exit(4),
        };
        let max_single = MAX_SINGLE.load(Ordering::Relaxed);
        let peak = PEAK.load(Ordering::Relaxed);
        let refused = REFUSED.load(Ordering::Relaxed);
        let line = match r {
            Ok(o) => {
                let (st, key, msg) = match &o.fail {
                    Some((k, m)) => ("FAIL", k.clone(), m.clone()),
                    None => ("OK", String::new(), String::new()),
                };
                format!(
                    "R\t{st}\t{}\t{}\t{}\t{max_single}\t{peak}\t{refused}\t{cpu}\t{}\t{}\n",
                    sanitize(&o.class),
                    o.gate as u8,
                    o.accepted as u8,
                    sanitize(&key),
                    sanitize(&msg)
                )
            }
            Err(p) => format!(
                "R\tPANIC\tpanic\t1\t0\t{max_single}\t{peak}\t{refused}\t{cpu}\t{}:{}\t{}\n",
                sanitize(&p.file),
                sanitize(&p.norm_msg()),
                sanitize(&format!("{}:{}: {}", p.file, p.line, p.msg))
            ),
        };
        let mut so = stdout.lock();
        let _ = so.write_all(line.as_bytes());
        let _ = so.flush();
    }
}

// ---------------------------------------------------------------- master

#[derive(Debug, Clone, PartialEq, Eq)]
pub enum Status {
    Ok,
    /// in-target semantic oracle failed
    Fail,
    Panic,
    /// worker died; `signal` if killed by one; `stderr_tail` for classification
    Died,
    /// no answer within the CPU budget (twice)
    Hang,
}

#[derive(Debug, Clone)]
pub struct IsoResult {
    pub status: Status,
    pub class: String,
    pub gate: bool,
    pub accepted: bool,
    pub max_single: usize,
    pub peak_live: usize,
    /// size of a refused (oversize) request, 0 if none
    pub refused: usize,
    pub cpu_us: u64,
    pub key: String,
    pub msg: String,
}

pub struct IsoInput {
    pub target: usize,
    pub data: Vec<u8>,
    /// how it was generated (goes to the replay / sample)
    pub origin: String,
}

struct Worker {
    child: Child,
    stdin: ChildStdin,
    lines: Receiver<String>,
    stderr_path: std::path::PathBuf,
}

fn spawn_worker(exe: &std::path::Path, args: &[String], idx: usize) -> std::io::Result<Worker> {
    let stderr_path = std::env::temp_dir().join(format!("vh-iso-{}-{}.stderr", std::process::id(), idx));
    let errf = std::fs::File::create(&stderr_path)?;
    let mut child = Command::new(exe)
        .args(args)
        .stdin(Stdio::piped())
        .stdout(Stdio::piped())
        .stderr(Stdio::from(errf))
        .spawn()?;
    let stdin = child.stdin.take().unwrap();
    let stdout = child.stdout.take().unwrap();
    let (tx, rx) = channel();
    std::thread::spawn(move || {
        let mut r = BufReader::new(stdout);
        loop {
            let mut line = String::new();
            match r.read_line(&mut line) {
                Ok(0) | Err(_) => break,
                Ok(_) => {
                    if tx.send(line).is_err() {
                        break;
                    }
                }
            }
        }
    });
    Ok(Worker { child, stdin, lines: rx, stderr_path })
}

fn proc_cpu_secs(pid: u32) -> Option<f64> {
    let s = std::fs::read_to_string(format!("/proc/{pid}/stat")).ok()?;
    let rest = &s[s.rfind(')')? + 2..];
    let f: Vec<&str> = rest.split_whitespace().collect();
    // fields after ") ": state(0) ppid(1) ... utime is field 14 overall -> index 11, stime index 12
    let ut: f64 = f.get(11)?.parse().ok()?;
    let st: f64 = f.get(12)?.parse().ok()?;
    let hz = unsafe { libc::sysconf(libc::_SC_CLK_TCK) } as f64;
    Some((ut + st) / hz)
}

fn parse_line(line: &str) -> Option<IsoResult> {
    let f: Vec<&str> = line.trim_end_matches('\n').split('\t').collect();
    if f.len() < 11 || f[0] != "R" {
        return None;
    }
    let status = match f[1] {
        "OK" => Status::Ok,
        "FAIL" => Status::Fail,
        "PANIC" => Status::Panic,
        _ => return None,
    };
    Some(IsoResult {
        status,
        class: f[2].to_string(),
        gate: f[3] == "1",
        accepted: f[4] == "1",
        max_single: f[5].parse().ok()?,
        peak_live: f[6].parse().ok()?,
        refused: f[7].parse().ok()?,
        cpu_us: f[8].parse().ok()?,
        key: f[9].to_string(),
        msg: f[10].to_string(),
    })
}

/// Run one input in worker `w` with a CPU budget. Returns (result, worker_still_alive).
fn run_one(w: &mut Worker, inp: &IsoInput, cpu_budget_s: f64) -> (IsoResult, bool) {
    let mut frame = Vec::with_capacity(8 + inp.data.len());
    frame.extend_from_slice(&(inp.target as u32).to_le_bytes());
    frame.extend_from_slice(&(inp.data.len() as u32).to_le_bytes());
    frame.extend_from_slice(&inp.data);
    let write_ok = w.stdin.write_all(&frame).and_then(|_| w.stdin.flush()).is_ok();
    let pid = w.child.id();
    let cpu0 = proc_cpu_secs(pid).unwrap_or(0.0);
    let t0 = Instant::now();
    let mut refused = 0usize;
    let died = |w: &mut Worker, refused: usize, why: &str| -> IsoResult {
        let _ = w.child.kill();
        let st = w.child.wait().ok();
        let sig = st.and_then(|s| std::os::unix::process::ExitStatusExt::signal(&s));
        let mut tail = String::new();
        if let Ok(mut f) = std::fs::File::open(&w.stderr_path) {
            let mut s = String::new();
            let _ = f.read_to_string(&mut s);
            let n = s.len().saturating_sub(600);
            let mut cut = n;
            while !s.is_char_boundary(cut) {
                cut += 1;
            }
            tail = s[cut..].replace('\n', " | ");
        }
        let kind = if refused > 0 {
            "oversize-alloc".to_string()
        } else if tail.contains("overflowed its stack") {
            "stack-overflow".to_string()
        } else if tail.contains("memory allocation of") {
            "alloc-failure".to_string()
        } else {
            format!("died-signal-{}", sig.map(|s| s.to_string()).unwrap_or_else(|| "none".into()))
        };
        IsoResult {
            status: Status::Died,
            class: kind.clone(),
            gate: true,
            accepted: false,
            max_single: refused,
            peak_live: 0,
            refused,
            cpu_us: 0,
            key: kind,
            msg: format!("{why}; signal={sig:?}; stderr: {tail}"),
        }
    };
    if !write_ok {
        return (died(w, 0, "worker closed stdin"), false);
    }
    loop {
        match w.lines.recv_timeout(Duration::from_millis(500)) {
            Ok(line) => {
                if let Some(rest) = line.strip_prefix("X\tOVERSIZE\t") {
                    refused = refused.max(rest.trim().parse().unwrap_or(1));
                    continue;
                }
                if let Some(mut r) = parse_line(&line) {
                    r.refused = r.refused.max(refused);
                    return (r, true);
                }
                // unknown chatter on stdout: ignore
            }
            Err(RecvTimeoutError::Timeout) => {
                let cpu = proc_cpu_secs(pid).unwrap_or(0.0) - cpu0;
                if cpu > cpu_budget_s || t0.elapsed().as_secs_f64() > cpu_budget_s * 30.0 + 120.0 {
                    let _ = w.child.kill();
                    let _ = w.child.wait();
                    return (
                        IsoResult {
                            status: Status::Hang,
                            class: "hang".into(),
                            gate: true,
                            accepted: false,
                            max_single: 0,
                            peak_live: 0,
                            refused,
                            cpu_us: (cpu * 1e6) as u64,
                            key: "hang".into(),
                            msg: format!("no answer after {cpu:.1} CPU-s / {:.0} wall-s", t0.elapsed().as_secs_f64()),
                        },
                        false,
                    );
                }
            }
            Err(RecvTimeoutError::Disconnected) => {
                return (died(w, refused, "worker exited while processing the input"), false);
            }
        }
    }
}

pub struct MasterConfig {
    pub exe: std::path::PathBuf,
    pub worker_args: Vec<String>,
    pub workers: usize,
    pub cpu_budget_s: f64,
    pub recheck_budget_s: f64,
}

/// Feed every input to a pool of workers; `on_result` is called from worker
/// threads (must be Sync). A Hang is re-run once alone with the larger budget
/// and only reported as Hang if it hangs again.
pub fn run_master<I, F>(cfg: &MasterConfig, inputs: I, on_result: F) -> Result<(), String>
where
    I: Iterator<Item = IsoInput> + Send,
    F: Fn(&IsoInput, &IsoResult) + Sync,
{
    let it = Mutex::new(inputs);
    let err: Mutex<Option<String>> = Mutex::new(None);
    // targets with a confirmed hang: later candidates are not re-checked at the large budget
    let confirmed_hang: Mutex<std::collections::HashSet<usize>> = Mutex::new(Default::default());
    std::thread::scope(|sc| {
        for idx in 0..cfg.workers.max(1) {
            let it = &it;
            let err = &err;
            let on_result = &on_result;
            let confirmed_hang = &confirmed_hang;
            sc.spawn(move || {
                let mut w: Option<Worker> = None;
                loop {
                    let next = { it.lock().unwrap().next() };
                    let Some(inp) = next else { break };
                    if w.is_none() {
                        match spawn_worker(&cfg.exe, &cfg.worker_args, idx) {
                            Ok(x) => w = Some(x),
                            Err(e) => {
                                *err.lock().unwrap() = Some(format!("cannot spawn worker: {e}"));
                                return;
                            }
                        }
                    }
                    let (mut r, alive) = run_one(w.as_mut().unwrap(), &inp, cfg.cpu_budget_s);
                    if !alive {
                        if let Some(old) = w.take() {
                            let _ = std::fs::remove_file(&old.stderr_path);
                        }
                    }
                    if r.status == Status::Hang && !confirmed_hang.lock().unwrap().contains(&inp.target) {
                        // deterministic re-run, alone, larger budget
                        match spawn_worker(&cfg.exe, &cfg.worker_args, idx) {
                            Ok(mut w2) => {
                                let (r2, alive2) = run_one(&mut w2, &inp, cfg.recheck_budget_s);
                                if alive2 {
                                    let _ = w2.child.kill();
                                    let _ = w2.child.wait();
                                }
                                let _ = std::fs::remove_file(&w2.stderr_path);
                                r = r2;
                                if r.status != Status::Hang {
                                    r.class = format!("slow:{}", r.class);
                                } else {
                                    confirmed_hang.lock().unwrap().insert(inp.target);
                                }
                            }
                            Err(e) => {
                                *err.lock().unwrap() = Some(format!("cannot spawn worker: {e}"));
                                return;
                            }
                        }
                    }
                    on_result(&inp, &r);
                }
                if let Some(mut old) = w.take() {
                    drop(old.stdin);
                    let _ = old.child.kill();
                    let _ = old.child.wait();
                    let _ = std::fs::remove_file(&old.stderr_path);
                }
            });
        }
    });
    match err.into_inner().unwrap() {
        Some(e) => Err(e),
        None => Ok(()),
    }
}
