//! iso engine (filled in later)
