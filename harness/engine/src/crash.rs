//! crash engine (filled in later)
