fn main() {
    let bad = vh_engine::refimpl::self_test();
    if bad.is_empty() {
        println!("reference self-test: ok");
    } else {
        for b in &bad {
            println!("reference self-test FAILED: {b}");
        }
        std::process::exit(2);
    }
}
