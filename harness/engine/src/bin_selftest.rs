fn main() {
    // `vh-selftest --spin`: a section in which one case never finishes (the engine's monitor must
    // end the run with a VIOLATION line; VH_SPIN_CPU_S shortens the wait)
    if std::env::args().any(|a| a == "--spin") {
        let mut ck = vh_engine::Check::from_args("C00", "exploration");
        ck.run(
            vh_engine::Section::enumerate("spin-selftest", "cases 0..64, case 40 spins".to_string(), || Box::new(0u32..64), |c: &u32| {
                if *c == 40 {
                    let mut x = 0u64;
                    loop {
                        x = std::hint::black_box(x.wrapping_add(1));
                    }
                }
                vh_engine::Verdict::pass()
            })
            .shards(4),
        );
        ck.finish();
    }
    // `vh-selftest --tracing`: after `Check::from_args` the arguments of a TRACE-level log line are
    // evaluated (exit 0), unless VH_NO_TRACING is set (exit 3)
    if std::env::args().any(|a| a == "--tracing") {
        static SEEN: std::sync::atomic::AtomicBool = std::sync::atomic::AtomicBool::new(false);
        let _ck = vh_engine::Check::from_args("C00", "exploration");
        tracing::trace!(
            "{}",
            {
                SEEN.store(true, std::sync::atomic::Ordering::SeqCst);
                1
            }
        );
        let seen = SEEN.load(std::sync::atomic::Ordering::SeqCst);
        println!("log arguments evaluated: {seen}");
        std::process::exit(if seen { 0 } else { 3 });
    }
    let bad = vh_engine::refimpl::self_test();
    if bad.is_empty() {
        println!("reference self-test: ok");
    } else {
        for b in &bad {
            println!("reference self-test FAILED: {b}");
        }
        std::process::exit(2);
    }
}
