//! verif-harness engine: runner, evidence, known findings, replay.
//!
//! A property binary builds a [`Check`] from its command line, then calls
//! [`Check::run`] once per *section* (a generator + an oracle), and finally
//! [`Check::finish`].  In `--replay <file>` mode only the section named in the
//! replay file executes, once, without proptest.

pub mod crash;
pub mod iso;
pub mod known;
pub mod refimpl;
pub mod sched;
pub mod util;

use proptest::strategy::{BoxedStrategy, Strategy};
use proptest::test_runner::{Config, RngAlgorithm, RngSeed, TestCaseError, TestError, TestRunner};
use serde::{Serialize, de::DeserializeOwned};
use std::collections::{BTreeMap, HashSet};
use std::fmt::Debug;
use std::path::PathBuf;
use std::sync::Mutex;
use std::sync::atomic::{AtomicBool, AtomicU64, Ordering};
use std::time::Instant;

pub use known::Known;

/// Root of the verification tree (evidence/, replays/, known_findings.json).
pub fn verif_dir() -> PathBuf {
    PathBuf::from(std::env::var("VERIF_DIR").unwrap_or_else(|_| "/verif".to_string()))
}

#[derive(Clone, Copy, Debug, PartialEq, Eq)]
pub enum Tier {
    Quick,
    Thorough,
}

impl Tier {
    pub fn pick<T>(self, quick: T, thorough: T) -> T {
        match self {
            Tier::Quick => quick,
            Tier::Thorough => thorough,
        }
    }
    pub fn name(self) -> &'static str {
        self.pick("quick", "thorough")
    }
}

/// Result of judging one case.
#[derive(Debug, Clone, Default)]
pub struct Verdict {
    pub fail: Option<Failure>,
    pub nontrivial: bool,
    pub classes: Vec<&'static str>,
    /// failures that were observed *inside* the case but tolerated by the
    /// property code itself because they are listed known findings.
    pub known_hits: Vec<String>,
}

#[derive(Debug, Clone)]
pub struct Failure {
    /// narrow signature key, matched against known_findings.json
    pub key: String,
    pub msg: String,
}

impl Verdict {
    pub fn pass() -> Self {
        Self::default()
    }
    pub fn fail(key: impl Into<String>, msg: impl Into<String>) -> Self {
        Self {
            fail: Some(Failure {
                key: key.into(),
                msg: msg.into(),
            }),
            ..Self::default()
        }
    }
    pub fn nontrivial(mut self, b: bool) -> Self {
        self.nontrivial = b;
        self
    }
    pub fn class(mut self, c: &'static str) -> Self {
        self.classes.push(c);
        self
    }
    pub fn class_if(mut self, b: bool, c: &'static str) -> Self {
        if b {
            self.classes.push(c);
        }
        self
    }
    pub fn with_fail(mut self, key: impl Into<String>, msg: impl Into<String>) -> Self {
        if self.fail.is_none() {
            self.fail = Some(Failure {
                key: key.into(),
                msg: msg.into(),
            });
        }
        self
    }
}

/// How a section produces its cases.
pub enum Gen<C> {
    /// `cases` random cases from a proptest strategy (factory is called per shard).
    Pbt {
        strategy: Box<dyn Fn() -> BoxedStrategy<C> + Sync>,
        cases: u64,
    },
    /// deterministic enumeration of a finite scope; `exhaustive` says whether
    /// the iterator covers the whole stated scope.
    Enum {
        iter: Box<dyn Fn() -> Box<dyn Iterator<Item = C> + Send> + Sync>,
        scope: String,
    },
}

pub struct Section<C> {
    pub name: &'static str,
    pub generator: Gen<C>,
    pub check: Box<dyn Fn(&C) -> Verdict + Sync>,
    pub shards: usize,
    pub max_shrink_iters: u32,
    /// if set, a panic inside `check` is turned into a failure with key
    /// `<prefix>:panic:<file>:<normalised message>`; otherwise same with
    /// prefix = section name.
    pub panic_prefix: Option<String>,
}

impl<C> Section<C> {
    pub fn pbt<S, F>(name: &'static str, cases: u64, strategy: S, check: F) -> Self
    where
        S: Fn() -> BoxedStrategy<C> + Sync + 'static,
        F: Fn(&C) -> Verdict + Sync + 'static,
    {
        Section {
            name,
            generator: Gen::Pbt {
                strategy: Box::new(strategy),
                cases,
            },
            check: Box::new(check),
            shards: 1,
            max_shrink_iters: 2000,
            panic_prefix: None,
        }
    }
    pub fn enumerate<I, F>(name: &'static str, scope: impl Into<String>, iter: I, check: F) -> Self
    where
        I: Fn() -> Box<dyn Iterator<Item = C> + Send> + Sync + 'static,
        F: Fn(&C) -> Verdict + Sync + 'static,
    {
        Section {
            name,
            generator: Gen::Enum {
                iter: Box::new(iter),
                scope: scope.into(),
            },
            check: Box::new(check),
            shards: 1,
            max_shrink_iters: 0,
            panic_prefix: None,
        }
    }
    pub fn shards(mut self, n: usize) -> Self {
        self.shards = n.max(1);
        self
    }
    pub fn shrink_iters(mut self, n: u32) -> Self {
        self.max_shrink_iters = n;
        self
    }
}

#[derive(Default)]
struct SectionStats {
    evaluations: u64,
    nontrivial: HashSet<u64>,
    classes: BTreeMap<String, u64>,
    known: BTreeMap<String, u64>,
    samples: Vec<(usize, serde_json::Value)>, // (size, case)
    exhaustive_scope: Option<String>,
    wall_s: f64,
}

pub struct Check {
    pub id: &'static str,
    pub tier: Tier,
    pub seed: u64,
    pub level: &'static str,
    mode: Mode,
    known: Known,
    stats: BTreeMap<String, SectionStats>,
    violations: Vec<(String, PathBuf, String)>,
    infra: Vec<String>,
    assumptions: Vec<String>,
    extra: BTreeMap<String, serde_json::Value>,
    started: Instant,
    replay_done: bool,
    /// restrict to sections whose name is in this list (VH_ONLY=a,b)
    only: Option<Vec<String>>,
}

enum Mode {
    Run,
    Replay {
        path: PathBuf,
        section: String,
        case: serde_json::Value,
    },
}

#[derive(Serialize, serde::Deserialize)]
struct ReplayFile {
    property: String,
    section: String,
    key: String,
    msg: String,
    case: serde_json::Value,
}

const SAMPLE_MAX_BYTES: usize = 1500;

fn truncate_json(v: &serde_json::Value) -> serde_json::Value {
    let s = v.to_string();
    if s.len() <= SAMPLE_MAX_BYTES {
        v.clone()
    } else {
        let mut cut = SAMPLE_MAX_BYTES;
        while !s.is_char_boundary(cut) {
            cut -= 1;
        }
        serde_json::json!({"truncated_json": &s[..cut], "full_len": s.len()})
    }
}

impl Check {
    /// Parse `--tier quick|thorough`, `--replay <file>`; env VERIF_SEED, VERIF_TIER.
    pub fn from_args(id: &'static str, level: &'static str) -> Self {
        // Every tracing event of the code under test is formatted and thrown away: the arguments
        // of a log line are evaluated only when a subscriber listens, and an application always
        // has one (`VH_NO_TRACING=1` switches it off).
        if std::env::var_os("VH_NO_TRACING").is_none() {
            let _ = tracing_subscriber::fmt().with_max_level(tracing_subscriber::filter::LevelFilter::TRACE).with_writer(std::io::sink).try_init();
        }
        let args: Vec<String> = std::env::args().collect();
        let mut tier = match std::env::var("VERIF_TIER").as_deref() {
            Ok("thorough") => Tier::Thorough,
            _ => Tier::Quick,
        };
        let mut replay: Option<PathBuf> = None;
        let mut i = 1;
        while i < args.len() {
            match args[i].as_str() {
                "--tier" => {
                    i += 1;
                    tier = match args.get(i).map(String::as_str) {
                        Some("thorough") => Tier::Thorough,
                        Some("quick") => Tier::Quick,
                        other => {
                            eprintln!("bad --tier {other:?}");
                            std::process::exit(2);
                        }
                    };
                }
                "--replay" => {
                    i += 1;
                    replay = args.get(i).map(PathBuf::from);
                    if replay.is_none() {
                        eprintln!("--replay needs a path");
                        std::process::exit(2);
                    }
                }
                _ => {}
            }
            i += 1;
        }
        let seed = std::env::var("VERIF_SEED")
            .ok()
            .and_then(|s| {
                s.trim()
                    .parse::<u64>()
                    .ok()
                    .or_else(|| s.trim().parse::<i64>().ok().map(|v| v as u64))
            })
            .unwrap_or(20260925);
        let mode = match replay {
            None => Mode::Run,
            Some(path) => {
                let txt = match std::fs::read_to_string(&path) {
                    Ok(t) => t,
                    Err(e) => {
                        eprintln!("cannot read replay {}: {e}", path.display());
                        std::process::exit(2);
                    }
                };
                let rf: ReplayFile = match serde_json::from_str(&txt) {
                    Ok(r) => r,
                    Err(e) => {
                        eprintln!("bad replay file {}: {e}", path.display());
                        std::process::exit(2);
                    }
                };
                Mode::Replay {
                    path,
                    section: rf.section,
                    case: rf.case,
                }
            }
        };
        util::install_panic_capture();
        let only: Option<Vec<String>> = std::env::var("VH_ONLY")
            .ok()
            .filter(|s| !s.trim().is_empty())
            .map(|s| s.split(',').map(|x| x.trim().to_string()).collect());
        Check {
            id,
            tier,
            seed,
            level,
            mode,
            known: Known::load(id),
            stats: BTreeMap::new(),
            violations: Vec::new(),
            infra: Vec::new(),
            assumptions: Vec::new(),
            extra: BTreeMap::new(),
            started: Instant::now(),
            replay_done: false,
            only,
        }
    }

    pub fn is_replay(&self) -> bool {
        matches!(self.mode, Mode::Replay { .. })
    }

    /// For machinery outside `run` (iso, sched, crash, net): the replay request, if any.
    pub fn replay_request(&self) -> Option<(String, serde_json::Value, PathBuf)> {
        match &self.mode {
            Mode::Replay { path, section, case } => Some((section.clone(), case.clone(), path.clone())),
            Mode::Run => None,
        }
    }

    /// Conclude an external replay: `fail` = Some((key, msg)) if the case still fails.
    pub fn conclude_replay(&self, path: &std::path::Path, fail: Option<(String, String)>) -> ! {
        match fail {
            None => {
                println!("replay {}: property held", path.display());
                std::process::exit(0);
            }
            Some((key, msg)) => {
                if self.known.is_open(&key) {
                    println!("KNOWN-FINDING: property={} {}", self.id, self.known.what(&key).unwrap_or(key));
                    std::process::exit(0);
                }
                println!("replay failure key={key} msg={msg}");
                println!("VIOLATION property={} replay={}", self.id, path.display());
                std::process::exit(1);
            }
        }
    }

    /// Regression replays stored for a section (for external machinery).
    pub fn stored_replays(&self, section: &str) -> Vec<(PathBuf, serde_json::Value)> {
        let mut out = Vec::new();
        let dir = verif_dir().join("replays").join(self.id);
        if let Ok(rd) = std::fs::read_dir(&dir) {
            let mut files: Vec<_> = rd.filter_map(|e| e.ok()).map(|e| e.path()).collect();
            files.sort();
            for p in files {
                if p.extension().and_then(|e| e.to_str()) != Some("json") {
                    continue;
                }
                let Ok(txt) = std::fs::read_to_string(&p) else { continue };
                let Ok(rf) = serde_json::from_str::<ReplayFile>(&txt) else { continue };
                if rf.section == section {
                    out.push((p, rf.case));
                }
            }
        }
        out
    }

    pub fn section_enabled(&self, name: &str) -> bool {
        match &self.only {
            Some(only) => only.iter().any(|s| s == name),
            None => true,
        }
    }

    pub fn assume(&mut self, s: impl Into<String>) {
        self.assumptions.push(s.into());
    }

    pub fn extra(&mut self, k: &str, v: serde_json::Value) {
        self.extra.insert(k.to_string(), v);
    }

    pub fn infra(&mut self, s: impl Into<String>) {
        let s = s.into();
        eprintln!("INFRA: {s}");
        self.infra.push(s);
    }

    /// Transient environment trouble that does not invalidate the run (a failure that did not
    /// reproduce on re-execution, a case skipped because the machine was too slow): recorded in the
    /// evidence under `transient_notes`, printed, but the exit status stays a verdict.
    pub fn note_transient(&mut self, s: impl Into<String>) {
        let s = s.into();
        eprintln!("NOTE (transient): {s}");
        let v = self.extra.entry("transient_notes".to_string()).or_insert_with(|| serde_json::json!([]));
        if let Some(a) = v.as_array_mut() {
            if a.len() < 20 {
                a.push(serde_json::Value::String(s));
            }
        }
    }

    pub fn known(&self) -> &Known {
        &self.known
    }

    fn section_seed(&self, section: &str, shard: usize) -> [u8; 32] {
        let mut h = util::Fnv::new();
        h.write(self.id.as_bytes());
        h.write(section.as_bytes());
        h.write(&self.seed.to_le_bytes());
        h.write(&(shard as u64).to_le_bytes());
        let a = h.finish();
        let mut out = [0u8; 32];
        let mut x = a;
        for chunk in out.chunks_mut(8) {
            x = util::splitmix64(x);
            chunk.copy_from_slice(&x.to_le_bytes());
        }
        out
    }

    /// Judge a case: catch panics, map known findings. Returns the verdict with
    /// `fail` cleared when the failure is a listed open finding.
    fn judge<C>(&self, sec: &Section<C>, case: &C) -> (Verdict, Option<String>) {
        let prefix = sec.panic_prefix.clone().unwrap_or_else(|| sec.name.to_string());
        let r = util::catch_panic(|| (sec.check)(case));
        let mut v = match r {
            Ok(v) => v,
            Err(p) => Verdict::fail(
                format!("{}:{}:panic:{}:{}", self.id, prefix, p.file, p.norm_msg()),
                format!("panic at {}:{}: {}", p.file, p.line, p.msg),
            ),
        };
        let mut known_key = None;
        if let Some(f) = &v.fail {
            if self.known.is_open(&f.key) {
                known_key = Some(f.key.clone());
                v.fail = None;
            }
        }
        (v, known_key)
    }

    /// Run (or replay) one section.
    pub fn run<C>(&mut self, sec: Section<C>)
    where
        C: Debug + Clone + Serialize + DeserializeOwned + Send + 'static,
    {
        if let Mode::Replay { section, case, path } = &self.mode {
            if section != sec.name {
                return;
            }
            self.replay_done = true;
            let c: C = match serde_json::from_value(case.clone()) {
                Ok(c) => c,
                Err(e) => {
                    eprintln!("replay case does not deserialize: {e}");
                    std::process::exit(2);
                }
            };
            // under the monitor: a replayed case that does not finish ends with a verdict too
            let (v, known) = {
                let slots: Vec<Busy<C>> = vec![Busy::new()];
                let (slots, this, secr) = (&slots, &*self, &sec);
                let c = c.clone();
                let remaining = std::sync::atomic::AtomicUsize::new(1);
                let remaining = &remaining;
                let t0 = Instant::now();
                std::thread::scope(|scope| {
                    scope.spawn(move || watch_cases(this, secr.name, t0, slots, remaining));
                    scope
                        .spawn(move || {
                            let _done = Countdown(remaining);
                            slots[0].enter(t0, &c);
                            let r = this.judge(secr, &c);
                            slots[0].leave();
                            r
                        })
                        .join()
                        .unwrap_or_else(|_| (Verdict::fail(format!("{}:{}:panic-in-harness", this.id, secr.name), "the replay thread panicked".to_string()), None))
                })
            };
            if let Some(k) = known {
                println!(
                    "KNOWN-FINDING: property={} {}",
                    self.id,
                    self.known.what(&k).unwrap_or(k.clone())
                );
                std::process::exit(0);
            }
            match v.fail {
                None => {
                    if !v.known_hits.is_empty() {
                        for k in &v.known_hits {
                            println!("KNOWN-FINDING: property={} {}", self.id, self.known.what(k).unwrap_or(k.clone()));
                        }
                        std::process::exit(0);
                    }
                    println!("replay {}: property held", path.display());
                    std::process::exit(0);
                }
                Some(f) => {
                    println!("replay failure key={} msg={}", f.key, f.msg);
                    println!("VIOLATION property={} replay={}", self.id, path.display());
                    std::process::exit(1);
                }
            }
        }
        if let Some(only) = &self.only {
            if !only.iter().any(|s| s == sec.name) {
                return;
            }
        }

        let t0 = Instant::now();
        // 1. regression replays for this section first
        let mut regress: Vec<(PathBuf, C)> = Vec::new();
        let dir = verif_dir().join("replays").join(self.id);
        if let Ok(rd) = std::fs::read_dir(&dir) {
            let mut files: Vec<_> = rd.filter_map(|e| e.ok()).map(|e| e.path()).collect();
            files.sort();
            for p in files {
                if p.extension().and_then(|e| e.to_str()) != Some("json") {
                    continue;
                }
                let Ok(txt) = std::fs::read_to_string(&p) else { continue };
                let Ok(rf) = serde_json::from_str::<ReplayFile>(&txt) else { continue };
                if rf.section != sec.name {
                    continue;
                }
                if let Ok(c) = serde_json::from_value::<C>(rf.case) {
                    regress.push((p, c));
                }
            }
        }

        let shared = Mutex::new(SectionStats::default());
        let failures: Mutex<Vec<(C, Failure)>> = Mutex::new(Vec::new());
        let aborted: Mutex<Vec<String>> = Mutex::new(Vec::new());

        let record = |case: &C, v: &Verdict, known: &Option<String>| {
            let js = serde_json::to_value(case).unwrap_or(serde_json::Value::Null);
            let s = js.to_string();
            let mut st = shared.lock().unwrap();
            st.evaluations += 1;
            for c in &v.classes {
                *st.classes.entry((*c).to_string()).or_default() += 1;
            }
            if let Some(k) = known {
                *st.known.entry(k.clone()).or_default() += 1;
            }
            for k in &v.known_hits {
                *st.known.entry(k.clone()).or_default() += 1;
            }
            if v.nontrivial {
                let h = util::fnv64(s.as_bytes());
                if st.nontrivial.insert(h) {
                    // keep: first, plus the largest two
                    let n = st.samples.len();
                    if n < 2 {
                        st.samples.push((s.len(), truncate_json(&js)));
                    } else if n < 4 || s.len() > st.samples.iter().map(|x| x.0).min().unwrap_or(0) {
                        if n >= 4 {
                            // replace the smallest among index>=1
                            let (mi, _) = st
                                .samples
                                .iter()
                                .enumerate()
                                .skip(1)
                                .min_by_key(|(_, x)| x.0)
                                .unwrap();
                            st.samples[mi] = (s.len(), truncate_json(&js));
                        } else {
                            st.samples.push((s.len(), truncate_json(&js)));
                        }
                    }
                }
            }
        };

        if !regress.is_empty() {
            // on a thread of their own, so that the monitor sees a replay that does not finish
            let slots: Vec<Busy<C>> = vec![Busy::new()];
            let regress = std::mem::take(&mut regress);
            let (slots, this, secr, record, failures) = (&slots, &*self, &sec, &record, &failures);
            let remaining = std::sync::atomic::AtomicUsize::new(1);
            let remaining = &remaining;
            std::thread::scope(|scope| {
                scope.spawn(move || watch_cases(this, secr.name, t0, slots, remaining));
                scope.spawn(move || {
                    let _done = Countdown(remaining);
                    util::install_panic_capture();
                    for (p, c) in &regress {
                        slots[0].enter(t0, c);
                        let (v, known) = this.judge(secr, c);
                        slots[0].leave();
                        record(c, &v, &known);
                        if let Some(f) = v.fail {
                            eprintln!("regression replay {} fails: {} {}", p.display(), f.key, f.msg);
                            failures.lock().unwrap().push((c.clone(), f));
                        }
                    }
                });
            });
        }

        // 2. generation
        match &sec.generator {
            Gen::Pbt { strategy, cases } => {
                let shards = sec.shards.min((*cases).max(1) as usize).max(1);
                let per = cases.div_ceil(shards as u64);
                let this = &*self;
                let secr = &sec;
                let record = &record;
                let failures = &failures;
                let aborted = &aborted;
                let slots: Vec<Busy<C>> = (0..shards).map(|_| Busy::new()).collect();
                let slots = &slots;
                let remaining = std::sync::atomic::AtomicUsize::new(shards);
                let remaining = &remaining;
                std::thread::scope(|scope| {
                    scope.spawn(move || watch_cases(this, secr.name, t0, slots, remaining));
                    for shard in 0..shards {
                        let seed = this.section_seed(secr.name, shard);
                        scope.spawn(move || {
                            let _done = Countdown(remaining);
                            util::install_panic_capture();
                            let cfg = Config {
                                cases: per as u32,
                                failure_persistence: None,
                                max_shrink_iters: secr.max_shrink_iters,
                                rng_seed: RngSeed::Fixed(u64::from_le_bytes(seed[..8].try_into().unwrap())),
                                rng_algorithm: RngAlgorithm::ChaCha,
                                max_global_rejects: 1_000_000,
                                max_local_rejects: 1_000_000,
                                ..Config::default()
                            };
                            let mut runner = TestRunner::new(cfg);
                            let strat = strategy();
                            let failed_once = AtomicBool::new(false);
                            let res = runner.run(&strat, |case| {
                                slots[shard].enter(t0, &case);
                                let (v, known) = this.judge(secr, &case);
                                slots[shard].leave();
                                if !failed_once.load(Ordering::Relaxed) {
                                    record(&case, &v, &known);
                                }
                                match v.fail {
                                    None => Ok(()),
                                    Some(f) => {
                                        failed_once.store(true, Ordering::Relaxed);
                                        Err(TestCaseError::fail(f.key))
                                    }
                                }
                            });
                            match res {
                                Ok(()) => {}
                                Err(TestError::Fail(_, minimal)) => {
                                    // re-judge the minimal case to obtain key+msg
                                    let mut got = None;
                                    for _ in 0..3 {
                                        slots[shard].enter(t0, &minimal);
                                        let (v, _k) = this.judge(secr, &minimal);
                                        slots[shard].leave();
                                        if let Some(f) = v.fail {
                                            got = Some(f);
                                            break;
                                        }
                                    }
                                    match got {
                                        Some(f) => failures.lock().unwrap().push((minimal, f)),
                                        None => failures.lock().unwrap().push((
                                            minimal,
                                            Failure {
                                                key: "FLAKY".into(),
                                                msg: "shrunk case passed on re-run".into(),
                                            },
                                        )),
                                    }
                                }
                                Err(TestError::Abort(r)) => {
                                    eprintln!("proptest aborted in {}: {r}", secr.name);
                                    aborted.lock().unwrap().push(format!("proptest aborted in {}: {r}", secr.name));
                                }
                            }
                        });
                    }
                });
            }
            Gen::Enum { iter, scope } => {
                let it = Mutex::new(iter());
                let stop = AtomicBool::new(false);
                let this = &*self;
                let secr = &sec;
                let record = &record;
                let failures = &failures;
                let fail_count = AtomicU64::new(0);
                let slots: Vec<Busy<C>> = (0..sec.shards).map(|_| Busy::new()).collect();
                let slots = &slots;
                let remaining = std::sync::atomic::AtomicUsize::new(sec.shards);
                let remaining = &remaining;
                let handed = AtomicU64::new(0);
                let (it, stop, fail_count, handed) = (&it, &stop, &fail_count, &handed);
                std::thread::scope(|sc| {
                    sc.spawn(move || watch_cases(this, secr.name, t0, slots, remaining));
                    for shard in 0..sec.shards {
                        sc.spawn(move || {
                            let _done = Countdown(remaining);
                            util::install_panic_capture();
                            loop {
                                if stop.load(Ordering::Relaxed) {
                                    break;
                                }
                                // one case at a time for the first thousand (sections of few, slow cases
                                // spread over all shards), then batches of 64 (lock traffic of cheap ones)
                                let batch: Vec<C> = {
                                    let mut g = it.lock().unwrap();
                                    let n = if handed.fetch_add(1, Ordering::Relaxed) < 1024 { 1 } else { 64 };
                                    let mut b = Vec::with_capacity(n);
                                    for _ in 0..n {
                                        match g.next() {
                                            Some(c) => b.push(c),
                                            None => break,
                                        }
                                    }
                                    b
                                };
                                if batch.is_empty() {
                                    break;
                                }
                                for c in &batch {
                                    if stop.load(Ordering::Relaxed) {
                                        break;
                                    }
                                    slots[shard].enter(t0, c);
                                    let (v, known) = this.judge(secr, c);
                                    slots[shard].leave();
                                    record(c, &v, &known);
                                    if let Some(f) = v.fail {
                                        // keep the smallest (by JSON length) failure per key: enumeration
                                        // order is small-to-large by convention, so first wins.
                                        let n = fail_count.fetch_add(1, Ordering::Relaxed);
                                        if n < 8 {
                                            failures.lock().unwrap().push((c.clone(), f));
                                        } else {
                                            stop.store(true, Ordering::Relaxed);
                                        }
                                    }
                                }
                            }
                        });
                    }
                });
                if !stop.load(Ordering::Relaxed) {
                    shared.lock().unwrap().exhaustive_scope = Some(scope.clone());
                }
            }
        }

        let mut st = shared.into_inner().unwrap();
        st.wall_s = t0.elapsed().as_secs_f64();
        // merge into any previous stats of the same section name
        let slot = self.stats.entry(sec.name.to_string()).or_default();
        slot.evaluations += st.evaluations;
        slot.nontrivial.extend(st.nontrivial);
        for (k, v) in st.classes {
            *slot.classes.entry(k).or_default() += v;
        }
        for (k, v) in st.known {
            *slot.known.entry(k).or_default() += v;
        }
        slot.samples.extend(st.samples);
        slot.exhaustive_scope = st.exhaustive_scope;
        slot.wall_s += st.wall_s;

        for a in aborted.into_inner().unwrap() {
            self.infra(a);
        }
        // 3. report failures: one replay per distinct key
        let mut seen = HashSet::new();
        for (case, f) in failures.into_inner().unwrap() {
            if f.key == "FLAKY" {
                self.infra(format!("section {}: failure did not reproduce on re-run (flaky), case={:?}", sec.name, case));
                continue;
            }
            if !seen.insert(f.key.clone()) {
                continue;
            }
            let path = self.write_replay(sec.name, &case, &f);
            println!("failure section={} key={} msg={}", sec.name, f.key, f.msg);
            println!("VIOLATION property={} replay={}", self.id, path.display());
            self.violations.push((f.key, path, f.msg));
        }
    }

    /// Report a failure found by machinery outside `run` (iso master, sched, …).
    pub fn report_external<C: Serialize>(&mut self, section: &str, case: &C, key: &str, msg: &str) {
        if self.known.is_open(key) {
            let slot = self.stats.entry(section.to_string()).or_default();
            *slot.known.entry(key.to_string()).or_default() += 1;
            return;
        }
        if self.violations.iter().any(|v| v.0 == key) {
            return;
        }
        let f = Failure { key: key.into(), msg: msg.into() };
        let path = self.write_replay(section, case, &f);
        println!("failure section={section} key={key} msg={msg}");
        println!("VIOLATION property={} replay={}", self.id, path.display());
        self.violations.push((key.into(), path, msg.into()));
    }

    /// Record coverage gathered by machinery outside `run`.
    pub fn record_external(
        &mut self,
        section: &str,
        evaluations: u64,
        nontrivial_hashes: impl IntoIterator<Item = u64>,
        classes: impl IntoIterator<Item = (String, u64)>,
        samples: Vec<serde_json::Value>,
        exhaustive_scope: Option<String>,
    ) {
        let slot = self.stats.entry(section.to_string()).or_default();
        slot.evaluations += evaluations;
        slot.nontrivial.extend(nontrivial_hashes);
        for (k, v) in classes {
            *slot.classes.entry(k).or_default() += v;
        }
        for s in samples {
            let t = truncate_json(&s);
            slot.samples.push((t.to_string().len(), t));
        }
        if exhaustive_scope.is_some() {
            slot.exhaustive_scope = exhaustive_scope;
        }
    }

    pub fn count_known(&mut self, section: &str, key: &str, n: u64) {
        let slot = self.stats.entry(section.to_string()).or_default();
        *slot.known.entry(key.to_string()).or_default() += n;
    }

    fn write_replay<C: Serialize>(&self, section: &str, case: &C, f: &Failure) -> PathBuf {
        let dir = verif_dir().join("replays").join(self.id).join("found");
        let _ = std::fs::create_dir_all(&dir);
        let cj = serde_json::to_value(case).unwrap_or(serde_json::Value::Null);
        let rf = ReplayFile {
            property: self.id.to_string(),
            section: section.to_string(),
            key: f.key.clone(),
            msg: f.msg.clone(),
            case: cj,
        };
        let txt = serde_json::to_string_pretty(&rf).unwrap();
        let h = util::fnv64(txt.as_bytes());
        let path = dir.join(format!("{section}-{h:016x}.json"));
        let _ = std::fs::write(&path, txt);
        path
    }

    /// Write evidence and exit with the contract's status.
    pub fn finish(mut self) -> ! {
        if let Mode::Replay { section, .. } = &self.mode {
            if !self.replay_done {
                eprintln!("replay section {section} is not known to this binary");
                std::process::exit(2);
            }
        }
        let wall = self.started.elapsed().as_secs_f64();
        let mut evaluations = 0u64;
        let mut distinct = 0u64;
        let mut samples = Vec::new();
        let mut sections = serde_json::Map::new();
        let mut exhaustive_all = !self.stats.is_empty();
        let mut known_total: BTreeMap<String, u64> = BTreeMap::new();
        for (name, st) in &self.stats {
            evaluations += st.evaluations;
            distinct += st.nontrivial.len() as u64;
            for (_, s) in st.samples.iter().take(3) {
                samples.push(serde_json::json!({"section": name, "case": s}));
            }
            if st.exhaustive_scope.is_none() {
                exhaustive_all = false;
            }
            for (k, v) in &st.known {
                *known_total.entry(k.clone()).or_default() += v;
            }
            sections.insert(
                name.clone(),
                serde_json::json!({
                    "evaluations": st.evaluations,
                    "distinct_nontrivial": st.nontrivial.len(),
                    "classes": st.classes,
                    "known_finding_hits": st.known,
                    "exhaustive_scope": st.exhaustive_scope,
                    "wall_s": (st.wall_s * 100.0).round() / 100.0,
                }),
            );
        }
        for (k, n) in &known_total {
            println!(
                "KNOWN-FINDING: property={} {} [key={} hits={}]",
                self.id,
                self.known.what(k).unwrap_or_else(|| k.clone()),
                k,
                n
            );
        }
        let rule = self
            .extra
            .remove("rule")
            .and_then(|v| v.as_str().map(str::to_string))
            .unwrap_or_else(|| "see sections".to_string());
        let mut coverage = serde_json::Map::new();
        coverage.insert("evaluations".into(), evaluations.into());
        coverage.insert("distinct_nontrivial".into(), distinct.into());
        coverage.insert("rule".into(), rule.into());
        coverage.insert("samples".into(), samples.into());
        coverage.insert("exhaustive".into(), exhaustive_all.into());
        coverage.insert("sections".into(), sections.into());
        coverage.insert("known_finding_hits".into(), serde_json::to_value(&known_total).unwrap());
        for (k, v) in std::mem::take(&mut self.extra) {
            coverage.insert(k, v);
        }
        if !self.infra.is_empty() {
            coverage.insert("infrastructure_trouble".into(), serde_json::to_value(&self.infra).unwrap());
        }
        let ev = serde_json::json!({
            "property_id": self.id,
            "tier": self.tier.name(),
            "seed": self.seed as i64,
            "level": self.level,
            "coverage": coverage,
            "assumptions": self.assumptions,
            "wall_s": (wall * 100.0).round() / 100.0,
            "violations": self.violations.len(),
        });
        let dir = verif_dir().join("evidence");
        let _ = std::fs::create_dir_all(&dir);
        let path = dir.join(format!("{}.json", self.id));
        if let Err(e) = std::fs::write(&path, serde_json::to_string_pretty(&ev).unwrap()) {
            eprintln!("cannot write evidence: {e}");
            std::process::exit(2);
        }
        println!(
            "{} {}: evaluations={} distinct_nontrivial={} violations={} known={} wall={:.1}s",
            self.id,
            self.tier.name(),
            evaluations,
            distinct,
            self.violations.len(),
            known_total.len(),
            wall
        );
        if !self.violations.is_empty() {
            std::process::exit(1);
        }
        if !self.infra.is_empty() {
            std::process::exit(2);
        }
        std::process::exit(0);
    }
}

/// Monotone index mapping for shrink-friendly selection: maps a u16 to 0..len.
pub fn pick_idx(i: u16, len: usize) -> usize {
    if len == 0 {
        0
    } else {
        ((i as usize) * len) >> 16
    }
}

/// Convenience: boxed strategy from any strategy.
pub fn boxed<S: Strategy + 'static>(s: S) -> BoxedStrategy<S::Value> {
    s.boxed()
}


// ---------------------------------------------------------------------------
// a case that does not finish
// ---------------------------------------------------------------------------

/// What one shard thread is evaluating right now (for the monitor of `Check::run`).
struct Busy<C> {
    /// milliseconds since the section started, +1; 0 = between cases
    since_ms: AtomicU64,
    tid: std::sync::atomic::AtomicI32,
    case: Mutex<Option<C>>,
}

impl<C: Clone> Busy<C> {
    fn new() -> Self {
        Busy { since_ms: AtomicU64::new(0), tid: std::sync::atomic::AtomicI32::new(0), case: Mutex::new(None) }
    }
    fn enter(&self, t0: Instant, case: &C) {
        *self.case.lock().unwrap() = Some(case.clone());
        // SAFETY: gettid has no preconditions
        self.tid.store(unsafe { libc::gettid() }, Ordering::Relaxed);
        self.since_ms.store(t0.elapsed().as_millis() as u64 + 1, Ordering::SeqCst);
    }
    fn leave(&self) {
        self.since_ms.store(0, Ordering::SeqCst);
    }
}

/// (state, utime + stime in clock ticks) of a thread of this process
fn thread_sample(tid: i32) -> Option<(char, u64)> {
    let txt = std::fs::read_to_string(format!("/proc/self/task/{tid}/stat")).ok()?;
    let rest = &txt[txt.rfind(')')? + 1..];
    let f: Vec<&str> = rest.split_whitespace().collect();
    let state = f.first()?.chars().next()?;
    let ticks = f.get(11)?.parse::<u64>().ok()? + f.get(12)?.parse::<u64>().ok()?;
    Some((state, ticks))
}

/// Watches the shard threads of one section. A case normally costs micro- to milliseconds (the
/// heaviest ones of the thorough tiers: tens of seconds). A thread that has been inside ONE case
/// for more than a minute is sampled: once it has consumed `VH_SPIN_CPU_S` (default 150) further
/// seconds of CPU time of its own inside that case and is still runnable, the code under test is
/// in a loop that does not end — CPU time of a thread does not depend on how loaded the machine
/// is, so this is a verdict: the case becomes the replay file and the process exits 1 (the stuck
/// thread cannot be stopped, the section cannot be completed). A thread that sleeps in one case
/// for `VH_BLOCKED_S` (default 1800) seconds without consuming CPU time is reported as
/// infrastructure trouble (exit 2): the harness cannot tell a lock that is never released from a
/// wait it set up itself.
fn watch_cases<C: Serialize + Clone>(ck: &Check, section: &str, t0: Instant, slots: &[Busy<C>], remaining: &std::sync::atomic::AtomicUsize) {
    let env = |k: &str, d: u64| std::env::var(k).ok().and_then(|v| v.parse().ok()).unwrap_or(d);
    let (spin_s, blocked_s) = (env("VH_SPIN_CPU_S", 150), env("VH_BLOCKED_S", 1800));
    // SAFETY: sysconf has no preconditions
    let hz = u64::try_from(unsafe { libc::sysconf(libc::_SC_CLK_TCK) }).ok().filter(|h| *h > 0).unwrap_or(100);
    // per slot: (since of the watched case, ticks at first notice, ticks last seen, ms of last change)
    let mut watch: Vec<Option<(u64, u64, u64, u64)>> = vec![None; slots.len()];
    loop {
        for _ in 0..10 {
            if remaining.load(Ordering::SeqCst) == 0 {
                return;
            }
            std::thread::sleep(std::time::Duration::from_millis(200));
        }
        let now = t0.elapsed().as_millis() as u64 + 1;
        for (i, s) in slots.iter().enumerate() {
            let since = s.since_ms.load(Ordering::SeqCst);
            if since == 0 || now.saturating_sub(since) < 60_000 {
                watch[i] = None;
                continue;
            }
            let Some((state, ticks)) = thread_sample(s.tid.load(Ordering::Relaxed)) else { continue };
            let w = match watch[i] {
                Some(w) if w.0 == since => w,
                _ => (since, ticks, ticks, now),
            };
            let w = if ticks > w.2 { (w.0, w.1, ticks, now) } else { w };
            watch[i] = Some(w);
            let cpu_s = (ticks - w.1) / hz;
            let idle_s = now.saturating_sub(w.3) / 1000;
            let spinning = state == 'R' && cpu_s >= spin_s;
            let blocked = state == 'S' && idle_s >= blocked_s;
            if !spinning && !blocked {
                continue;
            }
            // the case may have ended this very moment
            if s.since_ms.load(Ordering::SeqCst) != since {
                continue;
            }
            let Some(case) = s.case.lock().unwrap().clone() else { continue };
            if blocked {
                eprintln!(
                    "INFRA: section {section}: a case has been asleep for {idle_s} s without consuming CPU time (blocked for good, or waiting for something the harness set up); case = {}",
                    serde_json::to_string(&case).unwrap_or_default()
                );
                std::process::exit(2);
            }
            let key = format!("{}:{section}:case-does-not-finish:spinning", ck.id);
            let msg = format!(
                "one case has kept its thread on the CPU for {} s of wall time and {cpu_s} s of CPU time after the first minute, and the thread is still runnable: a call into the code under test does not return",
                now.saturating_sub(since) / 1000
            );
            if ck.known.is_open(&key) {
                println!("KNOWN-FINDING: property={} {}", ck.id, ck.known.what(&key).unwrap_or(key.clone()));
                eprintln!("INFRA: cannot continue behind a case that does not finish");
                std::process::exit(2);
            }
            let path = ck.write_replay(section, &case, &Failure { key: key.clone(), msg: msg.clone() });
            println!("failure section={section} key={key} msg={msg}");
            println!("VIOLATION property={} replay={}", ck.id, path.display());
            std::process::exit(1);
        }
    }
}

/// decrements the number of running shard threads when a shard ends (also by a panic)
struct Countdown<'a>(&'a std::sync::atomic::AtomicUsize);

impl Drop for Countdown<'_> {
    fn drop(&mut self) {
        self.0.fetch_sub(1, Ordering::SeqCst);
    }
}
