//! RC4 from the classic description (KSA + PRGA over a Vec of usize).

pub struct Rc4 {
    s: Vec<usize>,
    i: usize,
    j: usize,
}

impl Rc4 {
    pub fn new(key: &[u8]) -> Self {
        assert!(!key.is_empty());
        let mut s: Vec<usize> = (0..256).collect();
        let mut j = 0usize;
        for i in 0..256 {
            j = (j + s[i] + key[i % key.len()] as usize) % 256;
            s.swap(i, j);
        }
        Rc4 { s, i: 0, j: 0 }
    }
    pub fn next(&mut self) -> u8 {
        self.i = (self.i + 1) % 256;
        self.j = (self.j + self.s[self.i]) % 256;
        self.s.swap(self.i, self.j);
        self.s[(self.s[self.i] + self.s[self.j]) % 256] as u8
    }
    pub fn crypt(key: &[u8], data: &[u8]) -> Vec<u8> {
        let mut c = Rc4::new(key);
        data.iter().map(|d| d ^ c.next()).collect()
    }
}

pub fn self_test(bad: &mut Vec<String>) {
    let cases: [(&[u8], &[u8], &str); 3] = [
        (b"Key", b"Plaintext", "bbf316e8d940af0ad3"),
        (b"Wiki", b"pedia", "1021bf0420"),
        (b"Secret", b"Attack at dawn", "45a01f645fc35b383552544b9bf5"),
    ];
    for (k, p, c) in cases {
        if hex::encode(Rc4::crypt(k, p)) != c {
            bad.push(format!("rc4: vector {}", String::from_utf8_lossy(k)));
        }
    }
    // RFC 6229, 40-bit key 0x0102030405, offset 0
    let ks = Rc4::crypt(&[1, 2, 3, 4, 5], &[0u8; 16]);
    if hex::encode(ks) != "b2396305f03dc027ccc3524a0a1118a8" {
        bad.push("rc4: RFC 6229 40-bit vector".into());
    }
}
