//! Salsa20/20 from D. J. Bernstein's "Salsa20 specification" (row/column
//! formulation), with the 16-byte-key expansion ("expand 16-byte k").

fn qr(y0: u32, y1: u32, y2: u32, y3: u32) -> (u32, u32, u32, u32) {
    let z1 = y1 ^ y0.wrapping_add(y3).rotate_left(7);
    let z2 = y2 ^ z1.wrapping_add(y0).rotate_left(9);
    let z3 = y3 ^ z2.wrapping_add(z1).rotate_left(13);
    let z0 = y0 ^ z3.wrapping_add(z2).rotate_left(18);
    (z0, z1, z2, z3)
}

fn rowround(y: [u32; 16]) -> [u32; 16] {
    let mut z = [0u32; 16];
    (z[0], z[1], z[2], z[3]) = qr(y[0], y[1], y[2], y[3]);
    (z[5], z[6], z[7], z[4]) = qr(y[5], y[6], y[7], y[4]);
    (z[10], z[11], z[8], z[9]) = qr(y[10], y[11], y[8], y[9]);
    (z[15], z[12], z[13], z[14]) = qr(y[15], y[12], y[13], y[14]);
    z
}

fn columnround(x: [u32; 16]) -> [u32; 16] {
    let mut y = [0u32; 16];
    (y[0], y[4], y[8], y[12]) = qr(x[0], x[4], x[8], x[12]);
    (y[5], y[9], y[13], y[1]) = qr(x[5], x[9], x[13], x[1]);
    (y[10], y[14], y[2], y[6]) = qr(x[10], x[14], x[2], x[6]);
    (y[15], y[3], y[7], y[11]) = qr(x[15], x[3], x[7], x[11]);
    y
}

/// The Salsa20 hash function on a 64-byte block.
pub fn salsa20_hash(input: &[u8; 64]) -> [u8; 64] {
    let mut x = [0u32; 16];
    for (i, w) in x.iter_mut().enumerate() {
        *w = u32::from_le_bytes([input[4 * i], input[4 * i + 1], input[4 * i + 2], input[4 * i + 3]]);
    }
    let mut z = x;
    for _ in 0..10 {
        z = rowround(columnround(z));
    }
    let mut out = [0u8; 64];
    for i in 0..16 {
        out[4 * i..4 * i + 4].copy_from_slice(&z[i].wrapping_add(x[i]).to_le_bytes());
    }
    out
}

/// Salsa20_k(n) for a 16-byte key k and a 16-byte n.
pub fn expand16(k: &[u8; 16], n: &[u8; 16]) -> [u8; 64] {
    const TAU: [&[u8; 4]; 4] = [b"expa", b"nd 1", b"6-by", b"te k"];
    let mut blk = [0u8; 64];
    blk[0..4].copy_from_slice(TAU[0]);
    blk[4..20].copy_from_slice(k);
    blk[20..24].copy_from_slice(TAU[1]);
    blk[24..40].copy_from_slice(n);
    blk[40..44].copy_from_slice(TAU[2]);
    blk[44..60].copy_from_slice(k);
    blk[60..64].copy_from_slice(TAU[3]);
    salsa20_hash(&blk)
}

/// Keystream byte `pos` (absolute position) for key, 8-byte nonce.
pub fn keystream(k: &[u8; 16], nonce: &[u8; 8], from: u64, len: usize) -> Vec<u8> {
    let mut out = Vec::with_capacity(len);
    let mut pos = from;
    let mut cur_block = u64::MAX;
    let mut blk = [0u8; 64];
    while out.len() < len {
        let b = pos / 64;
        if b != cur_block {
            let mut n = [0u8; 16];
            n[..8].copy_from_slice(nonce);
            n[8..].copy_from_slice(&b.to_le_bytes());
            blk = expand16(k, &n);
            cur_block = b;
        }
        out.push(blk[(pos % 64) as usize]);
        pos += 1;
    }
    out
}

/// The CASC variant: IV of 4 or 8 bytes zero-extended to 8, the 32-bit block
/// index XORed (little endian) into the first four IV bytes.
pub fn casc_nonce(iv: &[u8], block_index: u32) -> [u8; 8] {
    let mut n = [0u8; 8];
    n[..iv.len()].copy_from_slice(iv);
    let b = block_index.to_le_bytes();
    for i in 0..4 {
        n[i] ^= b[i];
    }
    n
}

pub fn casc_crypt(data: &[u8], key: &[u8; 16], iv: &[u8], block_index: u32) -> Vec<u8> {
    let ks = keystream(key, &casc_nonce(iv, block_index), 0, data.len());
    data.iter().zip(ks).map(|(d, k)| d ^ k).collect()
}

pub fn self_test(bad: &mut Vec<String>) {
    // spec section 8
    if salsa20_hash(&[0u8; 64]) != [0u8; 64] {
        bad.push("salsa20: hash(0) != 0".into());
    }
    let inp: [u8; 64] = [
        211, 159, 13, 115, 76, 55, 82, 183, 3, 117, 222, 37, 191, 187, 234, 136, 49, 237, 179, 48, 1, 106, 178, 219, 175,
        199, 166, 48, 86, 16, 179, 207, 31, 240, 32, 63, 15, 83, 93, 161, 116, 147, 48, 113, 238, 55, 204, 36, 79, 201,
        235, 79, 3, 81, 156, 47, 203, 26, 244, 243, 88, 118, 104, 54,
    ];
    let exp: [u8; 64] = [
        109, 42, 178, 168, 156, 240, 248, 238, 168, 196, 190, 203, 26, 110, 170, 154, 29, 29, 150, 26, 150, 30, 235, 249,
        190, 163, 251, 48, 69, 144, 51, 57, 118, 40, 152, 157, 180, 57, 27, 94, 107, 42, 236, 35, 27, 111, 114, 114, 219,
        236, 232, 135, 111, 155, 110, 18, 24, 232, 95, 158, 179, 19, 48, 202,
    ];
    if salsa20_hash(&inp) != exp {
        bad.push("salsa20: spec section 8 vector".into());
    }
    // spec section 9, 16-byte key
    let mut k = [0u8; 16];
    let mut n = [0u8; 16];
    for i in 0..16 {
        k[i] = 1 + i as u8;
        n[i] = 101 + i as u8;
    }
    let exp16: [u8; 64] = [
        39, 173, 46, 248, 30, 200, 82, 17, 48, 67, 254, 239, 37, 18, 13, 247, 241, 200, 61, 144, 10, 55, 50, 185, 6, 47,
        246, 253, 143, 86, 187, 225, 134, 85, 110, 246, 161, 163, 43, 235, 231, 94, 171, 51, 145, 214, 112, 29, 14, 232,
        5, 16, 151, 140, 183, 141, 171, 9, 122, 181, 104, 182, 177, 193,
    ];
    if expand16(&k, &n) != exp16 {
        bad.push("salsa20: spec section 9 16-byte-key vector".into());
    }
}
