//! Bob Jenkins' lookup3 `hashlittle` / `hashlittle2`, byte-at-a-time with a
//! generic tail (no 12-way switch).

fn mix(a: &mut u32, b: &mut u32, c: &mut u32) {
    *a = a.wrapping_sub(*c); *a ^= c.rotate_left(4);  *c = c.wrapping_add(*b);
    *b = b.wrapping_sub(*a); *b ^= a.rotate_left(6);  *a = a.wrapping_add(*c);
    *c = c.wrapping_sub(*b); *c ^= b.rotate_left(8);  *b = b.wrapping_add(*a);
    *a = a.wrapping_sub(*c); *a ^= c.rotate_left(16); *c = c.wrapping_add(*b);
    *b = b.wrapping_sub(*a); *b ^= a.rotate_left(19); *a = a.wrapping_add(*c);
    *c = c.wrapping_sub(*b); *c ^= b.rotate_left(4);  *b = b.wrapping_add(*a);
}

fn fin(a: &mut u32, b: &mut u32, c: &mut u32) {
    *c ^= *b; *c = c.wrapping_sub(b.rotate_left(14));
    *a ^= *c; *a = a.wrapping_sub(c.rotate_left(11));
    *b ^= *a; *b = b.wrapping_sub(a.rotate_left(25));
    *c ^= *b; *c = c.wrapping_sub(b.rotate_left(16));
    *a ^= *c; *a = a.wrapping_sub(c.rotate_left(4));
    *b ^= *a; *b = b.wrapping_sub(a.rotate_left(14));
    *c ^= *b; *c = c.wrapping_sub(b.rotate_left(24));
}

fn add_bytes(words: &mut [u32; 3], bytes: &[u8]) {
    for (i, &x) in bytes.iter().enumerate() {
        let w = i / 4;
        let sh = 8 * (i % 4);
        words[w] = words[w].wrapping_add((x as u32) << sh);
    }
}

/// returns (c, b) — `hashlittle2` writes c to *pc and b to *pb.
pub fn hashlittle2(key: &[u8], pc: u32, pb: u32) -> (u32, u32) {
    let init = 0xdead_beefu32.wrapping_add(key.len() as u32).wrapping_add(pc);
    let mut w = [init, init, init.wrapping_add(pb)];
    let mut rest = key;
    while rest.len() > 12 {
        add_bytes(&mut w, &rest[..12]);
        let [mut a, mut b, mut c] = w;
        mix(&mut a, &mut b, &mut c);
        w = [a, b, c];
        rest = &rest[12..];
    }
    if rest.is_empty() {
        return (w[2], w[1]);
    }
    add_bytes(&mut w, rest);
    let [mut a, mut b, mut c] = w;
    fin(&mut a, &mut b, &mut c);
    (c, b)
}

pub fn hashlittle(key: &[u8], initval: u32) -> u32 {
    hashlittle2(key, initval, 0).0
}

pub fn self_test(bad: &mut Vec<String>) {
    let four = b"Four score and seven years ago";
    let checks: [(&[u8], u32, u32, u32, u32); 6] = [
        (b"", 0, 0, 0xdeadbeef, 0xdeadbeef),
        (b"", 0, 0xdeadbeef, 0xbd5b7dde, 0xdeadbeef),
        (b"", 0xdeadbeef, 0xdeadbeef, 0x9c093ccd, 0xbd5b7dde),
        (four, 0, 0, 0x17770551, 0xce7226e6),
        (four, 0, 1, 0xe3607cae, 0xbd371de4),
        (four, 1, 0, 0xcd628161, 0x6cbea4b3),
    ];
    for (k, pc, pb, ec, eb) in checks {
        let (c, b) = hashlittle2(k, pc, pb);
        if (c, b) != (ec, eb) {
            bad.push(format!("lookup3: hashlittle2 len={} pc={pc:x} pb={pb:x}: {c:x},{b:x}", k.len()));
        }
    }
    if hashlittle(four, 0) != 0x17770551 || hashlittle(four, 1) != 0xcd628161 || hashlittle(b"", 0xdeadbeef) != 0xbd5b7dde {
        bad.push("lookup3: hashlittle driver5 vectors".into());
    }
}
