//! MD5 straight from RFC 1321.

const S: [u32; 64] = [
    7, 12, 17, 22, 7, 12, 17, 22, 7, 12, 17, 22, 7, 12, 17, 22, 5, 9, 14, 20, 5, 9, 14, 20, 5, 9, 14, 20, 5, 9, 14, 20, 4,
    11, 16, 23, 4, 11, 16, 23, 4, 11, 16, 23, 4, 11, 16, 23, 6, 10, 15, 21, 6, 10, 15, 21, 6, 10, 15, 21, 6, 10, 15, 21,
];

fn k(i: usize) -> u32 {
    // floor(2^32 * abs(sin(i+1)))
    ((((i + 1) as f64).sin().abs()) * 4294967296.0) as u32
}

fn block(st: &mut [u32; 4], kt: &[u32; 64], chunk: &[u8]) {
    let mut w = [0u32; 16];
    for (j, c) in chunk.chunks_exact(4).enumerate() {
        w[j] = u32::from_le_bytes([c[0], c[1], c[2], c[3]]);
    }
    let (mut a, mut b, mut c, mut d) = (st[0], st[1], st[2], st[3]);
    for i in 0..64 {
        let (f, g) = match i / 16 {
            0 => ((b & c) | (!b & d), i),
            1 => ((d & b) | (!d & c), (5 * i + 1) % 16),
            2 => (b ^ c ^ d, (3 * i + 5) % 16),
            _ => (c ^ (b | !d), (7 * i) % 16),
        };
        let f2 = f.wrapping_add(a).wrapping_add(kt[i]).wrapping_add(w[g]);
        a = d;
        d = c;
        c = b;
        b = b.wrapping_add(f2.rotate_left(S[i]));
    }
    st[0] = st[0].wrapping_add(a);
    st[1] = st[1].wrapping_add(b);
    st[2] = st[2].wrapping_add(c);
    st[3] = st[3].wrapping_add(d);
}

pub fn md5(msg: &[u8]) -> [u8; 16] {
    let mut kt = [0u32; 64];
    for (i, x) in kt.iter_mut().enumerate() {
        *x = k(i);
    }
    let mut st = [0x67452301u32, 0xefcdab89u32, 0x98badcfeu32, 0x10325476u32];
    let whole = msg.len() / 64 * 64;
    for chunk in msg[..whole].chunks_exact(64) {
        block(&mut st, &kt, chunk);
    }
    // padding: 0x80, zeros up to 56 mod 64, bit length
    let mut tail = msg[whole..].to_vec();
    let bitlen = (msg.len() as u64).wrapping_mul(8);
    tail.push(0x80);
    while tail.len() % 64 != 56 {
        tail.push(0);
    }
    tail.extend_from_slice(&bitlen.to_le_bytes());
    for chunk in tail.chunks_exact(64) {
        block(&mut st, &kt, chunk);
    }
    let (a0, b0, c0, d0) = (st[0], st[1], st[2], st[3]);
    let mut out = [0u8; 16];
    out[0..4].copy_from_slice(&a0.to_le_bytes());
    out[4..8].copy_from_slice(&b0.to_le_bytes());
    out[8..12].copy_from_slice(&c0.to_le_bytes());
    out[12..16].copy_from_slice(&d0.to_le_bytes());
    out
}

pub fn self_test(bad: &mut Vec<String>) {
    let v: [(&str, &str); 7] = [
        ("", "d41d8cd98f00b204e9800998ecf8427e"),
        ("a", "0cc175b9c0f1b6a831c399e269772661"),
        ("abc", "900150983cd24fb0d6963f7d28e17f72"),
        ("message digest", "f96b697d7cb7938d525a2f31aaf161d0"),
        ("abcdefghijklmnopqrstuvwxyz", "c3fcd3d76192e4007dfb496cca67e13b"),
        ("ABCDEFGHIJKLMNOPQRSTUVWXYZabcdefghijklmnopqrstuvwxyz0123456789", "d174ab98d277d9f5a5611c2c9f419d9f"),
        ("12345678901234567890123456789012345678901234567890123456789012345678901234567890", "57edf4a22be3c955ac49da2e2107b67a"),
    ];
    for (m, h) in v {
        if hex::encode(md5(m.as_bytes())) != h {
            bad.push(format!("md5: RFC 1321 vector {m:?}"));
        }
    }
}
