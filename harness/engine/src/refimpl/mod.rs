//! Reference implementations: the trusted base of the differential oracles.
//! Written from the public algorithm descriptions, in a style unlike the code
//! under test; each is pinned by published known-answer vectors (`self_test`).

pub mod lookup3;
pub mod md5;
pub mod rc4;
pub mod salsa20;

/// Known-answer self test of every reference; returns a list of failures.
pub fn self_test() -> Vec<String> {
    let mut bad = Vec::new();
    salsa20::self_test(&mut bad);
    rc4::self_test(&mut bad);
    lookup3::self_test(&mut bad);
    md5::self_test(&mut bad);
    bad
}
