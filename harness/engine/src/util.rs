//! Small utilities: panic capture, hashing, hex, watchdog.

use std::cell::RefCell;
use std::panic::{AssertUnwindSafe, catch_unwind};
use std::sync::Once;
use std::time::Duration;

#[derive(Debug, Clone)]
pub struct PanicInfo {
    pub file: String,
    pub line: u32,
    pub msg: String,
}

impl PanicInfo {
    /// message with digit runs replaced by `N`, truncated: stable across inputs
    pub fn norm_msg(&self) -> String {
        normalise(&self.msg)
    }
}

pub fn normalise(msg: &str) -> String {
    // digits -> N, cut at the first ';' (what follows is usually input-dependent), 48 chars
    let mut out = String::new();
    let mut in_digits = false;
    for ch in msg.chars() {
        if ch == ';' {
            break;
        }
        if ch.is_ascii_digit() {
            if !in_digits {
                out.push('N');
                in_digits = true;
            }
        } else {
            in_digits = false;
            if ch == '\n' || ch == '\t' || ch == '\r' {
                out.push(' ');
            } else {
                out.push(ch);
            }
        }
        if out.chars().count() >= 48 {
            break;
        }
    }
    out
}

thread_local! {
    static LAST_PANIC: RefCell<Option<PanicInfo>> = const { RefCell::new(None) };
    static QUIET: RefCell<bool> = const { RefCell::new(false) };
}

static HOOK: Once = Once::new();

/// Install a process-wide panic hook that records location+message in a
/// thread-local (and stays silent while inside `catch_panic`).
pub fn install_panic_capture() {
    HOOK.call_once(|| {
        let default = std::panic::take_hook();
        std::panic::set_hook(Box::new(move |info| {
            let (file, line) = info
                .location()
                .map(|l| (l.file().to_string(), l.line()))
                .unwrap_or_else(|| ("?".into(), 0));
            let msg = if let Some(s) = info.payload().downcast_ref::<&str>() {
                (*s).to_string()
            } else if let Some(s) = info.payload().downcast_ref::<String>() {
                s.clone()
            } else {
                "<non-string panic>".to_string()
            };
            // shorten registry / repo paths
            let file = shorten_path(&file);
            LAST_PANIC.with(|p| *p.borrow_mut() = Some(PanicInfo { file, line, msg }));
            if !QUIET.with(|q| *q.borrow()) {
                default(info);
            }
        }));
    });
}

pub fn shorten_path(file: &str) -> String {
    if let Some(i) = file.find("/crates/") {
        file[i + 8..].to_string()
    } else if let Some(i) = file.find("/registry/src/") {
        let rest = &file[i + 14..];
        rest.splitn(2, '/').nth(1).unwrap_or(rest).to_string()
    } else {
        file.to_string()
    }
}

/// Run `f`, converting a panic into `Err(PanicInfo)`.
pub fn catch_panic<T>(f: impl FnOnce() -> T) -> Result<T, PanicInfo> {
    install_panic_capture();
    let prev = QUIET.with(|q| std::mem::replace(&mut *q.borrow_mut(), true));
    LAST_PANIC.with(|p| *p.borrow_mut() = None);
    let r = catch_unwind(AssertUnwindSafe(f));
    QUIET.with(|q| *q.borrow_mut() = prev);
    match r {
        Ok(v) => Ok(v),
        Err(_) => Err(LAST_PANIC.with(|p| p.borrow_mut().take()).unwrap_or(PanicInfo {
            file: "?".into(),
            line: 0,
            msg: "<unknown panic>".into(),
        })),
    }
}

pub struct Fnv(u64);
impl Fnv {
    pub fn new() -> Self {
        Fnv(0xcbf29ce484222325)
    }
    pub fn write(&mut self, b: &[u8]) {
        for &x in b {
            self.0 ^= x as u64;
            self.0 = self.0.wrapping_mul(0x100000001b3);
        }
    }
    pub fn finish(&self) -> u64 {
        self.0
    }
}
impl Default for Fnv {
    fn default() -> Self {
        Self::new()
    }
}

pub fn fnv64(b: &[u8]) -> u64 {
    let mut h = Fnv::new();
    h.write(b);
    h.finish()
}

pub fn splitmix64(x: u64) -> u64 {
    let mut z = x.wrapping_add(0x9E3779B97F4A7C15);
    z = (z ^ (z >> 30)).wrapping_mul(0xBF58476D1CE4E5B9);
    z = (z ^ (z >> 27)).wrapping_mul(0x94D049BB133111EB);
    z ^ (z >> 31)
}

/// Tiny deterministic PRNG for places where a proptest strategy is not
/// practical (e.g. expanding a seed into a large buffer).  Always seeded from
/// generated data, never from the clock.
#[derive(Clone)]
pub struct Rng(pub u64);
impl Rng {
    pub fn new(seed: u64) -> Self {
        Rng(seed ^ 0x5DEECE66D)
    }
    pub fn next_u64(&mut self) -> u64 {
        self.0 = self.0.wrapping_add(0x9E3779B97F4A7C15);
        let mut z = self.0;
        z = (z ^ (z >> 30)).wrapping_mul(0xBF58476D1CE4E5B9);
        z = (z ^ (z >> 27)).wrapping_mul(0x94D049BB133111EB);
        z ^ (z >> 31)
    }
    pub fn below(&mut self, n: u64) -> u64 {
        if n == 0 { 0 } else { self.next_u64() % n }
    }
    pub fn bytes(&mut self, n: usize) -> Vec<u8> {
        let mut v = Vec::with_capacity(n + 8);
        while v.len() < n {
            v.extend_from_slice(&self.next_u64().to_le_bytes());
        }
        v.truncate(n);
        v
    }
}

/// serde helper: Vec<u8> as hex string.
pub mod hexbytes {
    use serde::{Deserialize, Deserializer, Serializer};
    pub fn serialize<S: Serializer>(v: &Vec<u8>, s: S) -> Result<S::Ok, S::Error> {
        s.serialize_str(&hex::encode(v))
    }
    pub fn deserialize<'de, D: Deserializer<'de>>(d: D) -> Result<Vec<u8>, D::Error> {
        let s = String::deserialize(d)?;
        hex::decode(&s).map_err(serde::de::Error::custom)
    }
}

/// Run `f` on a helper thread; `None` if it does not finish within `limit`
/// (the thread is leaked).
pub fn with_timeout<T: Send + 'static>(limit: Duration, f: impl FnOnce() -> T + Send + 'static) -> Option<T> {
    let (tx, rx) = std::sync::mpsc::channel();
    std::thread::Builder::new()
        .stack_size(16 << 20)
        .spawn(move || {
            let r = f();
            let _ = tx.send(r);
        })
        .ok()?;
    rx.recv_timeout(limit).ok()
}
