//! C13 — version-service queries fail over in order and cache only good answers.
//!
//! Three loopback mock endpoints owned by the harness (two plain-HTTP servers in
//! the TACT "HTTPS" and "HTTP" slots, one Ribbit TCP server) with generated
//! behaviours; a generated query script (query, query again, flip behaviours,
//! new client on the same cache directory, ...) runs against a real
//! `RibbitTactClient`.  The oracle is the decision table of the statement:
//! contact order, "next endpoint iff the failure was transient", first
//! well-formed answer wins, answers are served from the cache without traffic
//! while their TTL lasts (TTL is ZERO or 1 h, never timed), nothing is cached
//! after a failure, and the parsed answer does not depend on TCP segmentation.

mod cdn;
mod mock;

use cascette_formats::bpsv::{BpsvDocument, BpsvValue};
use cascette_protocol::{CacheConfig, ClientConfig, RibbitTactClient};
use mock::*;
use proptest::prelude::*;
use serde::{Deserialize, Serialize};
use std::collections::{BTreeMap, BTreeSet};
use std::sync::{Arc, Mutex};
use std::time::{Duration, Instant};
use vh_engine::{Check, Known, Section, Verdict};

const KEY_CLOSEMID: &str = "C13:failover:http-connection-closed-mid-response-stops-chain";
const KEY_NEWCLIENT: &str = "C13:cache:new-client-serves-expired-answer-from-cache-dir";
const KEY_TRUNCATED: &str = "C13:ribbit:truncated-v1-mime-answer-returned-as-success";

/// Infrastructure trouble noticed inside section closures (reported after the section).
static INFRA: Mutex<Vec<String>> = Mutex::new(Vec::new());
/// Failures that did not reproduce on re-execution (loopback interference under load): noted in the
/// evidence, never a verdict and never an exit status.
static TRANSIENT: Mutex<Vec<String>> = Mutex::new(Vec::new());

fn infra(s: String) {
    let mut g = INFRA.lock().unwrap();
    if g.len() < 20 {
        g.push(s);
    }
}

// ---------------------------------------------------------------------------
// cases

#[derive(Debug, Clone, Serialize, Deserialize)]
enum Op {
    /// query endpoint 0 (primary), 1 (same file, other product) or 2 (other file / other class)
    Query { which: u8 },
    FlipH(HttpBeh),
    FlipP(HttpBeh),
    FlipT(TcpBeh),
    /// drop the client, create a new one with the same configuration (same cache directory, if any)
    NewClient,
}

#[derive(Debug, Clone, Serialize, Deserialize)]
struct Case {
    /// endpoint class: 0 versions, 1 cdns, 2 bgdl, 3 summary (TCP only), 4 certs (TCP only)
    class: u8,
    cache_dir: bool,
    /// ribbit_ttl, cdn_ttl, config_ttl: true = 1 h, false = ZERO
    ttl_1h: [bool; 3],
    h: HttpBeh,
    p: HttpBeh,
    t: TcpBeh,
    script: Vec<Op>,
    content_seed: u64,
    /// configuration without a TACT HTTPS / TACT HTTP endpoint (empty URL): that protocol is not permitted
    #[serde(default)]
    disabled: [bool; 2],
}

#[derive(Debug, Clone, Serialize, Deserialize)]
struct SplitCase {
    doc: u8,
    rows: u8,
    fmt: u8,
    /// false: "v1/summary" (TCP only); true: "v1/products/wow/versions" with both HTTP slots refusing
    via_chain: bool,
    points: Vec<Pt>,
    content_seed: u64,
}

const CERT1: &str = "v1/certs/5168ff90af0207753cccd9656462a212b859723b";
const CERT2: &str = "v1/certs/782a8a710b950421127250a3e91b751ca356e202";

fn endpoints(class: u8) -> [&'static str; 3] {
    match class % 5 {
        0 => ["v1/products/wow/versions", "v1/products/wowt/versions", "v1/products/wow/cdns"],
        1 => ["v1/products/wow/cdns", "v1/products/wow_classic/cdns", "v1/products/wow/bgdl"],
        2 => ["v1/products/wow/bgdl", "v1/products/agent/bgdl", "v1/products/wow/versions"],
        3 => ["v1/summary", CERT1, "v1/products/wow/versions"],
        _ => [CERT1, CERT2, "v1/summary"],
    }
}

/// The statement (and the client's rustdoc) make summary/certs TCP-only.
fn tcp_only(ep: &str) -> bool {
    ep.starts_with("v1/summary") || ep.starts_with("v1/certs/")
}

/// Which configured TTL may govern an endpoint (indices into [ribbit, cdn, config]).
/// The rustdoc pins "/versions" to the 5-minute (ribbit) value and "/cdns" to the
/// 1-hour (cdn) value; for bgdl/summary/certs both "Ribbit/TACT responses" and
/// "config endpoints" are defensible readings, so either field is accepted.
fn ttl_candidates(ep: &str) -> &'static [usize] {
    if ep.contains("versions") {
        &[0]
    } else if ep.contains("cdns") {
        &[1]
    } else {
        &[0, 2]
    }
}

fn expected_tag(ep: &str) -> String {
    tag_of(ep)
}

// ---------------------------------------------------------------------------
// observation helpers

fn fingerprint(d: &BpsvDocument) -> String {
    let mut s = d.schema().fields().iter().map(|f| f.to_spec()).collect::<Vec<_>>().join("|");
    s.push_str(&format!(";seqn={:?}", d.sequence_number()));
    let n = d.schema().field_count();
    for row in d.rows() {
        let vals: Vec<String> = (0..n)
            .map(|i| match row.get(i) {
                Some(BpsvValue::String(x)) => format!("S:{x}"),
                Some(BpsvValue::Hex(b)) => format!("H:{}", hex::encode(b)),
                Some(BpsvValue::Dec(v)) => format!("D:{v}"),
                Some(BpsvValue::Empty) => "E".to_string(),
                None => "?".to_string(),
            })
            .collect();
        s.push_str(&format!(";[{}]", vals.join("|")));
    }
    s
}

fn short(s: &str) -> String {
    if s.len() > 160 { format!("{}…({} bytes)", &s[..s.char_indices().take(150).last().map(|x| x.0).unwrap_or(0)], s.len()) } else { s.to_string() }
}

fn dedup_slots(log: &[(u8, String)]) -> Vec<u8> {
    let mut v: Vec<u8> = log.iter().map(|x| x.0).collect();
    v.dedup();
    v
}

fn slot_name(s: u8) -> &'static str {
    ["HTTPS", "HTTP", "TCP"][s as usize % 3]
}

fn make_client(ports: [u16; 3], dir: Option<&std::path::Path>, ttl_1h: [bool; 3], disabled: [bool; 2]) -> Result<RibbitTactClient, String> {
    let d = |b: bool| if b { Duration::from_secs(3600) } else { Duration::ZERO };
    let cfg = ClientConfig {
        tact_https_url: if disabled[0] { String::new() } else { format!("http://127.0.0.1:{}", ports[0]) },
        tact_http_url: if disabled[1] { String::new() } else { format!("http://127.0.0.1:{}", ports[1]) },
        ribbit_url: format!("tcp://127.0.0.1:{}", ports[2]),
        cache_config: CacheConfig {
            cache_dir: dir.map(|p| p.to_path_buf()),
            ribbit_ttl: d(ttl_1h[0]),
            cdn_ttl: d(ttl_1h[1]),
            config_ttl: d(ttl_1h[2]),
            ..CacheConfig::default()
        },
        ..ClientConfig::default()
    };
    RibbitTactClient::new(cfg).map_err(|e| format!("{e:?}"))
}

// ---------------------------------------------------------------------------
// decision table

#[derive(Clone, Debug)]
enum Cls {
    Good(String),
    Definitive,
    Transient(&'static str),
    /// 200 + malformed body: both "stop" and "continue" are accepted
    Ambiguous,
    /// transient by the statement; the code stops here (recorded finding KEY_CLOSEMID)
    KnownStop,
    /// V1 MIME answer cut by a close: an error, or the complete answer when only the epilogue was cut
    TcpTruncated(String),
    /// nothing listens: the attempt leaves no trace in the request log
    Unobservable,
}

fn cls_http(b: &HttpBeh, tag: &str) -> Cls {
    match b {
        HttpBeh::Answer { doc: d, rows, .. } => Cls::Good(doc(*d, *rows, tag).1),
        HttpBeh::Status { code, .. } => match *code {
            500..=599 => Cls::Transient("5xx"),
            429 => Cls::Transient("429"),
            _ => Cls::Definitive,
        },
        HttpBeh::Redirect { doc: d, rows, .. } => Cls::Good(doc(*d, *rows, tag).1),
        HttpBeh::Malformed { .. } => Cls::Ambiguous,
        HttpBeh::Refuse => Cls::Unobservable,
        HttpBeh::CloseMid { .. } => Cls::KnownStop,
        HttpBeh::Stall => Cls::Transient("stall"),
    }
}

fn cls_tcp(b: &TcpBeh, tag: &str) -> Cls {
    match b {
        TcpBeh::Answer { doc: d, rows, .. } => Cls::Good(doc(*d, *rows, tag).1),
        TcpBeh::Malformed { .. } => Cls::Transient("tcp-malformed"),
        TcpBeh::Refuse => Cls::Unobservable,
        TcpBeh::CloseMid { doc: d, rows, .. } => Cls::TcpTruncated(doc(*d, *rows, tag).1),
        TcpBeh::Stall => Cls::Transient("stall"),
    }
}

enum J {
    Pass(Vec<&'static str>),
    Known(&'static str),
    Fail(String, String),
    Infra(String),
}

/// Compare the observed contacts (request log, consecutive duplicates merged)
/// and the result with the decision table for `chain`.
fn judge_network(chain: &[(u8, Cls)], actual: &[u8], res: &Result<String, String>) -> J {
    let pos = |s: u8| chain.iter().position(|c| c.0 == s);
    let names = |v: &[u8]| v.iter().map(|s| slot_name(*s)).collect::<Vec<_>>().join(",");
    let ctx = format!(
        "chain=[{}] contacted=[{}] result={}",
        chain.iter().map(|(s, c)| format!("{}:{}", slot_name(*s), cls_label(c))).collect::<Vec<_>>().join(" "),
        names(actual),
        match res {
            Ok(a) => format!("Ok({})", short(a)),
            Err(e) => format!("Err({})", short(e)),
        }
    );
    for s in actual {
        if pos(*s).is_none() {
            let key = if chain.len() == 1 { "C13:failover:tcp-only-endpoint-queried-over-http" } else { "C13:failover:endpoint-outside-the-configuration-contacted" };
            return J::Fail(key.into(), ctx);
        }
    }
    for w in actual.windows(2) {
        if pos(w[0]) >= pos(w[1]) {
            return J::Fail("C13:failover:contact-order-violated".into(), ctx);
        }
    }
    let mut idx = 0;
    let mut last_contacted: Option<&Cls> = None;
    let mut prev_kind: &'static str = "none";
    let mut failures_before = 0;
    let mut classes: Vec<&'static str> = Vec::new();
    for (slot, cls) in chain {
        let contacted = idx < actual.len() && actual[idx] == *slot;
        if let Cls::Unobservable = cls {
            if contacted {
                return J::Infra(format!("a port that must refuse was contacted: {ctx}"));
            }
            prev_kind = "refused";
            failures_before += 1;
            continue;
        }
        if !contacted {
            if idx < actual.len() {
                return J::Fail("C13:failover:endpoint-skipped".into(), ctx);
            }
            return match last_contacted {
                Some(Cls::Ambiguous) if res.is_err() => {
                    classes.push("malformed-stops-chain");
                    J::Pass(classes)
                }
                Some(Cls::KnownStop) if res.is_err() => J::Known(KEY_CLOSEMID),
                None if prev_kind == "none" => J::Fail("C13:failover:no-endpoint-contacted".into(), ctx),
                _ => J::Fail(format!("C13:failover:stopped-after-transient-failure:{prev_kind}"), ctx),
            };
        }
        idx += 1;
        if prev_kind == "stall" {
            classes.push("next-endpoint-tried-after-stall");
        }
        if matches!(last_contacted, Some(Cls::Ambiguous)) {
            classes.push("malformed-continues-chain");
        }
        if matches!(last_contacted, Some(Cls::KnownStop)) {
            classes.push("closed-mid-response-continues-chain");
        }
        last_contacted = Some(cls);
        match cls {
            Cls::Good(fp) => {
                if idx != actual.len() {
                    return J::Fail("C13:failover:continued-after-answer".into(), ctx);
                }
                return match res {
                    Ok(a) if a == fp => {
                        classes.push(if failures_before > 0 { "answer-after-failover" } else { "answer-first-try" });
                        if *slot == 2 && failures_before >= 2 {
                            classes.push("answer-from-tcp-after-two-failures");
                        }
                        J::Pass(classes)
                    }
                    Ok(_) => J::Fail("C13:failover:wrong-answer-returned".into(), format!("{ctx} expected={}", short(fp))),
                    Err(_) => J::Fail("C13:failover:well-formed-answer-not-returned".into(), ctx),
                };
            }
            Cls::Definitive => {
                if idx != actual.len() {
                    return J::Fail("C13:failover:continued-after-definitive-refusal".into(), ctx);
                }
                if res.is_ok() {
                    return J::Fail("C13:failover:answer-despite-definitive-refusal".into(), ctx);
                }
                classes.push("definitive-stops-chain");
                return J::Pass(classes);
            }
            Cls::Transient(k) => {
                prev_kind = k;
                failures_before += 1;
            }
            Cls::Ambiguous => prev_kind = "malformed",
            Cls::KnownStop => {
                prev_kind = "closed-mid-response";
                failures_before += 1;
            }
            Cls::TcpTruncated(full) => {
                if idx != actual.len() {
                    return J::Fail("C13:failover:unexpected-extra-contact".into(), ctx);
                }
                return match res {
                    Ok(a) if a == full => {
                        classes.push("tcp-cut-in-epilogue-full-answer");
                        J::Pass(classes)
                    }
                    Ok(_) => J::Known(KEY_TRUNCATED),
                    Err(_) => {
                        classes.push("tcp-truncated-answer-rejected");
                        J::Pass(classes)
                    }
                };
            }
            Cls::Unobservable => unreachable!(),
        }
    }
    if idx != actual.len() {
        return J::Fail("C13:failover:unexpected-extra-contact".into(), ctx);
    }
    if res.is_ok() {
        return J::Fail("C13:failover:answer-although-every-endpoint-failed".into(), ctx);
    }
    classes.push("all-endpoints-failed");
    J::Pass(classes)
}

fn cls_label(c: &Cls) -> &'static str {
    match c {
        Cls::Good(_) => "answer",
        Cls::Definitive => "4xx",
        Cls::Transient(k) => k,
        Cls::Ambiguous => "malformed",
        Cls::KnownStop => "closed-mid-response",
        Cls::TcpTruncated(_) => "tcp-closed-mid-response",
        Cls::Unobservable => "refused",
    }
}

// ---------------------------------------------------------------------------
// scenario interpreter

/// Safety net before a failure is reported: every port that is supposed to
/// refuse must still refuse (nobody else listens on it).  Some(msg) = the
/// environment is not what the case assumes.
async fn refusing_ports_still_refuse(ports: &[(u16, bool)]) -> Option<String> {
    for (port, refuses) in ports {
        if *refuses {
            if let Ok(Ok(_)) = tokio::time::timeout(Duration::from_secs(20), tokio::net::TcpStream::connect(("127.0.0.1", *port))).await {
                return Some(format!("port {port} must refuse connections but something listens on it (foreign listener?)"));
            }
        }
    }
    None
}

struct Entry {
    fp: String,
    prev_client: bool,
}

struct Outcome {
    fail: Option<(String, String)>,
    classes: BTreeSet<&'static str>,
    known_hits: Vec<String>,
    nontrivial: bool,
}

const QUERY_WATCHDOG: Duration = Duration::from_secs(200);

async fn scenario(c: &Case, known: &Known) -> Result<Outcome, String> {
    let mut out = Outcome { fail: None, classes: BTreeSet::new(), known_hits: Vec::new(), nontrivial: false };
    let sh = Arc::new(Shared::default());
    let mut hb = c.h.clone();
    let mut pb = c.p.clone();
    let mut tb = c.t.clone();
    let mut hs = Slot::start(0, AnyBeh::Http(hb.clone()), sh.clone(), c.content_seed).await.map_err(|e| format!("mock start: {e}"))?;
    let mut ps = Slot::start(1, AnyBeh::Http(pb.clone()), sh.clone(), c.content_seed).await.map_err(|e| format!("mock start: {e}"))?;
    let mut ts = Slot::start(2, AnyBeh::Tcp(tb.clone()), sh.clone(), c.content_seed).await.map_err(|e| format!("mock start: {e}"))?;
    let ports = [hs.port, ps.port, ts.port];
    let tmp = if c.cache_dir { Some(tempfile::tempdir().map_err(|e| format!("tempdir: {e}"))?) } else { None };
    let cdir = tmp.as_ref().map(|t| t.path().join("cache"));
    let mut client = match make_client(ports, cdir.as_deref(), c.ttl_1h, c.disabled) {
        Ok(c) => c,
        Err(e) => {
            out.fail = Some(("C13:client:constructor-rejects-documented-configuration".into(), format!("ttl_1h={:?} cache_dir={} -> {e}", c.ttl_1h, c.cache_dir)));
            return Ok(out);
        }
    };
    let eps = endpoints(c.class);
    let mut model: BTreeMap<&'static str, Entry> = BTreeMap::new();
    let mut ever_stored = false;
    let mut trace: Vec<String> = Vec::new();
    let mut queries = 0u32;
    let mut failed_before = false;

    macro_rules! fail {
        ($key:expr, $msg:expr) => {{
            let refusing = [(ports[0], hb == HttpBeh::Refuse), (ports[1], pb == HttpBeh::Refuse), (ports[2], tb == TcpBeh::Refuse)];
            if let Some(m) = refusing_ports_still_refuse(&refusing).await {
                return Err(m);
            }
            out.fail = Some(($key.to_string(), format!("{} | trace: {}", $msg, trace.join(" ; "))));
            return Ok(out);
        }};
    }

    for op in &c.script {
        match op {
            Op::FlipH(b) => {
                hb = b.clone();
                hs.set(AnyBeh::Http(b.clone())).await.map_err(|e| format!("mock flip: {e}"))?;
                trace.push(format!("HTTPS:={}", cls_label(&cls_http(b, ""))));
            }
            Op::FlipP(b) => {
                pb = b.clone();
                ps.set(AnyBeh::Http(b.clone())).await.map_err(|e| format!("mock flip: {e}"))?;
                trace.push(format!("HTTP:={}", cls_label(&cls_http(b, ""))));
            }
            Op::FlipT(b) => {
                tb = b.clone();
                ts.set(AnyBeh::Tcp(b.clone())).await.map_err(|e| format!("mock flip: {e}"))?;
                trace.push(format!("TCP:={}", cls_label(&cls_tcp(b, ""))));
            }
            Op::NewClient => {
                drop(client);
                client = match make_client(ports, cdir.as_deref(), c.ttl_1h, c.disabled) {
                    Ok(c) => c,
                    Err(e) => fail!("C13:client:constructor-rejects-documented-configuration", format!("second client on the same configuration: {e}")),
                };
                if c.cache_dir {
                    for e in model.values_mut() {
                        e.prev_client = true;
                    }
                } else {
                    model.clear();
                }
                out.classes.insert("new-client");
                trace.push("new-client".into());
            }
            Op::Query { which } => {
                let ep = eps[*which as usize % 3];
                let tag = expected_tag(ep);
                queries += 1;
                if queries >= 2 {
                    out.nontrivial = true;
                }
                let before = sh.len();
                let res = match tokio::time::timeout(QUERY_WATCHDOG, client.query(ep)).await {
                    Ok(r) => r,
                    Err(_) => return Err(format!("watchdog: query({ep}) did not return within {QUERY_WATCHDOG:?}; trace: {}", trace.join(" ; "))),
                };
                let res: Result<String, String> = match res {
                    Ok(d) => Ok(fingerprint(&d)),
                    Err(e) => Err(format!("{e:?}")),
                };
                let logs = sh.since(before);
                let actual = dedup_slots(&logs);
                trace.push(format!(
                    "query({ep})->{} via [{}]",
                    match &res {
                        Ok(_) => "Ok".to_string(),
                        Err(e) => format!("Err({})", short(e)),
                    },
                    actual.iter().map(|s| slot_name(*s)).collect::<Vec<_>>().join(",")
                ));
                // requests must be about this endpoint
                for (s, what) in &logs {
                    if what != "<closed-at-accept>" && tag_of(what) != tag {
                        fail!("C13:failover:request-for-another-endpoint", format!("{} asked for {what:?} while querying {ep}", slot_name(*s)));
                    }
                }
                let flags: Vec<bool> = ttl_candidates(ep).iter().map(|i| c.ttl_1h[*i]).collect();
                let may_be_fresh = flags.iter().any(|f| *f);
                let must_be_fresh = flags.iter().all(|f| *f);
                let entry = model.get(ep);

                // --- served without traffic?
                if logs.is_empty() {
                    if let Ok(a) = &res {
                        match entry {
                            Some(e) if e.fp == *a => {
                                if may_be_fresh {
                                    out.classes.insert("cache-hit");
                                    if e.prev_client {
                                        out.classes.insert("cache-hit-in-new-client");
                                    }
                                    if failed_before {
                                        out.classes.insert("cache-hit-after-earlier-failure");
                                    }
                                    continue;
                                }
                                if e.prev_client && c.cache_dir {
                                    if known.is_open(KEY_NEWCLIENT) {
                                        out.known_hits.push(KEY_NEWCLIENT.into());
                                        return Ok(out); // the rest of the history runs on a cache in an unspecified state
                                    }
                                    fail!(KEY_NEWCLIENT, format!("TTL ZERO, yet query({ep}) of a new client on the same cache_dir was answered without any request"));
                                }
                                fail!("C13:cache:expired-answer-served-without-request", format!("TTL ZERO, yet query({ep}) was answered without any request"));
                            }
                            _ => {
                                if let Some((other, _)) = model.iter().find(|(k, e)| **k != ep && e.fp == *a) {
                                    fail!("C13:cache:answer-of-another-endpoint-served", format!("query({ep}) returned, without traffic, the answer cached for {other}"));
                                }
                                if entry.is_some() {
                                    fail!("C13:cache:cached-answer-differs-from-stored-answer", format!("query({ep}) without traffic returned {}", short(a)));
                                }
                                // falls through to the network table, which will name the problem
                            }
                        }
                    }
                }

                // --- network path
                if entry.is_some() && must_be_fresh {
                    let e = entry.unwrap();
                    if e.prev_client {
                        fail!("C13:cache:new-client-refetches-unexpired-answer-in-cache-dir", format!("TTL 1 h, query({ep}) went to the network: contacted [{}]", actual.iter().map(|s| slot_name(*s)).collect::<Vec<_>>().join(",")));
                    }
                    fail!("C13:cache:unexpired-answer-not-served-from-cache", format!("TTL 1 h, query({ep}) went to the network: contacted [{}], result {:?}", actual.iter().map(|s| slot_name(*s)).collect::<Vec<_>>().join(","), res.as_ref().map(|x| short(x)).map_err(|x| short(x))));
                }
                if entry.is_some() {
                    out.classes.insert("refetch-after-ttl-zero");
                }
                let chain: Vec<(u8, Cls)> = if tcp_only(ep) {
                    out.classes.insert("tcp-only-endpoint");
                    vec![(2, cls_tcp(&tb, &tag))]
                } else {
                    let mut ch = Vec::new();
                    if !c.disabled[0] {
                        ch.push((0, cls_http(&hb, &tag)));
                    }
                    if !c.disabled[1] {
                        ch.push((1, cls_http(&pb, &tag)));
                    }
                    ch.push((2, cls_tcp(&tb, &tag)));
                    ch
                };
                let mut effective_res = res.clone();
                match judge_network(&chain, &actual, &res) {
                    J::Pass(cl) => {
                        for x in cl {
                            out.classes.insert(x);
                            if x == "answer-after-failover" {
                                out.nontrivial = true;
                            }
                            if (x == "answer-after-failover" || x == "answer-first-try") && failed_before {
                                out.classes.insert("healthy-endpoint-contacted-after-failed-query");
                            }
                        }
                    }
                    J::Known(k) => {
                        if !known.is_open(k) {
                            if k == KEY_TRUNCATED {
                                fail!(k, format!("query({ep}): the Ribbit endpoint closed the connection in the middle of a V1 MIME answer ({:?}); the client returned Ok({}) instead of an error (complete answer: {})", tb, short(res.as_ref().map(|x| x.as_str()).unwrap_or("")), short(&doc_fp_of(&tb, &tag))));
                            }
                            fail!(k, format!("query({ep}): an HTTP endpoint closed the connection mid-response (a transient failure) and no further protocol was tried"));
                        }
                        out.known_hits.push(k.into());
                        effective_res = res.clone(); // the model follows what the client did
                    }
                    J::Fail(k, m) => fail!(k, format!("query({ep}): {m}")),
                    J::Infra(m) => return Err(m),
                }
                if let (Ok(a), TcpBeh::Answer { segs, .. }) = (&effective_res, &tb) {
                    if actual.last() == Some(&2) && !segs.is_empty() && *a == doc_fp_of(&tb, &tag) {
                        out.classes.insert("answer-over-split-tcp");
                        out.nontrivial = true;
                    }
                }
                match &effective_res {
                    Ok(a) => {
                        model.insert(ep, Entry { fp: a.clone(), prev_client: false });
                        ever_stored = true;
                    }
                    Err(_) => {
                        failed_before = true;
                        model.remove(ep);
                        // a failed or malformed answer is never cached
                        match client.cache().get(&format!("api/ribbit/{ep}")) {
                            Ok(Some(b)) => fail!("C13:cache:failed-query-left-a-cache-entry", format!("after the failed query({ep}) the cache holds {} bytes under its key", b.len())),
                            Ok(None) => {}
                            Err(e) => return Err(format!("cache get failed: {e:?}")),
                        }
                        if !ever_stored {
                            match client.cache().is_empty() {
                                Ok(true) => {}
                                Ok(false) => fail!("C13:cache:failed-query-left-a-cache-entry", format!("no query has succeeded so far, yet the cache is not empty after the failed query({ep})")),
                                Err(e) => return Err(format!("cache is_empty failed: {e:?}")),
                            }
                            if let Some(d) = &cdir {
                                let files = count_files(d);
                                if files > 0 {
                                    fail!("C13:cache:failed-query-left-a-cache-entry", format!("no query has succeeded so far, yet the cache directory holds {files} file(s) after the failed query({ep})"));
                                }
                            }
                        }
                    }
                }
            }
        }
    }
    Ok(out)
}

fn doc_fp_of(t: &TcpBeh, tag: &str) -> String {
    match t {
        TcpBeh::Answer { doc: d, rows, .. } | TcpBeh::CloseMid { doc: d, rows, .. } => doc(*d, *rows, tag).1,
        _ => String::new(),
    }
}

fn count_files(d: &std::path::Path) -> usize {
    let mut n = 0;
    let mut stack = vec![d.to_path_buf()];
    while let Some(p) = stack.pop() {
        if let Ok(rd) = std::fs::read_dir(&p) {
            for e in rd.flatten() {
                let p = e.path();
                if p.is_dir() {
                    stack.push(p);
                } else {
                    n += 1;
                }
            }
        }
    }
    n
}


/// A failure is reported only when it reproduces: the case is deterministic up to the
/// kernel/scheduler, so a failure that two further executions do not show again is
/// infrastructure trouble (reported as such, with its details), never a verdict.
fn stable(section: &'static str, run: impl Fn() -> Verdict) -> Verdict {
    let once = || match vh_engine::util::catch_panic(&run) {
        Ok(v) => v,
        Err(p) => Verdict::fail(format!("C13:{section}:panic:{}:{}", p.file, p.norm_msg()), format!("panic at {}:{}: {}", p.file, p.line, p.msg)),
    };
    let first = once();
    let Some(f) = first.fail.clone() else { return first };
    for _ in 0..2 {
        let again = once();
        if again.fail.as_ref().is_some_and(|g| g.key == f.key) {
            return again;
        }
    }
    {
        let mut g = TRANSIENT.lock().unwrap();
        if g.len() < 20 {
            g.push(format!("section {section}: a failure did not reproduce in two further executions: key={} msg={}", f.key, short_n(&f.msg, 600)));
        }
    }
    Verdict::pass().class("failure-not-reproduced-on-re-execution")
}

fn short_n(s: &str, n: usize) -> String {
    if s.len() > n { format!("{}…", &s[..s.char_indices().take(n).last().map(|x| x.0).unwrap_or(0)]) } else { s.to_string() }
}

fn runtime() -> tokio::runtime::Runtime {
    tokio::runtime::Builder::new_current_thread().enable_all().build().expect("tokio runtime")
}

// ---------------------------------------------------------------------------
// time-to-live is counted from the fetch, not from the last hit
// ---------------------------------------------------------------------------

#[derive(Debug, Clone, Serialize, Deserialize)]
struct TtlCase {
    /// 0 versions, 1 cdns, 2 bgdl
    class: u8,
    cache_dir: bool,
    ttl_ms: u16,
    /// a second query (expected: a cache hit) this long after the first answer
    hit_after_ms: u16,
    content_seed: u64,
}

/// "A successful answer is served from the cache until its time-to-live ends": an answer fetched
/// at t0 must not be served at t2 > t0 + TTL, even if it was hit in between. Real time is used,
/// but only in the sound direction: slowness of the machine can only make t2 later (the verdict
/// needs the answer to be *still served* after it must have expired); if the intermediate query
/// was not a hit (because the machine was too slow) the case is inconclusive, not a failure.
async fn ttl_restart(c: &TtlCase) -> Result<Verdict, String> {
    let sh = Arc::new(Shared::default());
    let good = HttpBeh::Answer { doc: 3, rows: 2, chunked: false };
    let hs = Slot::start(0, AnyBeh::Http(good.clone()), sh.clone(), c.content_seed).await.map_err(|e| format!("mock start: {e}"))?;
    let ps = Slot::start(1, AnyBeh::Http(good.clone()), sh.clone(), c.content_seed).await.map_err(|e| format!("mock start: {e}"))?;
    let ts = Slot::start(2, AnyBeh::Tcp(TcpBeh::Refuse), sh.clone(), c.content_seed).await.map_err(|e| format!("mock start: {e}"))?;
    let tmp = if c.cache_dir { Some(tempfile::tempdir().map_err(|e| format!("tempdir: {e}"))?) } else { None };
    let ttl = Duration::from_millis(c.ttl_ms as u64);
    let cfg = ClientConfig {
        tact_https_url: format!("http://127.0.0.1:{}", hs.port),
        tact_http_url: format!("http://127.0.0.1:{}", ps.port),
        ribbit_url: format!("tcp://127.0.0.1:{}", ts.port),
        cache_config: CacheConfig { cache_dir: tmp.as_ref().map(|t| t.path().join("cache")), ribbit_ttl: ttl, cdn_ttl: ttl, config_ttl: ttl, ..CacheConfig::default() },
        ..ClientConfig::default()
    };
    let client = RibbitTactClient::new(cfg).map_err(|e| format!("{e:?}"))?;
    let ep = endpoints(c.class % 3)[0];
    let v = Verdict::pass().nontrivial(true);
    if client.query(ep).await.is_err() {
        return Ok(v.class("inconclusive:first-query-failed"));
    }
    let stored_by = Instant::now(); // the entry was stored no later than now
    let n1 = sh.len();
    tokio::time::sleep(Duration::from_millis(c.hit_after_ms as u64)).await;
    if client.query(ep).await.is_err() {
        return Ok(v.class("inconclusive:second-query-failed"));
    }
    let n2 = sh.len();
    if n2 != n1 {
        // the machine was too slow (the entry had expired already): nothing can be concluded
        return Ok(v.class("inconclusive:second-query-was-not-a-hit"));
    }
    // wait until the entry fetched by the first query has certainly expired
    let deadline = stored_by + ttl + Duration::from_millis(300);
    let now = Instant::now();
    if deadline > now {
        tokio::time::sleep(deadline - now).await;
    }
    let waited = stored_by.elapsed();
    if client.query(ep).await.is_err() {
        return Ok(v.class("inconclusive:third-query-failed"));
    }
    let n3 = sh.len();
    drop((hs, ps, ts));
    if n3 == n2 {
        return Ok(v.with_fail(
            "C13:cache:expired-answer-served:hit-inside-ttl-restarts-the-time-to-live",
            format!(
                "{ep}: TTL {} ms; fetched once, hit after {} ms, and {} ms after the fetch (TTL over) the query is still answered from the cache without any request",
                c.ttl_ms,
                c.hit_after_ms,
                waited.as_millis()
            ),
        ));
    }
    Ok(v.class("refetched-after-ttl"))
}

fn check_ttl(c: &TtlCase) -> Verdict {
    let rt = runtime();
    let r = rt.block_on(ttl_restart(c));
    drop(rt);
    match r {
        Err(m) => {
            infra(m);
            Verdict::pass()
        }
        Ok(v) => v,
    }
}

fn check_scenario(c: &Case, known: &Known) -> Verdict {
    let rt = runtime();
    let r = rt.block_on(scenario(c, known));
    drop(rt); // cancels every mock task, closes every socket of the case
    match r {
        Err(m) => {
            infra(m);
            Verdict::pass()
        }
        Ok(o) => {
            let mut v = Verdict::pass().nontrivial(o.nontrivial);
            for cl in o.classes {
                v = v.class(cl);
            }
            v = v.class_if(c.cache_dir, "cache-dir").class_if(!c.cache_dir, "memory-cache").class_if(c.disabled != [false; 2], "configuration-without-a-tact-endpoint");
            v.known_hits = o.known_hits;
            if let Some((k, m)) = o.fail {
                v = v.with_fail(k, m);
            }
            v
        }
    }
}

// ---------------------------------------------------------------------------
// packet splits

async fn split_case(c: &SplitCase) -> Result<Outcome, String> {
    let mut out = Outcome { fail: None, classes: BTreeSet::new(), known_hits: Vec::new(), nontrivial: false };
    let sh = Arc::new(Shared::default());
    let hs = Slot::start(0, AnyBeh::Http(HttpBeh::Refuse), sh.clone(), c.content_seed).await.map_err(|e| format!("mock start: {e}"))?;
    let ps = Slot::start(1, AnyBeh::Http(HttpBeh::Refuse), sh.clone(), c.content_seed).await.map_err(|e| format!("mock start: {e}"))?;
    let whole = TcpBeh::Answer { doc: c.doc, rows: c.rows, fmt: c.fmt, segs: Vec::new() };
    let mut ts = Slot::start(2, AnyBeh::Tcp(whole), sh.clone(), c.content_seed).await.map_err(|e| format!("mock start: {e}"))?;
    let ports = [hs.port, ps.port, ts.port];
    let ep = if c.via_chain { "v1/products/wow/versions" } else { "v1/summary" };
    let tag = expected_tag(ep);
    let (body, want) = doc(c.doc, c.rows, &tag);
    let resp = wire(&body, &tag, c.fmt, c.content_seed);
    let cuts = resolve(&c.points, &resp);
    let mut results: Vec<Result<String, String>> = Vec::new();
    for round in 0..2 {
        if round == 1 {
            let split = TcpBeh::Answer { doc: c.doc, rows: c.rows, fmt: c.fmt, segs: c.points.clone() };
            ts.set(AnyBeh::Tcp(split)).await.map_err(|e| format!("mock flip: {e}"))?;
        }
        // a fresh client (memory cache) per round: the cache plays no part here
        let client = make_client(ports, None, [true; 3], [false; 2])?;
        let r = match tokio::time::timeout(QUERY_WATCHDOG, client.query(ep)).await {
            Ok(r) => r,
            Err(_) => return Err(format!("watchdog: split query did not return ({c:?})")),
        };
        results.push(match r {
            Ok(d) => Ok(fingerprint(&d)),
            Err(e) => Err(format!("{e:?}")),
        });
    }
    let describe = |r: &Result<String, String>| match r {
        Ok(a) => format!("Ok({})", short(a)),
        Err(e) => format!("Err({})", short(e)),
    };
    let failed = results[0].as_ref().ok() != Some(&want) || results[1].as_ref().ok() != results[0].as_ref().ok();
    if failed {
        if let Some(m) = refusing_ports_still_refuse(&[(ports[0], true), (ports[1], true)]).await {
            return Err(m);
        }
        let log = sh.since(0);
        if log.iter().any(|(s, _)| *s != 2) {
            return Err(format!("split case: unexpected request log {log:?} for {c:?}"));
        }
    }
    if results[0].as_ref().ok() != Some(&want) {
        out.fail = Some((
            format!("C13:ribbit:valid-answer-not-returned:{}", fmt_name(c.fmt)),
            format!("unsplit {} response of {} bytes for {ep}: got {}, expected Ok({})", fmt_name(c.fmt), resp.len(), describe(&results[0]), short(&want)),
        ));
        return Ok(out);
    }
    if results[1].as_ref().ok() != results[0].as_ref().ok() {
        out.fail = Some((
            format!("C13:split:answer-depends-on-segmentation:{}", if fmt_is_mime(c.fmt) { "mime" } else { "raw" }),
            format!("{} response of {} bytes for {ep} sent in segments cut at {:?}: got {}, unsplit gave {}", fmt_name(c.fmt), resp.len(), cuts, describe(&results[1]), describe(&results[0])),
        ));
        return Ok(out);
    }
    let head_end = resp.windows(4).position(|w| w == b"\r\n\r\n").or_else(|| resp.windows(2).position(|w| w == b"\n\n")).unwrap_or(0);
    out.nontrivial = cuts.iter().any(|&x| x > head_end) || (!fmt_is_mime(c.fmt) && !cuts.is_empty());
    out.classes.insert(fmt_name(c.fmt));
    if cuts.len() >= 2 {
        out.classes.insert("multi-split");
    }
    if cuts.iter().any(|&x| resp[..x].ends_with(b"\n\n")) {
        out.classes.insert("cut-right-after-blank-line");
    }
    if cuts.iter().any(|&x| x < 64) {
        out.classes.insert("cut-before-content-type-header-complete");
    }
    if resp.len() > 8192 {
        out.classes.insert("response>8KiB");
    }
    if c.via_chain {
        out.classes.insert("via-fallback-chain");
    }
    Ok(out)
}

fn check_split(c: &SplitCase) -> Verdict {
    let rt = runtime();
    let r = rt.block_on(split_case(c));
    drop(rt);
    match r {
        Err(m) => {
            infra(m);
            Verdict::pass()
        }
        Ok(o) => {
            let mut v = Verdict::pass().nontrivial(o.nontrivial);
            for cl in o.classes {
                v = v.class(cl);
            }
            if let Some((k, m)) = o.fail {
                v = v.with_fail(k, m);
            }
            v
        }
    }
}

// ---------------------------------------------------------------------------
// generators

fn rows_st() -> impl Strategy<Value = u8> {
    prop_oneof![6 => 1u8..=3, 1 => Just(20u8), 1 => Just(150u8), 2 => Just(0u8)]
}

fn http_st(stall: bool) -> BoxedStrategy<HttpBeh> {
    let base = prop_oneof![
        5 => (any::<u8>(), rows_st(), any::<bool>()).prop_map(|(doc, rows, chunked)| HttpBeh::Answer { doc, rows, chunked }),
        4 => (proptest::sample::select(vec![500u16, 502, 503, 504, 501, 505, 507, 508, 511, 520, 599, 429, 429, 429]), proptest::option::of(prop_oneof![3 => 0u16..2, 2 => 1000u16..1007]), proptest::bool::weighted(0.25))
            .prop_map(|(code, retry_after, bpsv_body)| HttpBeh::Status { code, retry_after: if code == 429 || code == 503 { retry_after } else { None }, bpsv_body }),
        3 => (proptest::sample::select(vec![400u16, 401, 403, 404, 410]), proptest::bool::weighted(0.25))
            .prop_map(|(code, bpsv_body)| HttpBeh::Status { code, retry_after: None, bpsv_body }),
        2 => (0u8..N_HTTP_MALFORMED).prop_map(|kind| HttpBeh::Malformed { kind }),
        1 => (proptest::sample::select(vec![301u16, 302, 307, 308]), any::<u8>(), rows_st()).prop_map(|(code, doc, rows)| HttpBeh::Redirect { code, doc, rows }),
        3 => Just(HttpBeh::Refuse),
        2 => (0u8..3, any::<u16>()).prop_map(|(stage, at)| HttpBeh::CloseMid { stage, at }),
    ];
    if stall { prop_oneof![3 => base, 2 => Just(HttpBeh::Stall)].boxed() } else { base.boxed() }
}

fn pts_st(max: usize) -> impl Strategy<Value = Vec<Pt>> {
    proptest::collection::vec(
        prop_oneof![
            4 => any::<u16>().prop_map(|v| Pt { kind: 0, v }),
            3 => any::<u16>().prop_map(|v| Pt { kind: 1, v }),
            2 => any::<u16>().prop_map(|v| Pt { kind: 2, v }),
        ],
        0..=max,
    )
}

fn tcp_st(stall: bool) -> BoxedStrategy<TcpBeh> {
    let base = prop_oneof![
        7 => (any::<u8>(), rows_st(), 0u8..N_FMT, pts_st(3)).prop_map(|(doc, rows, fmt, segs)| TcpBeh::Answer { doc, rows, fmt, segs }),
        2 => (0u8..N_TCP_MALFORMED).prop_map(|kind| TcpBeh::Malformed { kind }),
        2 => Just(TcpBeh::Refuse),
        2 => (any::<u8>(), 1u8..=3, any::<u16>()).prop_map(|(doc, rows, at)| TcpBeh::CloseMid { doc, rows, at }),
    ];
    if stall { prop_oneof![3 => base, 2 => Just(TcpBeh::Stall)].boxed() } else { base.boxed() }
}

fn op_st() -> BoxedStrategy<Op> {
    prop_oneof![
        8 => prop_oneof![6 => Just(0u8), 2 => Just(1u8), 2 => Just(2u8)].prop_map(|which| Op::Query { which }),
        1 => http_st(false).prop_map(Op::FlipH),
        1 => http_st(false).prop_map(Op::FlipP),
        1 => tcp_st(false).prop_map(Op::FlipT),
        2 => Just(Op::NewClient),
    ]
    .boxed()
}

fn ttl_st() -> impl Strategy<Value = [bool; 3]> {
    prop_oneof![3 => Just([true; 3]), 3 => Just([false; 3]), 2 => any::<[bool; 3]>()]
}

fn case_st() -> BoxedStrategy<Case> {
    let disabled = prop_oneof![8 => Just([false, false]), 1 => Just([true, false]), 1 => Just([false, true]), 1 => Just([true, true])];
    (0u8..5, any::<bool>(), ttl_st(), http_st(false), http_st(false), tcp_st(false), proptest::collection::vec(op_st(), 1..=7), any::<u64>(), disabled)
        .prop_map(|(class, cache_dir, ttl_1h, h, p, t, mut script, content_seed, disabled)| {
            script.insert(0, Op::Query { which: 0 });
            script.push(Op::Query { which: 0 });
            Case { class, cache_dir, ttl_1h, h, p, t, script, content_seed, disabled }
        })
        .boxed()
}

fn stall_case_st() -> BoxedStrategy<Case> {
    (0u8..5, any::<bool>(), http_st(true), http_st(true), tcp_st(true), any::<u64>())
        .prop_map(|(class, cache_dir, h, p, t, content_seed)| Case {
            class,
            cache_dir,
            ttl_1h: [true; 3],
            h,
            p,
            t,
            script: vec![Op::Query { which: 0 }, Op::Query { which: 0 }],
            content_seed,
            disabled: [false; 2],
        })
        .boxed()
}

fn split_random_st() -> BoxedStrategy<SplitCase> {
    (any::<u8>(), prop_oneof![3 => 1u8..=4, 2 => Just(20u8), 3 => 150u8..=250], 0u8..N_FMT, any::<bool>(), pts_st(6), any::<u64>())
        .prop_map(|(doc, rows, fmt, via_chain, mut points, content_seed)| {
            if points.is_empty() {
                points.push(Pt { kind: 0, v: (content_seed >> 16) as u16 });
            }
            SplitCase { doc, rows, fmt, via_chain, points, content_seed }
        })
        .boxed()
}

/// Every split point of one small response per wire format.
fn sweep(seed: u64, pairs: bool) -> Vec<SplitCase> {
    let mut v = Vec::new();
    for fmt in 0..N_FMT {
        let via_chain = fmt % 2 == 1;
        let ep = if via_chain { "v1/products/wow/versions" } else { "v1/summary" };
        let tag = expected_tag(ep);
        let docid = (seed as u8).wrapping_add(fmt);
        let content_seed = seed ^ ((fmt as u64) << 40);
        let len = wire(&doc(docid, 1, &tag).0, &tag, fmt, content_seed).len();
        for p in 1..len {
            v.push(SplitCase { doc: docid, rows: 1, fmt, via_chain, points: vec![Pt { kind: 3, v: p as u16 }], content_seed });
        }
        if pairs {
            // every pair of split points for the raw formats, every close pair (distance <= 3) for the others
            for p in 1..len {
                for q in p + 1..len {
                    if !fmt_is_mime(fmt) || q - p <= 3 {
                        v.push(SplitCase { doc: docid, rows: 1, fmt, via_chain, points: vec![Pt { kind: 3, v: p as u16 }, Pt { kind: 3, v: q as u16 }], content_seed });
                    }
                }
            }
        }
    }
    v
}

// ---------------------------------------------------------------------------

fn self_test() -> Vec<String> {
    use cascette_formats::CascFormat;
    let mut bad = Vec::new();
    for k in 0..N_HTTP_MALFORMED {
        if <BpsvDocument as CascFormat>::parse(&http_malformed(k)).is_ok() {
            bad.push(format!("HTTP malformed body {k} is accepted by the BPSV parser"));
        }
    }
    let (text, fp) = doc(5, 3, "wow/versions");
    match <BpsvDocument as CascFormat>::parse(text.as_bytes()) {
        Ok(d) if fingerprint(&d) == fp => {}
        Ok(d) => bad.push(format!("sample document parses to {} instead of {fp}", fingerprint(&d))),
        Err(e) => bad.push(format!("sample document is rejected by the BPSV parser: {e}")),
    }
    bad
}

fn drain_infra(ck: &mut Check) {
    let msgs: Vec<String> = std::mem::take(&mut *INFRA.lock().unwrap());
    for m in msgs {
        ck.infra(m);
    }
    let notes: Vec<String> = std::mem::take(&mut *TRANSIENT.lock().unwrap());
    for m in notes {
        ck.note_transient(m);
    }
}

fn main() {
    // loopback only: never route the mock traffic through a proxy
    for k in ["HTTP_PROXY", "http_proxy", "HTTPS_PROXY", "https_proxy", "ALL_PROXY", "all_proxy"] {
        // SAFETY: single-threaded at this point
        unsafe { std::env::remove_var(k) };
    }
    let mut ck = Check::from_args("C13", "exploration");
    let tier = ck.tier;
    let seed = ck.seed;
    ck.extra(
        "rule",
        "generated behaviour assignment (valid BPSV / V1 MIME in 8 wire formats, 5xx, 429 +/- Retry-After, 4xx, 200 + malformed body, refused, closed mid-response, thorough: stall) \
         for 3 loopback mock endpoints x endpoint class x query script (query, flip, new client); oracle = decision table of the statement on the mocks' request log and the returned value. \
         non-trivial = at least one failed endpoint before the returned answer, or a second query in the script, or a TCP answer delivered in segments cut inside the body; distinct by case hash"
            .into(),
    );
    ck.assume("TLS is not exercised: the TACT \"HTTPS\" slot is served over plain HTTP (TactClient::new ignores its use_https flag and takes any base URL)");
    ck.assume("packet splits are requested with TCP_NODELAY and a 2 ms pause between segments on a single-threaded runtime; the kernel may still coalesce segments (evidence reports the segmentation asked for)");
    ck.assume("an attempt against a refusing port leaves no trace; contact of such an endpoint is not asserted");
    ck.assume("for bgdl/summary/certs either ribbit_ttl or config_ttl is accepted as the governing TTL (rustdoc is not explicit); TTLs are ZERO or 1 h only");
    ck.assume("\"closed mid-response\" on the Ribbit endpoint always cuts a V1 MIME answer (closing boundary and checksum make the cut detectable); raw V2 text has no framing and is never cut");
    ck.assume("quick tier never waits for a client timeout (TactClient and RibbitClient hard-code 30 s / 10 s and ignore ClientConfig timeouts); stalls run in the thorough tier only");
    let bad = self_test();
    if !bad.is_empty() {
        for b in bad {
            ck.infra(format!("self-test: {b}"));
        }
        ck.finish();
    }

    ck.run(
        Section::enumerate(
            "ttl-counted-from-fetch",
            "versions/cdns/bgdl x memory cache / cache directory x TTL {1200, 2000} ms with one hit inside the TTL: the answer must be refetched once the TTL counted from the FETCH is over",
            || {
                Box::new((0u8..3).flat_map(|class| {
                    [false, true].into_iter().flat_map(move |cache_dir| {
                        [(1200u16, 500u16), (2000, 1300)].into_iter().map(move |(ttl_ms, hit_after_ms)| TtlCase { class, cache_dir, ttl_ms, hit_after_ms, content_seed: 7 + class as u64 })
                    })
                }))
            },
            check_ttl,
        )
        .shards(12),
    );
    drain_infra(&mut ck);

    let known = ck.known().clone();
    let k1 = known.clone();
    ck.run(Section::pbt("scenarios", tier.pick(2_000, 60_000), case_st, move |c: &Case| stable("scenarios", || check_scenario(c, &k1))).shards(12).shrink_iters(400));
    drain_infra(&mut ck);

    ck.run(
        Section::enumerate(
            "tcp-split-sweep",
            format!(
                "every single split point{} of one small (1-row) answer per wire format (8 formats: V1 MIME CRLF / +base64 signature / +binary signature / cascette-ribbit server format / LF / no checksum, raw text ended by blank line / by close), TCP-only endpoint and fallback chain alternating",
                tier.pick("", " (thorough: plus every pair of split points for the two raw formats and every pair at distance <= 3 for the MIME formats)")
            ),
            move || Box::new(sweep(seed, tier == vh_engine::Tier::Thorough).into_iter()),
            |c: &SplitCase| stable("tcp-split-sweep", || check_split(c)),
        )
        .shards(12),
    );
    drain_infra(&mut ck);

    ck.run(Section::pbt("tcp-split-random", tier.pick(600, 40_000), split_random_st, |c: &SplitCase| stable("tcp-split-random", || check_split(c))).shards(12).shrink_iters(300));
    drain_infra(&mut ck);

    // CdnClient::download: what is not the content is never stored
    ck.run(
        Section::enumerate(
            "cdn-download-cache",
            "first answer of the loopback CDN in {content, 300, 301/308/399 without Location, 304, 305, 306, 400, 403, 404, 410, 416, 429 + Retry-After: 0, 500, 503, connection closed inside the body} x memory cache / cache directory x second download by the same / by a new client x content type: once the server is healthy the second download asks it and returns the content; content is served from the cache without a request",
            || Box::new(cdn::all_cases().into_iter()),
            |c: &cdn::CdnCase| stable("cdn-download-cache", || cdn::check(c)),
        )
        .shards(16),
    );
    drain_infra(&mut ck);

    if tier == vh_engine::Tier::Thorough || ck.is_replay() {
        let k2 = known.clone();
        ck.run(Section::pbt("stall", 48, stall_case_st, move |c: &Case| stable("stall", || check_scenario(c, &k2))).shards(16).shrink_iters(0));
        drain_infra(&mut ck);
    }
    // no mock task, socket or thread may outlive its case: what is left at the end is the
    // process baseline (stdio, the protocol crate's shared cache runtime)
    let count = |p: &str| std::fs::read_dir(p).map(|d| d.count()).unwrap_or(0);
    ck.extra("resources_at_end", serde_json::json!({"open_fds": count("/proc/self/fd"), "threads": count("/proc/self/task")}));
    ck.finish();
}
