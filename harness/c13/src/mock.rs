//! Loopback mock endpoints owned by the harness: a minimal HTTP/1.1 server and a
//! Ribbit TCP server on tokio, with behaviours, request log and segmentation
//! under the control of the generated case.
//!
//! "Connection refused" is produced without ever giving the port away: every
//! worker thread keeps three bound, non-listening sockets (SO_REUSEPORT, no SO_REUSEADDR)
//! for all its cases, and a second socket on the same port listens only while the
//! behaviour of the slot is not `Refuse`.  A SYN to a port without a listening socket is answered with
//! RST, and no other process can be handed the port in between.

use serde::{Deserialize, Serialize};
use sha2::{Digest, Sha256};
use std::sync::{Arc, Mutex};
use std::time::Duration;
use tokio::io::{AsyncReadExt, AsyncWriteExt};
use tokio::net::{TcpListener, TcpSocket, TcpStream};
use tokio::task::JoinHandle;
use vh_engine::pick_idx;
use vh_engine::util::Rng;

pub const N_HTTP_MALFORMED: u8 = 6;
pub const N_TCP_MALFORMED: u8 = 4;
pub const N_FMT: u8 = 10;

#[derive(Debug, Clone, Serialize, Deserialize, PartialEq)]
pub enum HttpBeh {
    /// 200 + valid BPSV (document derived from `doc`, `rows` and the requested path)
    Answer { doc: u8, rows: u8, chunked: bool },
    /// status line `code`; optional Retry-After (seconds; values from 1000 select one of the other
    /// spellings of `retry_after_text`); body is either a short text or a *valid* BPSV table
    Status { code: u16, retry_after: Option<u16>, bpsv_body: bool },
    /// 200 + a body the BPSV parser rejects
    Malformed { kind: u8 },
    /// nothing listens on the port
    Refuse,
    /// stage 0: close right after accept; 1: close inside the response head; 2: close inside the body
    CloseMid { stage: u8, at: u16 },
    /// read the request, never answer (thorough tier only)
    Stall,
    /// `code` (301 / 302 / 307 / 308) with a Location on the same server, where the valid table is:
    /// an HTTP client follows it; the answer is the table
    Redirect { code: u16, doc: u8, rows: u8 },
}

/// One requested split point of a TCP response.
#[derive(Debug, Clone, Copy, Serialize, Deserialize, PartialEq)]
pub struct Pt {
    /// 0: fraction of the length; 1: right after the n-th blank line ("\n\n" or "\r\n\r\n");
    /// 2: around the client's magic offsets (512, 8192, end); 3: absolute offset
    pub kind: u8,
    pub v: u16,
}

#[derive(Debug, Clone, Serialize, Deserialize, PartialEq)]
pub enum TcpBeh {
    /// a valid answer in wire format `fmt` (see `wire`), sent in the requested segments
    Answer { doc: u8, rows: u8, fmt: u8, segs: Vec<Pt> },
    Malformed { kind: u8 },
    Refuse,
    /// valid V1 MIME answer cut after `at` (fraction) bytes, then close
    CloseMid { doc: u8, rows: u8, at: u16 },
    Stall,
}

#[derive(Debug, Clone)]
pub enum AnyBeh {
    Http(HttpBeh),
    Tcp(TcpBeh),
}

impl AnyBeh {
    fn refuses(&self) -> bool {
        matches!(self, AnyBeh::Http(HttpBeh::Refuse) | AnyBeh::Tcp(TcpBeh::Refuse))
    }
}

#[derive(Default)]
pub struct Shared {
    /// (slot, request path / command) in order of arrival
    pub log: Mutex<Vec<(u8, String)>>,
}

impl Shared {
    fn push(&self, slot: u8, what: String) {
        self.log.lock().unwrap().push((slot, what));
    }
    pub fn len(&self) -> usize {
        self.log.lock().unwrap().len()
    }
    pub fn since(&self, n: usize) -> Vec<(u8, String)> {
        self.log.lock().unwrap()[n..].to_vec()
    }
}

// ---------------------------------------------------------------------------
// documents and wire formats

/// What the answer is about: derived from the HTTP path or the TCP command, so
/// that an answer for another product/file is never equal to the expected one.
pub fn tag_of(req: &str) -> String {
    let r = req.trim().trim_start_matches('/');
    r.strip_prefix("v1/products/").unwrap_or(r).to_string()
}

const REGIONS: [&str; 7] = ["us", "eu", "kr", "cn", "tw", "sg", "xx"];

/// BPSV text (LF line ends, trailing newline) and its canonical fingerprint,
/// built without the code under test.
pub fn doc(id: u8, rows: u8, tag: &str) -> (String, String) {
    let mut text = String::from("Region!STRING:0|BuildConfig!HEX:16|BuildId!DEC:4|Tag!STRING:0\n");
    let mut fp = String::from("Region!STRING:0|BuildConfig!HEX:16|BuildId!DEC:4|Tag!STRING:0");
    let seqn = 1000 + id as u32;
    text.push_str(&format!("## seqn = {seqn}\n"));
    fp.push_str(&format!(";seqn=Some({seqn})"));
    // rows == 0: a header-only table (what bgdl answers for most products): well-formed
    for i in 0..rows as u32 {
        let region = if i < 7 { REGIONS[i as usize].to_string() } else { format!("r{i}") };
        let empty_hex = (id as u32 + i) % 5 == 0;
        let hexv = if empty_hex {
            String::new()
        } else {
            let mut r = Rng::new(((id as u64) << 32) | i as u64);
            hex::encode(r.bytes(16))
        };
        let build = id as u32 * 1000 + i;
        text.push_str(&format!("{region}|{hexv}|{build}|{tag}\n"));
        let h = if empty_hex { "E".to_string() } else { format!("H:{hexv}") };
        fp.push_str(&format!(";[S:{region}|{h}|D:{build}|S:{tag}]"));
    }
    (text, fp)
}

fn disposition_of(tag: &str) -> &'static str {
    if tag.contains("versions") {
        "version"
    } else if tag.contains("cdns") {
        "cdns"
    } else if tag.contains("bgdl") {
        "bgdl"
    } else if tag.contains("summary") {
        "summary"
    } else if tag.contains("ocsp") {
        "ocsp"
    } else {
        "cert"
    }
}

pub fn fmt_name(fmt: u8) -> &'static str {
    match fmt % N_FMT {
        0 => "mime-crlf",
        1 => "mime-crlf-base64-signature",
        2 => "mime-crlf-binary-signature",
        3 => "mime-repo-server-format",
        4 => "mime-lf",
        5 => "mime-crlf-no-checksum",
        6 => "raw-terminated-by-blank-line",
        7 => "raw-terminated-by-close",
        8 => "mime-crlf-epilogue-behind-closing-delimiter",
        _ => "mime-crlf-epilogue-no-checksum",
    }
}

pub fn fmt_is_mime(fmt: u8) -> bool {
    fmt % N_FMT <= 5 || fmt % N_FMT >= 8
}

/// The bytes a Ribbit server sends for `body` (BPSV text) in wire format `fmt`.
pub fn wire(body: &str, tag: &str, fmt: u8, seed: u64) -> Vec<u8> {
    let fmt = fmt % N_FMT;
    match fmt {
        6 => return format!("{body}\n").into_bytes(),
        7 => return body.as_bytes().to_vec(),
        _ => {}
    }
    let mut out: Vec<u8> = Vec::new();
    if fmt == 3 {
        // what cascette-ribbit's own TCP v1 server sends (tcp/v1.rs wrap_in_mime)
        let b = "RibbitBoundary";
        out.extend_from_slice(
            format!(
                "MIME-Version: 1.0\r\nContent-Type: multipart/alternative; boundary=\"{b}\"\r\n\r\n--{b}\r\nContent-Type: text/plain\r\nContent-Disposition: data\r\n\r\n{}\r\n--{b}--\r\n",
                body.trim_end_matches('\n')
            )
            .as_bytes(),
        );
    } else {
        let b = "a1b2c3";
        let disp = disposition_of(tag);
        out.extend_from_slice(
            format!(
                "MIME-Version: 1.0\r\nContent-Type: multipart/alternative; boundary=\"{b}\"\r\nFrom: Test/1.0\r\n\r\n--{b}\r\nContent-Type: text/plain\r\nContent-Disposition: {disp}\r\n\r\n{body}\r\n"
            )
            .as_bytes(),
        );
        match fmt {
            1 => {
                let sig = hex::encode(Rng::new(seed).bytes(48)); // hex digits are valid base64 text
                out.extend_from_slice(
                    format!("--{b}\r\nContent-Type: application/octet-stream\r\nContent-Disposition: signature\r\nContent-Transfer-Encoding: base64\r\n\r\n{sig}\r\n").as_bytes(),
                );
            }
            2 => {
                out.extend_from_slice(format!("--{b}\r\nContent-Type: application/octet-stream\r\nContent-Disposition: signature\r\n\r\n").as_bytes());
                let mut sig = Rng::new(seed).bytes(256);
                for x in &mut sig {
                    if *x == b'-' {
                        *x = b'.'; // never a boundary
                    }
                }
                out.extend_from_slice(&sig);
                out.extend_from_slice(b"\r\n");
            }
            _ => {}
        }
        out.extend_from_slice(format!("--{b}--\r\n").as_bytes());
        if fmt >= 8 {
            // an epilogue (RFC 2046 5.1.1: text behind the closing delimiter, to be ignored)
            out.extend_from_slice(b"This is the epilogue. It is also to be ignored.\r\n");
        }
    }
    if fmt == 4 {
        // LF-only line ends (accepted by the MIME parser; exercises the "\n\n" rule of the reader)
        let s = String::from_utf8(out).expect("ascii").replace("\r\n", "\n");
        out = s.into_bytes();
    }
    if fmt != 5 && fmt != 9 {
        let sum = hex::encode(Sha256::digest(&out));
        let nl = if fmt == 4 { "\n" } else { "\r\n" };
        out.extend_from_slice(format!("Checksum: {sum}{nl}").as_bytes());
    }
    out
}

pub fn http_malformed(kind: u8) -> Vec<u8> {
    match kind % N_HTTP_MALFORMED {
        0 => b"invalid bpsv data".to_vec(),
        1 => Vec::new(),
        2 => b"<html><body><h1>It works!</h1></body></html>\n".to_vec(),
        3 => b"Region!STRING:0|BuildId!DEC:4\nus|1|extra\n".to_vec(),
        4 => b"Region!STRING:0|Hash!HEX:16\nus|zz\n".to_vec(),
        _ => vec![0xff, 0xfe, 0x00, 0x80, 0x21, 0x0a, 0xc3, 0x28],
    }
}

pub fn tcp_malformed(kind: u8, tag: &str) -> Vec<u8> {
    match kind % N_TCP_MALFORMED {
        0 => b"invalid bpsv data\n\n".to_vec(),
        1 => {
            // valid MIME, wrong checksum
            let (body, _) = doc(7, 2, tag);
            let mut w = wire(&body, tag, 0, 0);
            let n = w.len();
            w[n - 3] = if w[n - 3] == b'0' { b'1' } else { b'0' };
            w
        }
        2 => Vec::new(),
        _ => wire("this is not a table\n", tag, 0, 0),
    }
}

/// Resolve requested split points to sorted distinct offsets in 1..len.
pub fn resolve(pts: &[Pt], resp: &[u8]) -> Vec<usize> {
    let len = resp.len();
    if len < 2 {
        return Vec::new();
    }
    let blanks: Vec<usize> = (2..len).filter(|&i| resp[..i].ends_with(b"\n\n") || resp[..i].ends_with(b"\r\n\r\n")).collect();
    let specials = [511usize, 512, 513, 8191, 8192, 8193, len - 1, len - 2];
    let mut out: Vec<usize> = pts
        .iter()
        .filter_map(|p| match p.kind % 4 {
            0 => Some(1 + pick_idx(p.v, len - 1)),
            1 => blanks.get(pick_idx(p.v, blanks.len())).copied(),
            2 => Some(specials[pick_idx(p.v, specials.len())]),
            _ => Some(p.v as usize),
        })
        .filter(|&x| x >= 1 && x < len)
        .collect();
    out.sort_unstable();
    out.dedup();
    out
}

// ---------------------------------------------------------------------------
// slots

thread_local! {
    /// The three ports of this worker thread, reserved once (bound, never listening) and
    /// reused by all its cases, which run one after the other: thousands of cases do not
    /// churn through the ephemeral port range (ports with TIME_WAIT sockets are not handed
    /// out again by bind(0) for a minute).
    static RESERVED: std::cell::RefCell<Vec<(TcpSocket, u16)>> = const { std::cell::RefCell::new(Vec::new()) };
}

fn reserved_port(id: u8) -> std::io::Result<u16> {
    RESERVED.with(|r| {
        let mut r = r.borrow_mut();
        while r.len() <= id as usize {
            let s = sock()?;
            s.bind(std::net::SocketAddr::from(([127, 0, 0, 1], 0)))?;
            let port = s.local_addr()?.port();
            r.push((s, port));
        }
        Ok(r[id as usize].1)
    })
}

pub struct Slot {
    pub id: u8,
    pub port: u16,
    beh: Arc<Mutex<AnyBeh>>,
    task: Option<JoinHandle<()>>,
    shared: Arc<Shared>,
    seed: u64,
}

fn sock() -> std::io::Result<TcpSocket> {
    let s = TcpSocket::new_v4()?;
    // SO_REUSEPORT only. With SO_REUSEADDR as well, any other process that binds the port
    // explicitly with SO_REUSEADDR (tokio's TcpListener::bind does) could listen on a
    // "refusing" port next to the non-listening reservation.
    s.set_reuseport(true)?;
    Ok(s)
}

impl Slot {
    pub async fn start(id: u8, beh: AnyBeh, shared: Arc<Shared>, seed: u64) -> std::io::Result<Slot> {
        let port = reserved_port(id)?;
        let mut s = Slot { id, port, beh: Arc::new(Mutex::new(AnyBeh::Http(HttpBeh::Refuse))), task: None, shared, seed };
        s.set(beh).await?;
        Ok(s)
    }

    pub async fn set(&mut self, b: AnyBeh) -> std::io::Result<()> {
        let refuse = b.refuses();
        *self.beh.lock().unwrap() = b;
        if refuse {
            if let Some(t) = self.task.take() {
                t.abort();
                let _ = t.await; // the listener is dropped with the task
            }
        } else if self.task.is_none() {
            let l = sock()?;
            l.bind(std::net::SocketAddr::from(([127, 0, 0, 1], self.port)))?;
            let listener = l.listen(64)?;
            self.task = Some(tokio::spawn(accept_loop(listener, self.id, self.beh.clone(), self.shared.clone(), self.seed)));
        }
        Ok(())
    }
}

async fn accept_loop(l: TcpListener, id: u8, beh: Arc<Mutex<AnyBeh>>, sh: Arc<Shared>, seed: u64) {
    loop {
        let Ok((s, _)) = l.accept().await else {
            // transient accept errors (EMFILE ...) must not spin
            tokio::time::sleep(Duration::from_millis(5)).await;
            continue;
        };
        let _ = s.set_nodelay(true);
        let b = beh.lock().unwrap().clone();
        let sh = sh.clone();
        tokio::spawn(async move {
            match b {
                AnyBeh::Http(b) => handle_http(s, b, id, sh).await,
                AnyBeh::Tcp(b) => handle_tcp(s, b, id, sh, seed).await,
            }
        });
    }
}

/// Value of the Retry-After header: seconds, or (from 1000) a spelling that is not an integer —
/// the HTTP-date form (the other legal one, RFC 9110 10.2.3), a fraction, a negative number, a word,
/// nothing, a hexadecimal number, a number with an unit.
pub fn retry_after_text(n: u16) -> String {
    const OTHER: [&str; 7] = ["Wed, 21 Oct 2037 07:28:00 GMT", "1.5", "-1", "soon", "", "0x1", "1s"];
    if n >= 1000 { OTHER[usize::from(n - 1000) % OTHER.len()].to_string() } else { n.to_string() }
}

fn reason(code: u16) -> &'static str {
    match code {
        200 => "OK",
        400 => "Bad Request",
        401 => "Unauthorized",
        403 => "Forbidden",
        404 => "Not Found",
        410 => "Gone",
        429 => "Too Many Requests",
        500 => "Internal Server Error",
        502 => "Bad Gateway",
        503 => "Service Unavailable",
        504 => "Gateway Timeout",
        301 => "Moved Permanently",
        302 => "Found",
        307 => "Temporary Redirect",
        308 => "Permanent Redirect",
        _ => "Status",
    }
}

fn http_response(code: u16, extra: &str, body: &[u8], chunked: bool) -> (Vec<u8>, usize) {
    let mut head = format!("HTTP/1.1 {code} {}\r\nContent-Type: text/plain\r\nConnection: close\r\n{extra}", reason(code));
    let mut out;
    if chunked {
        head.push_str("Transfer-Encoding: chunked\r\n\r\n");
        out = head.into_bytes();
        let hl = out.len();
        let mid = body.len() / 2;
        for part in [&body[..mid], &body[mid..]] {
            if !part.is_empty() {
                out.extend_from_slice(format!("{:x}\r\n", part.len()).as_bytes());
                out.extend_from_slice(part);
                out.extend_from_slice(b"\r\n");
            }
        }
        out.extend_from_slice(b"0\r\n\r\n");
        (out, hl)
    } else {
        head.push_str(&format!("Content-Length: {}\r\n\r\n", body.len()));
        out = head.into_bytes();
        let hl = out.len();
        out.extend_from_slice(body);
        (out, hl)
    }
}

async fn handle_http(mut s: TcpStream, b: HttpBeh, id: u8, sh: Arc<Shared>) {
    if let HttpBeh::CloseMid { stage, .. } = &b {
        if stage % 3 == 0 {
            sh.push(id, "<closed-at-accept>".into());
            return;
        }
    }
    // request head
    let mut buf = Vec::new();
    let mut tmp = [0u8; 2048];
    loop {
        match s.read(&mut tmp).await {
            Ok(0) | Err(_) => return,
            Ok(n) => buf.extend_from_slice(&tmp[..n]),
        }
        if buf.windows(4).any(|w| w == b"\r\n\r\n") || buf.len() > 16384 {
            break;
        }
    }
    let line = String::from_utf8_lossy(&buf);
    let path = line.split_whitespace().nth(1).unwrap_or("").to_string();
    // the target of a redirect answers like the original path
    let redirected = path.starts_with("/redirected");
    let path = path.strip_prefix("/redirected").map_or(path.clone(), str::to_string);
    let tag = tag_of(&path);
    sh.push(id, path.clone());
    let (resp, cut): (Vec<u8>, Option<usize>) = match b {
        HttpBeh::Answer { doc: d, rows, chunked } => (http_response(200, "", doc(d, rows, &tag).0.as_bytes(), chunked).0, None),
        HttpBeh::Status { code, retry_after, bpsv_body } => {
            let extra = retry_after.map(|n| format!("Retry-After: {}\r\n", retry_after_text(n))).unwrap_or_default();
            let body = if bpsv_body { doc(99, 2, &tag).0.into_bytes() } else { format!("{code} {}\n", reason(code)).into_bytes() };
            (http_response(code, &extra, &body, false).0, None)
        }
        HttpBeh::Redirect { code, doc: d, rows } => {
            if redirected {
                (http_response(200, "", doc(d, rows, &tag).0.as_bytes(), false).0, None)
            } else {
                let port = s.local_addr().map(|a| a.port()).unwrap_or(0);
                (http_response(code, &format!("Location: http://127.0.0.1:{port}/redirected{path}\r\n"), b"moved\n", false).0, None)
            }
        }
        HttpBeh::Malformed { kind } => (http_response(200, "", &http_malformed(kind), false).0, None),
        HttpBeh::CloseMid { stage, at } => {
            let (full, hl) = http_response(200, "", doc(3, 3, &tag).0.as_bytes(), false);
            let cut = if stage % 3 == 1 {
                // inside the head: at least one byte, never the complete head
                1 + pick_idx(at, hl - 2)
            } else {
                // complete head, strictly less than the announced body
                hl + pick_idx(at, full.len() - hl)
            };
            (full, Some(cut))
        }
        HttpBeh::Stall => {
            let _keep = &mut s;
            std::future::pending::<()>().await;
            return;
        }
        HttpBeh::Refuse => return, // raced with a flip: just close
    };
    let upto = cut.unwrap_or(resp.len());
    let _ = s.write_all(&resp[..upto]).await;
    let _ = s.flush().await;
    let _ = s.shutdown().await;
}

async fn handle_tcp(mut s: TcpStream, b: TcpBeh, id: u8, sh: Arc<Shared>, seed: u64) {
    // command line (the client half-closes after sending it)
    let mut buf = Vec::new();
    let mut tmp = [0u8; 1024];
    loop {
        match s.read(&mut tmp).await {
            Ok(0) | Err(_) => break,
            Ok(n) => buf.extend_from_slice(&tmp[..n]),
        }
        if buf.contains(&b'\n') || buf.len() > 4096 {
            break;
        }
    }
    let cmd = String::from_utf8_lossy(&buf).trim().to_string();
    let tag = tag_of(&cmd);
    sh.push(id, cmd);
    match b {
        TcpBeh::Answer { doc: d, rows, fmt, segs } => {
            let resp = wire(&doc(d, rows, &tag).0, &tag, fmt, seed);
            let cuts = resolve(&segs, &resp);
            let mut from = 0;
            for c in cuts.iter().copied().chain(std::iter::once(resp.len())) {
                if s.write_all(&resp[from..c]).await.is_err() {
                    return;
                }
                let _ = s.flush().await;
                from = c;
                if c < resp.len() {
                    // pacing only: lets the reader see the segment on its own (best effort)
                    tokio::time::sleep(Duration::from_millis(2)).await;
                }
            }
        }
        TcpBeh::Malformed { kind } => {
            let _ = s.write_all(&tcp_malformed(kind, &tag)).await;
        }
        TcpBeh::CloseMid { doc: d, rows, at } => {
            let resp = wire(&doc(d, rows, &tag).0, &tag, 0, seed);
            let cut = 1 + pick_idx(at, resp.len() - 1);
            let _ = s.write_all(&resp[..cut]).await;
        }
        TcpBeh::Stall => {
            // keep the socket open and silent; the task is cancelled when the case's runtime is dropped
            let _keep = &mut s;
            std::future::pending::<()>().await;
            return;
        }
        TcpBeh::Refuse => return,
    }
    let _ = s.flush().await;
    let _ = s.shutdown().await;
}
