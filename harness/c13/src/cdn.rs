//! C13 / cdn-download-cache: `CdnClient::download` — cache, then fetch, then store (anchor
//! `cdn/mod.rs`). "A failed or malformed answer is never cached": the first download of a key is
//! answered with something other than the content (a status the HTTP client neither follows nor
//! reads as an error class — 300, 304, 305, 306, a 3xx without Location —, a 4xx, a 5xx, a 429, a
//! connection closed inside the body); then the server turns healthy and the key is downloaded
//! again, by the same client or by a new one over the same cache directory. The second download
//! must ask the server and return the content. A first download that was answered with the content
//! must be served from the cache the second time, without a request.

use cascette_protocol::cache::ProtocolCache;
use cascette_protocol::cdn::{CdnClient, CdnEndpoint, ContentType};
use cascette_protocol::config::{CacheConfig, CdnConfig};
use serde::{Deserialize, Serialize};
use std::sync::atomic::{AtomicBool, AtomicUsize, Ordering};
use std::sync::Arc;
use std::time::Duration;
use tokio::io::{AsyncReadExt, AsyncWriteExt};
use vh_engine::Verdict;

#[derive(Debug, Clone, Copy, Serialize, Deserialize, PartialEq, Eq)]
pub enum First {
    /// 200 with the first body
    Content,
    /// status line `code`, empty body; `location`: a Location header pointing nowhere useful is
    /// NOT sent (a 3xx without Location is not followed)
    Status(u16),
    /// 429 with `Retry-After: 0`
    RateLimited,
    /// 200, Content-Length of the whole body, connection closed after half of it
    CloseMidBody,
}

#[derive(Debug, Clone, Serialize, Deserialize)]
pub struct CdnCase {
    pub first: First,
    pub cache_dir: bool,
    /// the second download is made by a new client (over the same cache directory, if any)
    pub fresh_client: bool,
    /// 0 config, 1 data, 2 patch
    pub content_type: u8,
    /// false: `download`; true: `download_archive_index` (same cache-then-fetch-then-store, its
    /// own cache key and URL pattern)
    #[serde(default)]
    pub archive_index: bool,
}

pub fn all_cases() -> Vec<CdnCase> {
    let mut firsts = vec![First::Content, First::RateLimited, First::CloseMidBody];
    for code in [300u16, 301, 304, 305, 306, 308, 399, 400, 403, 404, 410, 416, 500, 503] {
        firsts.push(First::Status(code));
    }
    let mut v = Vec::new();
    for (i, first) in firsts.into_iter().enumerate() {
        for cache_dir in [false, true] {
            for fresh_client in [false, true] {
                for archive_index in [false, true] {
                    v.push(CdnCase { first, cache_dir, fresh_client, content_type: ((i + usize::from(cache_dir)) % 3) as u8, archive_index });
                }
            }
        }
    }
    v
}

const BODY1: &[u8] = b"first-body-of-the-cdn-object-0123456789";
const BODY2: &[u8] = b"second-body-of-the-cdn-object-abcdefghijklmnopqrstuvwxyz";

async fn serve(listener: tokio::net::TcpListener, first: First, healthy: Arc<AtomicBool>, requests: Arc<AtomicUsize>) {
    loop {
        let Ok((mut sock, _)) = listener.accept().await else { return };
        let (healthy, requests) = (Arc::clone(&healthy), Arc::clone(&requests));
        tokio::spawn(async move {
            let mut buf = Vec::new();
            let mut tmp = [0u8; 2048];
            loop {
                while !buf.windows(4).any(|w| w == b"\r\n\r\n") {
                    match sock.read(&mut tmp).await {
                        Ok(0) | Err(_) => return,
                        Ok(n) => buf.extend_from_slice(&tmp[..n]),
                    }
                }
                let end = buf.windows(4).position(|w| w == b"\r\n\r\n").unwrap() + 4;
                buf.drain(..end);
                requests.fetch_add(1, Ordering::SeqCst);
                let ok = |body: &[u8]| {
                    let mut r = format!("HTTP/1.1 200 OK\r\nContent-Length: {}\r\n\r\n", body.len()).into_bytes();
                    r.extend_from_slice(body);
                    r
                };
                let resp = if healthy.load(Ordering::SeqCst) {
                    ok(BODY2)
                } else {
                    match first {
                        First::Content => ok(BODY1),
                        First::Status(code) => format!("HTTP/1.1 {code} Status\r\nContent-Length: 0\r\n\r\n").into_bytes(),
                        First::RateLimited => b"HTTP/1.1 429 Too Many Requests\r\nRetry-After: 0\r\nContent-Length: 0\r\n\r\n".to_vec(),
                        First::CloseMidBody => {
                            let mut r = format!("HTTP/1.1 200 OK\r\nContent-Length: {}\r\n\r\n", BODY1.len()).into_bytes();
                            r.extend_from_slice(&BODY1[..BODY1.len() / 2]);
                            let _ = sock.write_all(&r).await;
                            let _ = sock.shutdown().await;
                            return;
                        }
                    }
                };
                if sock.write_all(&resp).await.is_err() {
                    return;
                }
            }
        });
    }
}

pub fn check(c: &CdnCase) -> Verdict {
    let Ok(rt) = tokio::runtime::Builder::new_current_thread().enable_all().build() else {
        return Verdict::pass().class("VACUOUS:no-runtime");
    };
    let tmp = if c.cache_dir {
        match tempfile::Builder::new().prefix("vh-c13cdn-").tempdir() {
            Ok(t) => Some(t),
            Err(_) => return Verdict::pass().class("VACUOUS:no-tempdir"),
        }
    } else {
        None
    };
    let dir = tmp.as_ref().map(|t| t.path().join("cache"));
    let healthy = Arc::new(AtomicBool::new(false));
    let requests = Arc::new(AtomicUsize::new(0));
    let (h2, r2) = (Arc::clone(&healthy), Arc::clone(&requests));
    let case = c.clone();
    type Dl = Result<Result<Vec<u8>, String>, ()>;
    let res: Result<(Dl, usize, Dl, usize), String> = rt.block_on(async move {
        let listener = tokio::net::TcpListener::bind("127.0.0.1:0").await.map_err(|e| format!("bind: {e}"))?;
        let port = listener.local_addr().map_err(|e| e.to_string())?.port();
        let server = tokio::spawn(serve(listener, case.first, h2, Arc::clone(&r2)));
        let make = || -> Result<CdnClient, String> {
            let cache = ProtocolCache::new(&CacheConfig { cache_dir: dir.clone(), ..CacheConfig::default() }).map_err(|e| format!("ProtocolCache::new: {e}"))?;
            CdnClient::new(Arc::new(cache), CdnConfig::default()).map_err(|e| format!("CdnClient::new: {e}"))
        };
        let ep = CdnEndpoint { host: format!("127.0.0.1:{port}"), path: "tpr/test".into(), product_path: None, scheme: Some("http".into()), is_fallback: false, strict: false, max_hosts: None };
        let key = [0x13u8, 0xCD, 1, 2, 3, 4, 5, 6, 7, 8, 9, 10, 11, 12, 13, 14];
        let ct = || [ContentType::Config, ContentType::Data, ContentType::Patch][usize::from(case.content_type) % 3];
        let akey = hex::encode(key);
        let mut client = make()?;
        let d1: Dl = if case.archive_index {
            tokio::time::timeout(Duration::from_secs(120), client.download_archive_index(&ep, &akey)).await.map(|r| r.map_err(|e| e.to_string())).map_err(|_| ())
        } else {
            tokio::time::timeout(Duration::from_secs(120), client.download(&ep, ct(), &key)).await.map(|r| r.map_err(|e| e.to_string())).map_err(|_| ())
        };
        let n1 = r2.load(Ordering::SeqCst);
        healthy.store(true, Ordering::SeqCst);
        if case.fresh_client {
            drop(client);
            client = make()?;
        }
        let d2: Dl = if case.archive_index {
            tokio::time::timeout(Duration::from_secs(120), client.download_archive_index(&ep, &akey)).await.map(|r| r.map_err(|e| e.to_string())).map_err(|_| ())
        } else {
            tokio::time::timeout(Duration::from_secs(120), client.download(&ep, ct(), &key)).await.map(|r| r.map_err(|e| e.to_string())).map_err(|_| ())
        };
        let n2 = r2.load(Ordering::SeqCst);
        server.abort();
        Ok((d1, n1, d2, n2))
    });
    let (d1, n1, d2, n2) = match res {
        Ok(x) => x,
        Err(_) => return Verdict::pass().class("VACUOUS:no-loopback"),
    };
    let show = |d: &Dl| match d {
        Err(()) => "no return within 120 s".to_string(),
        Ok(Err(e)) => format!("Err({})", e.chars().take(80).collect::<String>()),
        Ok(Ok(b)) if b == BODY1 => "Ok(first body)".into(),
        Ok(Ok(b)) if b == BODY2 => "Ok(second body)".into(),
        Ok(Ok(b)) => format!("Ok({} other bytes)", b.len()),
    };
    let what = format!("{c:?}: first download -> {} after {n1} request(s); server healthy; second download -> {} after {} more request(s)", show(&d1), show(&d2), n2 - n1);
    if d1.is_err() || d2.is_err() {
        return Verdict::fail("C13:cdn:download-does-not-return", what);
    }
    let v = Verdict::pass().nontrivial(true).class_if(c.archive_index, "download_archive_index").class_if(c.fresh_client, "second-download-by-a-new-client").class_if(c.cache_dir, "cache-directory");
    match c.first {
        First::Content => {
            if d1 != Ok(Ok(BODY1.to_vec())) {
                return Verdict::fail("C13:cdn:content-not-returned", what);
            }
            // the cache survives the client only through the directory
            let cached = !c.fresh_client || c.cache_dir;
            if cached && (d2 != Ok(Ok(BODY1.to_vec())) || n2 != n1) {
                return Verdict::fail("C13:cdn:content-not-served-from-cache", what);
            }
            if !cached && d2 != Ok(Ok(BODY2.to_vec())) {
                return Verdict::fail("C13:cdn:new-client-without-directory-serves-something-else", what);
            }
            v.class("first-answer:content")
        }
        first => {
            if let Ok(Ok(_)) = &d1 {
                // the server never sent the content
                return Verdict::fail("C13:cdn:download-ok-although-the-server-sent-no-content", what);
            }
            if d2 != Ok(Ok(BODY2.to_vec())) || n2 == n1 {
                return Verdict::fail("C13:cdn:failed-answer-cached", what);
            }
            v.class(match first {
                First::Status(300..=399) => "first-answer:3xx-not-followed",
                First::Status(400..=499) => "first-answer:4xx",
                First::Status(_) => "first-answer:5xx",
                First::RateLimited => "first-answer:429",
                _ => "first-answer:closed-inside-the-body",
            })
        }
    }
}
