//! C16 — applying a generated binary patch to the old file yields the new file.
//!
//! Sections
//!   exhaustive-ab   all (old,new) in ({a,b}^<=6)^2 x every builder configuration
//!   boundary-grid   prefix | middle | suffix pairs around the builders' thresholds (4-byte match, 256-byte extra run)
//!   random-edits    new derived from old by an edit script (insert/delete/move/duplicate/overwrite/clear/replace)
//!   mutated-patches generated patch, then corrupted (raw bytes, or the decompressed blocks re-compressed)
//!
//! Oracle for the first three: a builder may refuse (`Err`, counted); every
//! patch it returns must give exactly `new` through the independent reference
//! bspatch (`refpatch`) and through every library patcher. Oracle for the last:
//! every patcher returns `Err` or exactly `header.output_size` bytes; no panic.

mod refpatch;

use cascette_formats::zbsdiff::{ZbsDiff, ZbsdiffBuilder, ZbsdiffHeader, ZbsdiffPatcher, apply_patch_memory};
use proptest::prelude::*;
use serde::{Deserialize, Serialize};
use std::collections::HashSet;
use std::io::Cursor;
use vh_engine::util::Rng;
use vh_engine::{Check, Section, Verdict, pick_idx};

const MAX_LEN: usize = 65_536;

// ---------------------------------------------------------------- builders

#[derive(Debug, Clone, Copy, PartialEq, Eq, Serialize, Deserialize)]
enum Builder {
    Simple,
    Chunked,
    /// `ZbsdiffBuilder::build()` (suffix array)
    Suffix,
    /// `ZbsdiffBuilder::build_optimized_patch()` (documented as equivalent to `build`)
    Optimized,
}

impl Builder {
    fn name(self) -> &'static str {
        match self {
            Builder::Simple => "simple",
            Builder::Chunked => "chunked",
            Builder::Suffix | Builder::Optimized => "suffix",
        }
    }
}

/// `max_diff_block_size` values of the design; `None` = the builder's default (1 MiB).
const BLOCKS: [Option<usize>; 7] = [Some(1), Some(2), Some(4), Some(7), Some(64), Some(4096), None];

/// Builder configurations of the enumerated sections. Only the chunked builder
/// reads `max_diff_block_size` (builder.rs `find_matching_chunk`); the other two
/// get the default and one non-default value.
fn configs() -> Vec<(Builder, Option<usize>)> {
    let mut v = vec![(Builder::Simple, None), (Builder::Simple, Some(2)), (Builder::Suffix, None), (Builder::Optimized, Some(7))];
    for b in BLOCKS {
        v.push((Builder::Chunked, b));
    }
    v
}

fn build_patch(builder: Builder, block: Option<usize>, old: &[u8], new: &[u8]) -> Result<Vec<u8>, String> {
    let mut b = ZbsdiffBuilder::new(old.to_vec(), new.to_vec());
    if let Some(s) = block {
        b = b.with_max_diff_block_size(s);
    }
    match builder {
        Builder::Simple => b.build_simple_patch(),
        Builder::Chunked => b.build_chunked_patch(),
        Builder::Suffix => b.build(),
        Builder::Optimized => b.build_optimized_patch(),
    }
    .map_err(|e| e.to_string())
}

// ---------------------------------------------------------------- patchers

#[derive(Debug, Clone, Copy)]
enum Patcher {
    /// `apply_patch_memory(old, patch)`
    Memory,
    /// `ZbsDiff::parse(patch)?.apply(old)`
    Parsed,
    /// `ZbsdiffPatcher::new(Cursor(old), header.output_size)[.with_buffer_size(n)].apply_patch_from_data(patch)`
    /// — the flow of the type's rustdoc example (size from `ZbsdiffHeader::parse_from_patch`)
    Stream(Option<usize>),
    /// `ZbsdiffPatcher::apply_patch(control_block, diff, extra)` from `ZbsDiff`'s accessors
    StreamParts,
    /// as `Stream(None)`, the old content behind a reader that hands out at most n bytes per
    /// `read` call (what `Read` allows and segmented or network-backed stores do)
    StreamShort(usize),
    /// the streaming patcher over a reader that is not at offset 0 when it is handed over (the caller
    /// read a prefix, or reuses the handle); `usize::MAX` = positioned at the end
    StreamAt(usize),
}

const PATCHERS: [Patcher; 14] = [
    Patcher::Memory,
    Patcher::Parsed,
    Patcher::Stream(None),
    Patcher::Stream(Some(1024)),
    Patcher::Stream(Some(1025)),
    Patcher::Stream(Some(4096)),
    Patcher::Stream(Some(8192)),
    Patcher::Stream(Some(65_536)),
    Patcher::StreamParts,
    Patcher::StreamShort(1),
    Patcher::StreamShort(509),
    Patcher::StreamAt(1),
    Patcher::StreamAt(7),
    Patcher::StreamAt(usize::MAX),
];

impl Patcher {
    fn key_name(self) -> &'static str {
        match self {
            Patcher::Memory => "apply_patch_memory",
            Patcher::Parsed => "zbsdiff-apply",
            Patcher::Stream(_) => "streaming",
            Patcher::StreamParts => "streaming-parts",
            Patcher::StreamShort(_) => "streaming-short-reads",
            Patcher::StreamAt(_) => "streaming-reader-not-at-offset-0",
        }
    }

    /// the function that holds the main loop (two code sites for four entry points)
    fn site(self) -> &'static str {
        match self {
            Patcher::Memory | Patcher::Parsed => "in-memory-patcher",
            Patcher::Stream(_) | Patcher::StreamParts | Patcher::StreamShort(_) | Patcher::StreamAt(_) => "streaming-patcher",
        }
    }
}

/// A reader that returns at most `max` bytes per `read` call.
struct ShortReads<R> {
    inner: R,
    max: usize,
}

impl<R: std::io::Read> std::io::Read for ShortReads<R> {
    fn read(&mut self, buf: &mut [u8]) -> std::io::Result<usize> {
        let n = buf.len().min(self.max);
        self.inner.read(&mut buf[..n])
    }
}

impl<R: std::io::Seek> std::io::Seek for ShortReads<R> {
    fn seek(&mut self, pos: std::io::SeekFrom) -> std::io::Result<u64> {
        self.inner.seek(pos)
    }
}

fn run_patcher(p: Patcher, old: &[u8], patch: &[u8]) -> Result<Vec<u8>, String> {
    match p {
        Patcher::Memory => apply_patch_memory(old, patch).map_err(|e| e.to_string()),
        Patcher::Parsed => ZbsDiff::parse(patch).and_then(|z| z.apply(old)).map_err(|e| e.to_string()),
        Patcher::Stream(buf) => {
            let h = ZbsdiffHeader::parse_from_patch(patch).map_err(|e| e.to_string())?;
            let mut sp = ZbsdiffPatcher::new(Cursor::new(old), h.output_size as usize);
            if let Some(b) = buf {
                sp = sp.with_buffer_size(b);
            }
            sp.apply_patch_from_data(patch).map_err(|e| e.to_string())
        }
        Patcher::StreamShort(n) => {
            let h = ZbsdiffHeader::parse_from_patch(patch).map_err(|e| e.to_string())?;
            ZbsdiffPatcher::new(ShortReads { inner: Cursor::new(old), max: n.max(1) }, h.output_size as usize).apply_patch_from_data(patch).map_err(|e| e.to_string())
        }
        Patcher::StreamAt(k) => {
            let h = ZbsdiffHeader::parse_from_patch(patch).map_err(|e| e.to_string())?;
            let mut c = Cursor::new(old);
            c.set_position(k.min(old.len()) as u64);
            ZbsdiffPatcher::new(c, h.output_size as usize).apply_patch_from_data(patch).map_err(|e| e.to_string())
        }
        Patcher::StreamParts => {
            let z = ZbsDiff::parse(patch).map_err(|e| e.to_string())?;
            let cb = z.control_block().map_err(|e| e.to_string())?;
            let d = z.diff_data().map_err(|e| e.to_string())?;
            let e = z.extra_data().map_err(|e| e.to_string())?;
            ZbsdiffPatcher::new(Cursor::new(old), z.output_size()).apply_patch(&cb, &d, &e).map_err(|e| e.to_string())
        }
    }
}

// ---------------------------------------------------------------- oracle for generated patches

fn first_diff(a: &[u8], b: &[u8]) -> String {
    match a.iter().zip(b).position(|(x, y)| x != y) {
        Some(i) => format!("first difference at offset {i}"),
        None => format!("lengths {} vs {}", a.len(), b.len()),
    }
}

fn show(b: &[u8]) -> String {
    let cut = &b[..b.len().min(48)];
    let s = if cut.iter().all(|c| c.is_ascii_graphic()) { format!("\"{}\"", String::from_utf8_lossy(cut)) } else { hex::encode(cut) };
    if b.len() > cut.len() { format!("{s}…({} bytes)", b.len()) } else { s }
}

/// some 4-byte window of `new` occurs in `old`  /  some byte of `new` lies in no such window
fn shared_windows(old: &[u8], new: &[u8]) -> (bool, bool) {
    if new.len() < 4 || old.len() < 4 {
        return (false, !new.is_empty());
    }
    let grams: HashSet<[u8; 4]> = old.windows(4).map(|w| [w[0], w[1], w[2], w[3]]).collect();
    let mut any = false;
    let mut covered_to = 0usize; // bytes of new before this index are covered or decided
    let mut uncovered = false;
    for (j, w) in new.windows(4).enumerate() {
        if grams.contains(&[w[0], w[1], w[2], w[3]]) {
            any = true;
            if j > covered_to {
                uncovered = true;
            }
            covered_to = j + 4;
        }
    }
    if covered_to < new.len() {
        uncovered = true;
    }
    (any, uncovered)
}

/// `needle` occurs contiguously in `hay` (two-way search of `str` on a Latin-1 image of the bytes).
fn is_substring(hay: &[u8], needle: &[u8]) -> bool {
    if needle.len() > hay.len() {
        return false;
    }
    let h: String = hay.iter().map(|&b| b as char).collect();
    let n: String = needle.iter().map(|&b| b as char).collect();
    h.contains(&n)
}

/// Non-trivial rule of the random sections: a matching region of >= 4 bytes
/// and a non-matching one — some 4-byte window of `new` occurs in `old`, and
/// `new` is not a contiguous piece of `old` (no single copy produces it).
fn mixed_pair(old: &[u8], new: &[u8]) -> (bool, bool) {
    let (any, uncovered) = shared_windows(old, new);
    (any && !is_substring(old, new), any && uncovered)
}

/// Judge one (old, new, builder, block).
fn check_generated(old: &[u8], new: &[u8], builder: Builder, block: Option<usize>) -> Verdict {
    let bname = builder.name();
    let patch = match build_patch(builder, block, old, new) {
        Ok(p) => p,
        Err(_) => {
            // permitted by the oracle; counted
            return Verdict::pass()
                .class("builder-refused")
                .class_if(new.is_empty(), "builder-refused:new-empty")
                .class_if(!new.is_empty(), "builder-refused:new-nonempty");
        }
    };
    // 1. what the patch *says*, by the reference
    let parts = match refpatch::take_apart(&patch) {
        Ok(p) => p,
        Err(e) => {
            return Verdict::fail(
                format!("C16:builder-{bname}:patch-not-well-formed"),
                format!("reference reader: {e}; old={} new={} block={block:?}", show(old), show(new)),
            );
        }
    };
    if parts.new_size != new.len() as i64 {
        return Verdict::fail(
            format!("C16:builder-{bname}:header-output-size-wrong"),
            format!("header says {} for a new file of {} bytes; old={} new={}", parts.new_size, new.len(), show(old), show(new)),
        );
    }
    let triples = parts.triples();
    let lib_mem = || match apply_patch_memory(old, &patch) {
        Ok(v) => format!("apply_patch_memory -> Ok({})", show(&v)),
        Err(e) => format!("apply_patch_memory -> Err({e})"),
    };
    match refpatch::run(old, &parts, refpatch::Seek::Relative) {
        Err(e) => {
            return Verdict::fail(
                format!("C16:builder-{bname}:reference-bspatch-fails"),
                format!("{e}; control={:?} old={} new={} block={block:?}; {}", &triples[..triples.len().min(8)], show(old), show(new), lib_mem()),
            );
        }
        Ok(v) if v != new => {
            let abs = refpatch::run(old, &parts, refpatch::Seek::AbsoluteWhenNonZero).map(|w| w == new).unwrap_or(false);
            let key = if abs {
                format!("C16:builder-{bname}:seek-field-holds-absolute-old-position")
            } else {
                format!("C16:builder-{bname}:patch-encodes-different-bytes")
            };
            return Verdict::fail(
                key,
                format!(
                    "reference bspatch gives {} bytes, {}; control(diff,extra,seek)={:?}{} old={} new={} block={block:?}; {}",
                    v.len(),
                    first_diff(&v, new),
                    &triples[..triples.len().min(8)],
                    if triples.len() > 8 { format!("…({} triples)", triples.len()) } else { String::new() },
                    show(old),
                    show(new),
                    lib_mem()
                ),
            );
        }
        Ok(_) => {}
    }
    // 2. every library patcher
    for p in PATCHERS {
        match run_patcher(p, old, &patch) {
            Err(e) => {
                return Verdict::fail(
                    format!("C16:{}:rejects-patch-of-{bname}-builder", p.key_name()),
                    format!("{p:?}: {e}; control={:?} old={} new={} block={block:?}", &triples[..triples.len().min(8)], show(old), show(new)),
                );
            }
            Ok(v) if v.len() != new.len() => {
                return Verdict::fail(
                    format!("C16:{}:wrong-length", p.key_name()),
                    format!("{p:?}: {} bytes, new has {}; builder={bname} old={} new={}", v.len(), new.len(), show(old), show(new)),
                );
            }
            Ok(v) if v != new => {
                return Verdict::fail(
                    format!("C16:{}:differs-from-new-where-reference-bspatch-gives-new", p.key_name()),
                    format!(
                        "{p:?}: {}; control={:?} builder={bname} old={} new={} got={}",
                        first_diff(&v, new),
                        &triples[..triples.len().min(8)],
                        show(old),
                        show(new),
                        show(&v)
                    ),
                );
            }
            Ok(_) => {}
        }
    }
    let has_diff = triples.iter().any(|t| t.0 > 0);
    let has_extra = triples.iter().any(|t| t.1 > 0);
    Verdict::pass()
        .class(match builder {
            Builder::Simple => "builder:simple",
            Builder::Chunked => "builder:chunked",
            Builder::Suffix => "builder:suffix",
            Builder::Optimized => "builder:suffix(build_optimized_patch)",
        })
        .class_if(old.is_empty(), "old-empty")
        .class_if(new.is_empty(), "new-empty")
        .class_if(old == new, "new==old")
        .class_if(triples.len() > 1, "patch:>1-control-entries")
        .class_if(has_diff, "patch:has-diff-run")
        .class_if(has_diff && has_extra, "patch:diff-and-extra")
        .class_if(parts.diff.iter().any(|&b| b != 0), "patch:nonzero-diff-byte")
        .class_if(triples.iter().any(|t| t.2 < 0), "patch:negative-seek")
        .class_if(triples.iter().any(|t| t.2 > 0), "patch:positive-seek")
        .class_if(new.len() > 4096, "new>4KiB")
        .class_if(triples.len() > 65_536, "patch:>65536-control-entries")
        .class_if(parts.diff.len() >= 3 << 20 && parts.diff.iter().all(|&b| b == 0), "patch:diff-block->=3MiB-of-zeros")
        .class_if(parts.extra.len() >= 8_000_000 && parts.extra.iter().all(|&b| b == 0), "patch:extra-block->=8MB-of-zeros")
}

// ---------------------------------------------------------------- content

fn symbols(alphabet: u16, seed: u64, len: usize) -> Vec<u8> {
    let mut r = Rng::new(seed);
    if alphabet >= 256 {
        return r.bytes(len);
    }
    // 1000 + n: the n lowest byte values, 0x00 included (zero padding, binary records)
    if alphabet >= 1000 {
        let a = u64::from(alphabet - 1000).clamp(1, 256);
        return (0..len).map(|_| r.below(a) as u8).collect();
    }
    let a = alphabet.max(1) as u64;
    (0..len)
        .map(|_| {
            let k = r.below(a) as u8;
            if a <= 26 { b'a' + k } else { k }
        })
        .collect()
}

#[derive(Debug, Clone, Serialize, Deserialize)]
struct Source {
    len: usize,
    /// number of distinct byte values (1..=256)
    alphabet: u16,
    /// 0: no structure; n: the content repeats with period n (long repeats)
    period: usize,
    seed: u64,
}

impl Source {
    fn bytes(&self) -> Vec<u8> {
        let len = self.len.min(MAX_LEN);
        if self.period == 0 || self.period >= len {
            return symbols(self.alphabet, self.seed, len);
        }
        let unit = symbols(self.alphabet, self.seed, self.period);
        unit.iter().copied().cycle().take(len).collect()
    }
}

#[derive(Debug, Clone, Serialize, Deserialize)]
enum Edit {
    Insert { at: u16, len: usize, seed: u64 },
    Delete { at: u16, len: usize },
    Move { from: u16, len: usize, to: u16 },
    Dup { from: u16, len: usize, to: u16 },
    Overwrite { at: u16, len: usize, seed: u64 },
    /// new = nothing
    Clear,
    /// new = fresh content unrelated to old
    Replace { len: usize, seed: u64 },
}

fn apply_edits(old: &[u8], alphabet: u16, edits: &[Edit]) -> Vec<u8> {
    let mut cur = old.to_vec();
    for e in edits {
        match *e {
            Edit::Insert { at, len, seed } => {
                let len = len.min(MAX_LEN - cur.len().min(MAX_LEN));
                let pos = pick_idx(at, cur.len() + 1);
                let fresh = symbols(alphabet, seed, len);
                cur.splice(pos..pos, fresh);
            }
            Edit::Delete { at, len } => {
                let pos = pick_idx(at, cur.len() + 1);
                let end = (pos + len).min(cur.len());
                cur.drain(pos..end);
            }
            Edit::Move { from, len, to } => {
                let pos = pick_idx(from, cur.len() + 1);
                let end = (pos + len).min(cur.len());
                let run: Vec<u8> = cur.drain(pos..end).collect();
                let dst = pick_idx(to, cur.len() + 1);
                cur.splice(dst..dst, run);
            }
            Edit::Dup { from, len, to } => {
                let pos = pick_idx(from, cur.len() + 1);
                let end = (pos + len).min(cur.len());
                let mut run: Vec<u8> = cur[pos..end].to_vec();
                run.truncate(MAX_LEN - cur.len().min(MAX_LEN));
                let dst = pick_idx(to, cur.len() + 1);
                cur.splice(dst..dst, run);
            }
            Edit::Overwrite { at, len, seed } => {
                let pos = pick_idx(at, cur.len() + 1);
                let end = (pos + len).min(cur.len());
                let fresh = symbols(alphabet, seed, end - pos);
                cur[pos..end].copy_from_slice(&fresh);
            }
            Edit::Clear => cur.clear(),
            Edit::Replace { len, seed } => cur = symbols(alphabet, seed, len.min(MAX_LEN)),
        }
    }
    cur
}

fn run_len() -> impl Strategy<Value = usize> {
    prop_oneof![
        4 => 1usize..=8,
        2 => proptest::sample::select(vec![255usize, 256, 257, 512, 768]),
        3 => 1usize..=300,
        1 => 1usize..=5000,
    ]
}

fn edit() -> impl Strategy<Value = Edit> {
    prop_oneof![
        5 => (any::<u16>(), run_len(), any::<u64>()).prop_map(|(at, len, seed)| Edit::Insert { at, len, seed }),
        4 => (any::<u16>(), run_len()).prop_map(|(at, len)| Edit::Delete { at, len }),
        2 => (any::<u16>(), run_len(), any::<u16>()).prop_map(|(from, len, to)| Edit::Move { from, len, to }),
        2 => (any::<u16>(), run_len(), any::<u16>()).prop_map(|(from, len, to)| Edit::Dup { from, len, to }),
        5 => (any::<u16>(), run_len(), any::<u64>()).prop_map(|(at, len, seed)| Edit::Overwrite { at, len, seed }),
        1 => (0usize..2000, any::<u64>()).prop_map(|(len, seed)| Edit::Replace { len, seed }),
    ]
}

fn edits() -> impl Strategy<Value = Vec<Edit>> {
    prop_oneof![
        16 => proptest::collection::vec(edit(), 1..=6),
        1 => Just(vec![]),            // new = old
        1 => Just(vec![Edit::Clear]), // empty new
    ]
}

fn source(big: bool) -> impl Strategy<Value = Source> {
    let len = if big {
        prop_oneof![1 => Just(0usize), 3 => 0usize..=64, 5 => 0usize..=1500, 5 => 0usize..=4096, 4 => 0usize..=20_000, 2 => 0usize..=MAX_LEN].boxed()
    } else {
        prop_oneof![2 => Just(0usize), 8 => 0usize..=64, 14 => 0usize..=600, 10 => 0usize..=1500, 6 => 0usize..=4096, 2 => 0usize..=20_000, 1 => 0usize..=MAX_LEN].boxed()
    };
    (
        len,
        prop_oneof![3 => Just(256u16), 3 => Just(2u16), 1 => Just(1u16), 1 => Just(3u16), 1 => Just(4u16), 1 => Just(16u16), 2 => Just(1002u16), 1 => Just(1003u16), 1 => Just(1001u16)],
        prop_oneof![6 => Just(0usize), 1 => 1usize..=8, 1 => 9usize..=300],
        any::<u64>(),
    )
        .prop_map(|(len, alphabet, period, seed)| Source { len, alphabet, period, seed })
}

fn builder_cfg() -> impl Strategy<Value = (Builder, Option<usize>)> {
    let block = prop_oneof![7 => proptest::sample::select(BLOCKS.to_vec()), 1 => (1usize..=8192).prop_map(Some)];
    (prop_oneof![2 => Just(Builder::Simple), 5 => Just(Builder::Chunked), 5 => Just(Builder::Suffix), 1 => Just(Builder::Optimized)], block)
}

// ---------------------------------------------------------------- cases

#[derive(Debug, Clone, Serialize, Deserialize)]
struct AbCase {
    old: String,
    new: String,
    builder: Builder,
    block: Option<usize>,
}

#[derive(Debug, Clone, Serialize, Deserialize)]
struct GrownCase {
    n: usize,
    k: usize,
    tail: u8,
    alphabet: u16,
    seed: u64,
    builder: Builder,
    block: Option<usize>,
}

#[derive(Debug, Clone, Serialize, Deserialize)]
struct BigCase {
    new_len: usize,
    builder: Builder,
    seed: u64,
}

/// Inputs far larger than a test uses: blocks that deflate better than 1000:1, control blocks
/// with tens of thousands of entries.
#[derive(Debug, Clone, Serialize, Deserialize)]
struct LargeCase {
    /// 0: new = old (incompressible) with one byte changed in the middle; 1: old = 100 bytes, new =
    /// `size` zero bytes; 2: new = old with its first byte changed (the chunked builder never
    /// finds its way back: one entry per 256 bytes); 3: new = old + a short appended record (one
    /// entry per block of the chunked builder)
    kind: u8,
    size: usize,
    builder: Builder,
    block: Option<usize>,
    seed: u64,
}

impl LargeCase {
    fn pair(&self) -> (Vec<u8>, Vec<u8>) {
        match self.kind {
            1 => (symbols(4, self.seed, 100), vec![0u8; self.size]),
            3 => {
                let old = Rng::new(self.seed).bytes(self.size);
                let mut new = old.clone();
                new.extend_from_slice(b"one more record");
                (old, new)
            }
            k => {
                let old = Rng::new(self.seed).bytes(self.size);
                let mut new = old.clone();
                let at = if k == 0 { self.size / 2 } else { 0 };
                if let Some(b) = new.get_mut(at) {
                    *b ^= 0x55;
                }
                (old, new)
            }
        }
    }
}

fn ab_strings(max: usize, letters: [char; 2]) -> Vec<String> {
    let mut v = vec![String::new()];
    let mut from = 0;
    for _ in 0..max {
        let to = v.len();
        for i in from..to {
            for c in letters {
                let mut s = v[i].clone();
                s.push(c);
                v.push(s);
            }
        }
        from = to;
    }
    v
}

#[derive(Debug, Clone, Serialize, Deserialize)]
struct GridCase {
    prefix: usize,
    mid_old: usize,
    mid_new: usize,
    suffix: usize,
    alphabet: u16,
    seed: u64,
    builder: Builder,
    block: Option<usize>,
}

impl GridCase {
    fn pair(&self) -> (Vec<u8>, Vec<u8>) {
        let mut r = Rng::new(self.seed);
        let p = symbols(self.alphabet, r.next_u64(), self.prefix);
        let mo = symbols(self.alphabet, r.next_u64(), self.mid_old);
        let mn = symbols(self.alphabet, r.next_u64(), self.mid_new);
        let s = symbols(self.alphabet, r.next_u64(), self.suffix);
        ([&p[..], &mo[..], &s[..]].concat(), [&p[..], &mn[..], &s[..]].concat())
    }
}

#[derive(Debug, Clone, Serialize, Deserialize)]
struct RandCase {
    src: Source,
    edits: Vec<Edit>,
    builder: Builder,
    block: Option<usize>,
}

// ---------------------------------------------------------------- mutated patches

/// Values worth putting into an integer field.
fn special_i64() -> impl Strategy<Value = i64> {
    prop_oneof![
        4 => -3i64..=40,
        2 => proptest::sample::select(vec![
            i64::MAX, -i64::MAX, i64::MAX - 1, 1 << 62, 1 << 32, (1 << 32) - 1, 1 << 31, -(1 << 31),
            10_000_000, 10_000_001, 1_000_000_000, 1_000_000_001, 65_536, 4096, -4096, 255, 256, 1024, 1025,
        ]),
        1 => any::<i64>().prop_map(|v| if v == i64::MIN { 0 } else { v }),
    ]
}

/// Corruption of the decompressed blocks; the patch is re-assembled afterwards
/// with fresh zlib streams and matching stream lengths in the header, so the
/// corruption reaches the patcher's main loop.
#[derive(Debug, Clone, Serialize, Deserialize)]
enum BlockMut {
    CtrlField { entry: u16, field: u8, value: i64 },
    CtrlFieldAdd { entry: u16, field: u8, delta: i8 },
    CtrlFlipBit { at: u16, bit: u8 },
    CtrlDropEntry { entry: u16 },
    CtrlDupEntry { entry: u16 },
    CtrlAppendEntry { diff: i64, extra: i64, seek: i64 },
    /// `n` entries (0, 0, seek) in front of entry `before`: pure pointer movement ahead of the runs that follow
    CtrlInsertSeeks { before: u16, n: u8, seek: i64 },
    CtrlTruncateBytes { keep: u16 },
    DiffFlipBit { at: u16, bit: u8 },
    DiffTruncate { keep: u16 },
    DiffExtend { len: u16 },
    ExtraFlipBit { at: u16, bit: u8 },
    ExtraTruncate { keep: u16 },
    ExtraExtend { len: u16 },
    OutputSizeAdd { delta: i8 },
    OutputSizeSet { value: i64 },
}

/// Corruption of the patch bytes as they would arrive from disk or network.
#[derive(Debug, Clone, Serialize, Deserialize)]
enum RawMut {
    FlipBit { at: u16, bit: u8 },
    SetByte { at: u16, val: u8 },
    /// flip inside the 32-byte header only
    HeaderFlipBit { at: u8, bit: u8 },
    /// overwrite header field 0..=2 (control_size, diff_size, output_size), little-endian two's complement
    HeaderField { field: u8, value: i64 },
    Truncate { keep: u16 },
    Append { len: u8, seed: u64 },
}

fn block_mut() -> impl Strategy<Value = BlockMut> {
    prop_oneof![
        4 => (any::<u16>(), 0u8..3, special_i64()).prop_map(|(entry, field, value)| BlockMut::CtrlField { entry, field, value }),
        4 => (any::<u16>(), 0u8..3, any::<i8>()).prop_map(|(entry, field, delta)| BlockMut::CtrlFieldAdd { entry, field, delta }),
        2 => (any::<u16>(), 0u8..8).prop_map(|(at, bit)| BlockMut::CtrlFlipBit { at, bit }),
        1 => any::<u16>().prop_map(|entry| BlockMut::CtrlDropEntry { entry }),
        1 => any::<u16>().prop_map(|entry| BlockMut::CtrlDupEntry { entry }),
        2 => (special_i64(), special_i64(), special_i64()).prop_map(|(diff, extra, seek)| BlockMut::CtrlAppendEntry { diff, extra, seek }),
        2 => (any::<u16>(), 1u8..=4, special_i64()).prop_map(|(before, n, seek)| BlockMut::CtrlInsertSeeks { before, n, seek }),
        1 => any::<u16>().prop_map(|keep| BlockMut::CtrlTruncateBytes { keep }),
        2 => (any::<u16>(), 0u8..8).prop_map(|(at, bit)| BlockMut::DiffFlipBit { at, bit }),
        1 => any::<u16>().prop_map(|keep| BlockMut::DiffTruncate { keep }),
        1 => (1u16..600).prop_map(|len| BlockMut::DiffExtend { len }),
        2 => (any::<u16>(), 0u8..8).prop_map(|(at, bit)| BlockMut::ExtraFlipBit { at, bit }),
        1 => any::<u16>().prop_map(|keep| BlockMut::ExtraTruncate { keep }),
        1 => (1u16..600).prop_map(|len| BlockMut::ExtraExtend { len }),
        2 => any::<i8>().prop_map(|delta| BlockMut::OutputSizeAdd { delta }),
        1 => special_i64().prop_map(|value| BlockMut::OutputSizeSet { value }),
    ]
}

fn raw_mut() -> impl Strategy<Value = RawMut> {
    prop_oneof![
        4 => (any::<u16>(), 0u8..8).prop_map(|(at, bit)| RawMut::FlipBit { at, bit }),
        2 => (any::<u16>(), any::<u8>()).prop_map(|(at, val)| RawMut::SetByte { at, val }),
        2 => (0u8..32, 0u8..8).prop_map(|(at, bit)| RawMut::HeaderFlipBit { at, bit }),
        2 => (0u8..3, special_i64()).prop_map(|(field, value)| RawMut::HeaderField { field, value }),
        2 => any::<u16>().prop_map(|keep| RawMut::Truncate { keep }),
        1 => (1u8..=64, any::<u64>()).prop_map(|(len, seed)| RawMut::Append { len, seed }),
    ]
}

fn flip(v: &mut [u8], at: u16, bit: u8) {
    if !v.is_empty() {
        let i = pick_idx(at, v.len());
        v[i] ^= 1 << (bit & 7);
    }
}

fn apply_block_muts(parts: &mut refpatch::Parts, muts: &[BlockMut]) {
    for m in muts {
        let entries = parts.ctrl.len() / 24;
        match *m {
            BlockMut::CtrlField { entry, field, value } => {
                if entries > 0 {
                    let o = pick_idx(entry, entries) * 24 + (field as usize % 3) * 8;
                    parts.ctrl[o..o + 8].copy_from_slice(&refpatch::offtout(value));
                }
            }
            BlockMut::CtrlFieldAdd { entry, field, delta } => {
                if entries > 0 {
                    let o = pick_idx(entry, entries) * 24 + (field as usize % 3) * 8;
                    let v = refpatch::offtin(&parts.ctrl[o..o + 8]).saturating_add(delta as i64).max(-i64::MAX);
                    parts.ctrl[o..o + 8].copy_from_slice(&refpatch::offtout(v));
                }
            }
            BlockMut::CtrlFlipBit { at, bit } => flip(&mut parts.ctrl, at, bit),
            BlockMut::CtrlDropEntry { entry } => {
                if entries > 0 {
                    let o = pick_idx(entry, entries) * 24;
                    parts.ctrl.drain(o..o + 24);
                }
            }
            BlockMut::CtrlDupEntry { entry } => {
                if entries > 0 {
                    let o = pick_idx(entry, entries) * 24;
                    let e: Vec<u8> = parts.ctrl[o..o + 24].to_vec();
                    parts.ctrl.splice(o..o, e);
                }
            }
            BlockMut::CtrlAppendEntry { diff, extra, seek } => {
                for v in [diff, extra, seek] {
                    parts.ctrl.extend_from_slice(&refpatch::offtout(v.max(-i64::MAX)));
                }
            }
            BlockMut::CtrlInsertSeeks { before, n, seek } => {
                let o = pick_idx(before, entries + 1) * 24;
                let mut e = Vec::new();
                for _ in 0..n {
                    for v in [0, 0, seek.max(-i64::MAX)] {
                        e.extend_from_slice(&refpatch::offtout(v));
                    }
                }
                parts.ctrl.splice(o..o, e);
            }
            BlockMut::CtrlTruncateBytes { keep } => {
                let k = pick_idx(keep, parts.ctrl.len() + 1);
                parts.ctrl.truncate(k);
            }
            BlockMut::DiffFlipBit { at, bit } => flip(&mut parts.diff, at, bit),
            BlockMut::DiffTruncate { keep } => {
                let k = pick_idx(keep, parts.diff.len() + 1);
                parts.diff.truncate(k);
            }
            BlockMut::DiffExtend { len } => parts.diff.extend(std::iter::repeat_n(0x11u8, len as usize)),
            BlockMut::ExtraFlipBit { at, bit } => flip(&mut parts.extra, at, bit),
            BlockMut::ExtraTruncate { keep } => {
                let k = pick_idx(keep, parts.extra.len() + 1);
                parts.extra.truncate(k);
            }
            BlockMut::ExtraExtend { len } => parts.extra.extend(std::iter::repeat_n(0x22u8, len as usize)),
            BlockMut::OutputSizeAdd { delta } => parts.new_size = parts.new_size.saturating_add(delta as i64),
            BlockMut::OutputSizeSet { value } => parts.new_size = value.max(-i64::MAX),
        }
    }
}

fn apply_raw_muts(patch: &mut Vec<u8>, muts: &[RawMut]) {
    for m in muts {
        match *m {
            RawMut::FlipBit { at, bit } => flip(patch, at, bit),
            RawMut::SetByte { at, val } => {
                if !patch.is_empty() {
                    let i = pick_idx(at, patch.len());
                    patch[i] = val;
                }
            }
            RawMut::HeaderFlipBit { at, bit } => {
                if let Some(b) = patch.get_mut(at as usize % 32) {
                    *b ^= 1 << (bit & 7);
                }
            }
            RawMut::HeaderField { field, value } => {
                let o = 8 + (field as usize % 3) * 8;
                if patch.len() >= o + 8 {
                    patch[o..o + 8].copy_from_slice(&value.to_le_bytes());
                }
            }
            RawMut::Truncate { keep } => {
                let k = pick_idx(keep, patch.len() + 1);
                patch.truncate(k);
            }
            RawMut::Append { len, seed } => patch.extend(Rng::new(seed).bytes(len as usize)),
        }
    }
}

#[derive(Debug, Clone, Serialize, Deserialize)]
struct MutCase {
    src: Source,
    edits: Vec<Edit>,
    builder: Builder,
    block: Option<usize>,
    blocks: Vec<BlockMut>,
    raw: Vec<RawMut>,
}

fn check_mutated(c: &MutCase, known: &vh_engine::Known) -> Verdict {
    let old = c.src.bytes();
    let new = apply_edits(&old, c.src.alphabet, &c.edits);
    let Ok(original) = build_patch(c.builder, c.block, &old, &new) else {
        return Verdict::pass().class("builder-refused");
    };
    let mut patch = original.clone();
    if !c.blocks.is_empty() {
        match refpatch::take_apart(&original) {
            Ok(mut parts) => {
                apply_block_muts(&mut parts, &c.blocks);
                patch = parts.assemble();
            }
            // a builder whose patch the reference cannot read is judged in the other sections
            Err(_) => return Verdict::pass().class("generated-patch-unreadable"),
        }
    }
    apply_raw_muts(&mut patch, &c.raw);
    let stated = refpatch::stated_output_size(&patch);
    let mut oks = 0usize;
    let mut ok_equal_new = 0usize;
    let mut known_hits: Vec<String> = Vec::new();
    for p in PATCHERS {
        let r = match vh_engine::util::catch_panic(|| run_patcher(p, &old, &patch)) {
            Ok(r) => r,
            Err(pi) => {
                // neither a failure value nor output_size bytes
                let key = format!("C16:{}:panic-on-corrupt-patch:{}", p.site(), pi.norm_msg());
                if known.is_open(&key) {
                    if !known_hits.contains(&key) {
                        known_hits.push(key);
                    }
                    continue;
                }
                return Verdict::fail(
                    key,
                    format!("{p:?}: panic at {}:{}: {}; old has {} bytes; patch={}", pi.file, pi.line, pi.msg, old.len(), hex::encode(&patch[..patch.len().min(300)])),
                );
            }
        };
        match r {
            Err(_) => {}
            Ok(v) => {
                oks += 1;
                if v == new {
                    ok_equal_new += 1;
                }
                if stated != Some(v.len() as i64) {
                    return Verdict::fail(
                        format!("C16:{}:returns-length-other-than-header-output-size", p.key_name()),
                        format!("{p:?}: Ok with {} bytes, header output_size={stated:?}; patch={}", v.len(), hex::encode(&patch[..patch.len().min(200)])),
                    );
                }
            }
        }
    }
    let after_zlib = refpatch::take_apart(&patch);
    let reached_main_loop = after_zlib.is_ok();
    let ref_ok = after_zlib.as_ref().ok().and_then(|p| refpatch::run(&old, p, refpatch::Seek::Relative).ok());
    let changed = patch != original;
    let mut verdict = Verdict::pass();
    verdict.known_hits = known_hits;
    verdict
        .nontrivial(changed && reached_main_loop)
        .class_if(!changed, "mutation-was-a-no-op")
        .class_if(changed && reached_main_loop, "mutation-reaches-main-loop")
        .class_if(changed && !reached_main_loop, "mutation-stopped-by-header-or-zlib")
        .class_if(oks == 0, "all-patchers-err")
        .class_if(oks == PATCHERS.len(), "all-patchers-ok")
        .class_if(oks != 0 && oks != PATCHERS.len(), "patchers-disagree-on-ok")
        .class_if(changed && oks > 0 && ok_equal_new == 0, "ok-with-other-content")
        .class_if(changed && ok_equal_new > 0, "ok-still-equals-new")
        .class_if(changed && oks == 0 && ref_ok.is_some(), "library-err-where-reference-ok")
        .class_if(changed && oks > 0 && reached_main_loop && ref_ok.is_none(), "library-ok-where-reference-err")
        .class_if(!c.blocks.is_empty(), "block-mutation")
        .class_if(!c.raw.is_empty(), "raw-mutation")
}

// ---------------------------------------------------------------- main

fn main() {
    let mut ck = Check::from_args("C16", "exploration");
    let tier = ck.tier;
    let seed = ck.seed;
    let big_tier = tier == vh_engine::Tier::Thorough;
    ck.extra(
        "rule",
        "every case = one (old,new) pair x one builder configuration; the patch (if the builder returns one) is applied by the reference bspatch and by 9 library \
         patcher variants (apply_patch_memory, ZbsDiff::parse+apply, ZbsdiffPatcher default/1024/1025/4096/8192/65536 buffers via apply_patch_from_data, and \
         apply_patch on pre-parsed parts) and must equal new. Non-trivial: random-edits/boundary-grid: some 4-byte window of new occurs in old (matching region >= 4) \
         and new is not a contiguous piece of old (a non-matching region or seam is needed); exhaustive-ab (strings of <= 6 letters cannot hold both regions): \
         old != new and both non-empty; mutated-patches: the corrupted patch differs from the generated one and still passes header and zlib (reaches the main loop). \
         Distinct by case hash."
            .into(),
    );
    ck.assume("flate2's zlib codec (shared with the code under test) is correct");
    ck.assume("refpatch (this crate) implements bspatch as published: pinned by a hand-made patch and by the CDN (old,patch,new) triplets of the repository's test fixtures");
    ck.assume("a builder returning Err is permitted by the property (counted in class builder-refused); old/new sizes stay <= 64 KiB (the 10 MB per-entry and 1 GB header caps are not reached)");
    let (bad, triplets) = refpatch::self_test();
    ck.extra("reference_self_test", serde_json::json!({"failures": bad, "cdn_triplets_checked": triplets}));
    if !bad.is_empty() {
        for b in bad {
            ck.infra(format!("reference bspatch self-test failed: {b}"));
        }
        ck.finish();
    }

    // 1. exhaustive over the small alphabet
    let n = tier.pick(6usize, 8usize);
    let scope = format!(
        "all (old,new) in ({{a,b}}^<={n})^2 = {} pairs x {} builder configurations (simple x{{default,2}}, suffix build() default, build_optimized_patch() 7, \
         chunked x max_diff_block_size {{1,2,4,7,64,4096,default}}), each patch through the reference bspatch and 9 patcher variants",
        ((1usize << (n + 1)) - 1).pow(2),
        configs().len()
    );
    ck.run(
        Section::enumerate(
            "exhaustive-ab",
            scope,
            move || {
                let s = ab_strings(n, ['a', 'b']);
                let s2 = s.clone();
                let cfg = configs();
                Box::new(s.into_iter().flat_map(move |old| {
                    let cfg = cfg.clone();
                    s2.clone().into_iter().flat_map(move |new| {
                        let old = old.clone();
                        cfg.clone().into_iter().map(move |(builder, block)| AbCase { old: old.clone(), new: new.clone(), builder, block })
                    })
                }))
            },
            |c: &AbCase| {
                let v = check_generated(c.old.as_bytes(), c.new.as_bytes(), c.builder, c.block);
                let nt = v.fail.is_none() && !v.classes.contains(&"builder-refused") && c.old != c.new && !c.old.is_empty() && !c.new.is_empty();
                v.nontrivial(nt)
            },
        )
        .shards(16),
    );

    // 1b. the same over {0x00, 'a'}: bytes past the end of the old content count as zero in a
    // bsdiff patch, so a zero byte in the new content is the one value that can "match" there
    let n0 = tier.pick(5usize, 7usize);
    ck.run(
        Section::enumerate(
            "exhaustive-0a",
            format!("all (old,new) in ({{0x00,a}}^<={n0})^2 = {} pairs x {} builder configurations, reference bspatch and {} patcher variants", ((1usize << (n0 + 1)) - 1).pow(2), configs().len(), PATCHERS.len()),
            move || {
                let s = ab_strings(n0, ['\0', 'a']);
                let s2 = s.clone();
                let cfg = configs();
                Box::new(s.into_iter().flat_map(move |old| {
                    let cfg = cfg.clone();
                    s2.clone().into_iter().flat_map(move |new| {
                        let old = old.clone();
                        cfg.clone().into_iter().map(move |(builder, block)| AbCase { old: old.clone(), new: new.clone(), builder, block })
                    })
                }))
            },
            |c: &AbCase| {
                let v = check_generated(c.old.as_bytes(), c.new.as_bytes(), c.builder, c.block);
                let nt = v.fail.is_none() && !v.classes.contains(&"builder-refused") && c.old != c.new && !c.old.is_empty() && !c.new.is_empty();
                v.nontrivial(nt)
            },
        )
        .shards(16),
    );

    // 1c. old content that ends where a block of the chunked builder ends, new content that goes on
    // with zeros / with data (a file grown by padding or by an appended record), block sizes around it
    ck.run(
        Section::enumerate(
            "grown-files",
            "old = n bytes (n in {1,4,8,64,255,256,257,1024,4096,8192}), new = old + t with t = k zero bytes / a zero byte then data / data then zeros (k in {1,3,4,8,300}), alphabets {256, {0,1}}, every builder configuration".to_string(),
            move || {
                let cfg = configs();
                let mut v = Vec::new();
                for n in [1usize, 4, 8, 64, 255, 256, 257, 1024, 4096, 8192] {
                    for k in [1usize, 3, 4, 8, 300] {
                        for tail in 0u8..3 {
                            for alphabet in [256u16, 1002] {
                                for &(builder, block) in &cfg {
                                    v.push(GrownCase { n, k, tail, alphabet, seed: seed ^ (n as u64) << 20 ^ (k as u64) << 8 ^ u64::from(tail), builder, block });
                                }
                            }
                        }
                    }
                }
                Box::new(v.into_iter())
            },
            |c: &GrownCase| {
                let old = symbols(c.alphabet, c.seed, c.n);
                let mut new = old.clone();
                match c.tail {
                    0 => new.extend(std::iter::repeat_n(0u8, c.k)),
                    1 => {
                        new.push(0);
                        new.extend(symbols(256, c.seed ^ 9, c.k));
                    }
                    _ => {
                        new.extend(symbols(256, c.seed ^ 9, c.k));
                        new.extend(std::iter::repeat_n(0u8, c.k));
                    }
                }
                let v = check_generated(&old, &new, c.builder, c.block);
                let ok = v.fail.is_none() && !v.classes.contains(&"builder-refused");
                v.nontrivial(ok)
            },
        )
        .shards(16),
    );

    // 1d. sizes around the 10,000,000-byte operation limit of the builders
    ck.run(
        Section::enumerate(
            "ten-million",
            "old = 100 bytes, new = 9,999,999 / 10,000,000 / 10,000,001 bytes of low-entropy content, simple and chunked builder (a refusal is allowed, a patch that does not apply is not)".to_string(),
            move || {
                let mut v = Vec::new();
                for new_len in [9_999_999usize, 10_000_000, 10_000_001] {
                    for builder in [Builder::Simple, Builder::Chunked] {
                        v.push(BigCase { new_len, builder, seed: seed ^ new_len as u64 });
                    }
                }
                Box::new(v.into_iter())
            },
            |c: &BigCase| {
                let old = symbols(4, c.seed, 100);
                // compressible: bzip2 of 10 MB of noise would dominate the run
                let unit = symbols(4, c.seed ^ 5, 4093);
                let new: Vec<u8> = (0..c.new_len).map(|i| unit[i % unit.len()]).collect();
                let v = check_generated(&old, &new, c.builder, None);
                let ok = v.fail.is_none() && !v.classes.contains(&"builder-refused");
                v.nontrivial(ok)
            },
        )
        .shards(6),
    );

    // 1e. large inputs: a diff block of megabytes of zeros (deflates better than 1000:1), a zero-filled
    // new file, control blocks with more than 65,536 entries
    ck.run(
        Section::enumerate(
            "large-inputs",
            "new = old (incompressible, 3 / 4 / 6 MiB) with one byte changed in the middle, chunked and optimized builder; old = 100 bytes, new = 9,000,000 zero bytes, simple builder; \
             new = old (1.5 MiB) with one byte changed / with a record appended (98,305 control entries), chunked builder with block 16; new = old (1 MiB) + a record, block 8 (131,073 entries); \
             new = old (6 and 18 MiB) with its first byte changed, chunked builder (one entry per 256 bytes: 24,577 and 73,729 entries)"
                .to_string(),
            move || {
                let mut v = Vec::new();
                for size in [3usize << 20, 4 << 20, 6 << 20] {
                    for builder in [Builder::Chunked, Builder::Optimized] {
                        v.push(LargeCase { kind: 0, size, builder, block: None, seed: seed ^ size as u64 });
                    }
                }
                v.push(LargeCase { kind: 1, size: 9_000_000, builder: Builder::Simple, block: None, seed });
                v.push(LargeCase { kind: 0, size: 3 << 19, builder: Builder::Chunked, block: Some(16), seed: seed ^ 16 });
                v.push(LargeCase { kind: 3, size: 3 << 19, builder: Builder::Chunked, block: Some(16), seed: seed ^ 17 });
                v.push(LargeCase { kind: 3, size: 1 << 20, builder: Builder::Chunked, block: Some(8), seed: seed ^ 18 });
                v.push(LargeCase { kind: 2, size: 6 << 20, builder: Builder::Chunked, block: None, seed: seed ^ 2 });
                v.push(LargeCase { kind: 2, size: 18 << 20, builder: Builder::Chunked, block: None, seed: seed ^ 3 });
                if big_tier {
                    v.push(LargeCase { kind: 0, size: 9 << 20, builder: Builder::Chunked, block: None, seed: seed ^ 4 });
                    v.push(LargeCase { kind: 3, size: 9 << 20, builder: Builder::Chunked, block: Some(64), seed: seed ^ 5 });
                }
                Box::new(v.into_iter())
            },
            |c: &LargeCase| {
                let (old, new) = c.pair();
                let v = check_generated(&old, &new, c.builder, c.block);
                let ok = v.fail.is_none() && !v.classes.contains(&"builder-refused");
                v.nontrivial(ok)
            },
        )
        .shards(12),
    );

    // 2. structured pairs around the thresholds of the builders
    const PRE: [usize; 6] = [0, 3, 4, 5, 9, 300];
    const MID: [usize; 8] = [0, 1, 4, 255, 256, 257, 512, 600];
    const SUF: [usize; 6] = [0, 3, 4, 5, 9, 300];
    const ALPHA: [u16; 4] = [2, 4, 256, 1002];
    ck.run(
        Section::enumerate(
            "boundary-grid",
            format!(
                "old = P+M+S, new = P+M'+S with |P| in {PRE:?}, |M|,|M'| in {MID:?}, |S| in {SUF:?}, alphabets {ALPHA:?} (contents from VERIF_SEED) x {} builder configurations",
                configs().len()
            ),
            move || {
                let cfg = configs();
                let mut v = Vec::new();
                for (ai, &alphabet) in ALPHA.iter().enumerate() {
                    for (pi, &prefix) in PRE.iter().enumerate() {
                        for (mi, &mid_old) in MID.iter().enumerate() {
                            for (ni, &mid_new) in MID.iter().enumerate() {
                                for (si, &suffix) in SUF.iter().enumerate() {
                                    let s = seed ^ 0xC16 ^ ((ai as u64) << 40 | (pi as u64) << 32 | (mi as u64) << 24 | (ni as u64) << 16 | (si as u64) << 8);
                                    for &(builder, block) in &cfg {
                                        v.push(GridCase { prefix, mid_old, mid_new, suffix, alphabet, seed: s, builder, block });
                                    }
                                }
                            }
                        }
                    }
                }
                // small pairs first: the first failure per key becomes the replay file
                v.sort_by_key(|c: &GridCase| (c.prefix + c.mid_old + c.mid_new + c.suffix, c.alphabet < 256));
                Box::new(v.into_iter())
            },
            |c: &GridCase| {
                let (old, new) = c.pair();
                let v = check_generated(&old, &new, c.builder, c.block);
                let (nt, unc) = mixed_pair(&old, &new);
                let ok = v.fail.is_none() && !v.classes.contains(&"builder-refused");
                v.nontrivial(ok && nt).class_if(nt, "pair:matching>=4-and-non-matching").class_if(unc, "pair:has-byte-outside-every-shared-window")
            },
        )
        .shards(16),
    );

    // 3. random edit scripts
    let big = big_tier;
    ck.run(
        Section::pbt(
            "random-edits",
            tier.pick(40_000, 1_000_000),
            move || {
                (source(big), edits(), builder_cfg())
                    .prop_map(|(src, edits, (builder, block))| RandCase { src, edits, builder, block })
                    .boxed()
            },
            |c: &RandCase| {
                let old = c.src.bytes();
                let new = apply_edits(&old, c.src.alphabet, &c.edits);
                let v = check_generated(&old, &new, c.builder, c.block);
                let (nt, unc) = mixed_pair(&old, &new);
                let ok = v.fail.is_none() && !v.classes.contains(&"builder-refused");
                let has = |f: fn(&Edit) -> bool| c.edits.iter().any(f);
                v.nontrivial(ok && nt)
                    .class_if(nt, "pair:matching>=4-and-non-matching")
                    .class_if(unc, "pair:has-byte-outside-every-shared-window")
                    .class_if(c.src.alphabet <= 4, "alphabet<=4")
                    .class_if(c.src.period > 0, "periodic-old")
                    .class_if(has(|e| matches!(e, Edit::Insert { .. })), "edit:insert")
                    .class_if(has(|e| matches!(e, Edit::Delete { .. })), "edit:delete")
                    .class_if(has(|e| matches!(e, Edit::Move { .. })), "edit:move")
                    .class_if(has(|e| matches!(e, Edit::Dup { .. })), "edit:duplicate")
                    .class_if(has(|e| matches!(e, Edit::Overwrite { .. })), "edit:overwrite")
                    .class_if(has(|e| matches!(e, Edit::Replace { .. })), "edit:replace(unrelated)")
                    .class_if(old.len() > 4096, "old>4KiB")
            },
        )
        .shards(16),
    );

    // 4. arbitrary patches: corruptions of generated ones
    let known = ck.known().clone();
    ck.run(
        Section::pbt(
            "mutated-patches",
            tier.pick(40_000, 1_000_000),
            || {
                let src = (
                    prop_oneof![1 => Just(0usize), 6 => 0usize..=64, 6 => 0usize..=600, 2 => 0usize..=3000],
                    prop_oneof![3 => Just(256u16), 2 => Just(2u16), 1 => Just(4u16)],
                    prop_oneof![6 => Just(0usize), 1 => 1usize..=40],
                    any::<u64>(),
                )
                    .prop_map(|(len, alphabet, period, seed)| Source { len, alphabet, period, seed });
                let muts = prop_oneof![
                    5 => (proptest::collection::vec(block_mut(), 1..=3), Just(vec![])),
                    4 => (Just(vec![]), proptest::collection::vec(raw_mut(), 1..=3)),
                    1 => (proptest::collection::vec(block_mut(), 1..=2), proptest::collection::vec(raw_mut(), 1..=2)),
                ];
                (src, proptest::collection::vec(edit(), 0..=4), builder_cfg(), muts)
                    .prop_map(|(src, edits, (builder, block), (blocks, raw))| MutCase { src, edits, builder, block, blocks, raw })
                    .boxed()
            },
            move |c: &MutCase| check_mutated(c, &known),
        )
        .shards(16),
    );

    ck.finish();
}
