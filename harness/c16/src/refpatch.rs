//! Independent reference `bspatch` for ZBSDIFF1, plus an independent patch
//! writer used by the mutation section.
//!
//! Written from Colin Percival's bsdiff 4.3 `bspatch.c` and the format page
//! `docs/src/formats/patches.md` ("Header (32 bytes, little-endian)", three
//! zlib streams, `new[i] = old[i] + diff[i]`, `old_pos += seek_offset`):
//!
//! ```text
//!  0  8  "ZBSDIFF1"
//!  8  8  X = length of the zlib stream holding the control block
//! 16  8  Y = length of the zlib stream holding the diff block
//! 24  8  size of the new file
//! 32  X  zlib(control block)   triples (x, y, z) of 8-byte integers
//! 32+X Y zlib(diff block)
//! 32+X+Y  zlib(extra block)
//! ```
//! All integers are bsdiff `offtout` integers: 8 bytes, little-endian
//! magnitude in bits 0..62, sign in bit 63 (for the non-negative header sizes
//! this is identical to the two's-complement little-endian the docs state).
//! For each triple: add x bytes of the diff block to old bytes (positions
//! outside `0..oldsize` contribute 0), copy y bytes of the extra block, then
//! move the old-file pointer by z **relative** to where it is.
//!
//! Only `flate2` (zlib) is shared with the code under test.

use flate2::Compression;
use flate2::read::ZlibDecoder;
use flate2::write::ZlibEncoder;
use std::io::{Read, Write};

pub const MAGIC: &[u8; 8] = b"ZBSDIFF1";

/// bsdiff `offtin`.
pub fn offtin(b: &[u8]) -> i64 {
    let mut y: i64 = (b[7] & 0x7f) as i64;
    for k in (0..7).rev() {
        y = y * 256 + b[k] as i64;
    }
    if b[7] & 0x80 != 0 { -y } else { y }
}

/// bsdiff `offtout` (the magnitude of i64::MIN does not fit; never asked for).
pub fn offtout(x: i64) -> [u8; 8] {
    let mut y: u64 = x.unsigned_abs();
    let mut out = [0u8; 8];
    for slot in out.iter_mut() {
        *slot = (y % 256) as u8;
        y /= 256;
    }
    if x < 0 {
        out[7] |= 0x80;
    }
    out
}

pub fn inflate(z: &[u8]) -> Result<Vec<u8>, String> {
    let mut out = Vec::new();
    ZlibDecoder::new(z).read_to_end(&mut out).map_err(|e| format!("zlib: {e}"))?;
    Ok(out)
}

pub fn deflate(raw: &[u8]) -> Vec<u8> {
    let mut e = ZlibEncoder::new(Vec::new(), Compression::new(6));
    e.write_all(raw).expect("in-memory deflate");
    e.finish().expect("in-memory deflate")
}

/// A patch taken apart: header numbers and the three *decompressed* blocks.
#[derive(Debug, Clone)]
pub struct Parts {
    pub new_size: i64,
    pub ctrl: Vec<u8>,
    pub diff: Vec<u8>,
    pub extra: Vec<u8>,
}

impl Parts {
    pub fn triples(&self) -> Vec<(i64, i64, i64)> {
        self.ctrl.chunks_exact(24).map(|c| (offtin(&c[0..8]), offtin(&c[8..16]), offtin(&c[16..24]))).collect()
    }

    /// Independent writer: fresh zlib streams, header lengths recomputed.
    pub fn assemble(&self) -> Vec<u8> {
        let c = deflate(&self.ctrl);
        let d = deflate(&self.diff);
        let e = deflate(&self.extra);
        let mut out = Vec::with_capacity(32 + c.len() + d.len() + e.len());
        out.extend_from_slice(MAGIC);
        out.extend_from_slice(&offtout(c.len() as i64));
        out.extend_from_slice(&offtout(d.len() as i64));
        out.extend_from_slice(&offtout(self.new_size));
        out.extend_from_slice(&c);
        out.extend_from_slice(&d);
        out.extend_from_slice(&e);
        out
    }
}

/// The size of the new file as the header states it (bytes 24..32), if there is a header.
pub fn stated_output_size(patch: &[u8]) -> Option<i64> {
    if patch.len() < 32 {
        return None;
    }
    Some(offtin(&patch[24..32]))
}

pub fn take_apart(patch: &[u8]) -> Result<Parts, String> {
    if patch.len() < 32 {
        return Err(format!("short header: {} bytes", patch.len()));
    }
    if &patch[0..8] != MAGIC {
        return Err("bad magic".into());
    }
    let x = offtin(&patch[8..16]);
    let y = offtin(&patch[16..24]);
    let new_size = offtin(&patch[24..32]);
    if x < 0 || y < 0 || new_size < 0 {
        return Err(format!("negative header field ({x},{y},{new_size})"));
    }
    let body = &patch[32..];
    let (x, y) = (x as u128, y as u128);
    if x + y > body.len() as u128 {
        return Err(format!("streams ({x}+{y}) longer than patch body ({})", body.len()));
    }
    let (x, y) = (x as usize, y as usize);
    Ok(Parts {
        new_size,
        ctrl: inflate(&body[..x]).map_err(|e| format!("control {e}"))?,
        diff: inflate(&body[x..x + y]).map_err(|e| format!("diff {e}"))?,
        extra: inflate(&body[x + y..]).map_err(|e| format!("extra {e}"))?,
    })
}

/// How the third number of a control triple moves the old-file pointer.
#[derive(Clone, Copy, PartialEq, Eq)]
pub enum Seek {
    /// the format: `oldpos += z`
    Relative,
    /// diagnosis only: a non-zero z *is* the next old position
    AbsoluteWhenNonZero,
}

/// bspatch main loop over decompressed blocks.
pub fn run(old: &[u8], p: &Parts, seek: Seek) -> Result<Vec<u8>, String> {
    let new_size = p.new_size as i128;
    let old_size = old.len() as i128;
    let mut new: Vec<u8> = Vec::new();
    let mut old_pos: i128 = 0;
    let mut c = 0usize; // cursor in control
    let mut d = 0usize; // cursor in diff
    let mut e = 0usize; // cursor in extra
    while (new.len() as i128) < new_size {
        if p.ctrl.len() - c < 24 {
            return Err(format!("control block exhausted at new offset {}", new.len()));
        }
        let x = offtin(&p.ctrl[c..c + 8]) as i128;
        let y = offtin(&p.ctrl[c + 8..c + 16]) as i128;
        let z = offtin(&p.ctrl[c + 16..c + 24]) as i128;
        c += 24;
        if x < 0 || y < 0 {
            return Err(format!("negative length in control triple ({x},{y},{z})"));
        }
        if new.len() as i128 + x > new_size {
            return Err(format!("diff run {x} overruns new size {new_size} at {}", new.len()));
        }
        let x = x as usize;
        if p.diff.len() - d < x {
            return Err(format!("diff block exhausted: want {x}, have {}", p.diff.len() - d));
        }
        for k in 0..x {
            let at = old_pos + k as i128;
            let o = if at >= 0 && at < old_size { old[at as usize] } else { 0 };
            new.push(o.wrapping_add(p.diff[d + k]));
        }
        d += x;
        old_pos += x as i128;
        if new.len() as i128 + y > new_size {
            return Err(format!("extra run {y} overruns new size {new_size} at {}", new.len()));
        }
        let y = y as usize;
        if p.extra.len() - e < y {
            return Err(format!("extra block exhausted: want {y}, have {}", p.extra.len() - e));
        }
        new.extend_from_slice(&p.extra[e..e + y]);
        e += y;
        match seek {
            Seek::Relative => old_pos += z,
            Seek::AbsoluteWhenNonZero => {
                if z != 0 {
                    old_pos = z
                }
            }
        }
    }
    Ok(new)
}

/// Reference `bspatch(old, patch) -> new`.
pub fn bspatch(old: &[u8], patch: &[u8]) -> Result<Vec<u8>, String> {
    let parts = take_apart(patch)?;
    run(old, &parts, Seek::Relative)
}

/// Known-answer tests: a hand-assembled patch with all three mechanisms (add
/// with wrap-around, copy, negative and positive relative seeks, reads before
/// the start and past the end of old) and, when present, the (old, patch, new)
/// triplets downloaded from Blizzard's CDN that ship with the repository's
/// test fixtures. Returns the list of failures and the number of CDN triplets.
pub fn self_test() -> (Vec<String>, usize) {
    let mut bad = Vec::new();
    // offtin/offtout
    for (v, b) in [
        (0i64, [0u8, 0, 0, 0, 0, 0, 0, 0]),
        (1, [1, 0, 0, 0, 0, 0, 0, 0]),
        (-1, [1, 0, 0, 0, 0, 0, 0, 0x80]),
        (258, [2, 1, 0, 0, 0, 0, 0, 0]),
        (-258, [2, 1, 0, 0, 0, 0, 0, 0x80]),
        (i64::MAX, [0xff, 0xff, 0xff, 0xff, 0xff, 0xff, 0xff, 0x7f]),
        (-i64::MAX, [0xff; 8]),
    ] {
        if offtout(v) != b || offtin(&b) != v {
            bad.push(format!("offtin/offtout {v}"));
        }
    }
    if offtin(&[0, 0, 0, 0, 0, 0, 0, 0x80]) != 0 {
        bad.push("offtin negative zero".into());
    }
    // hand-made patch
    let old = b"0123456789";
    let mut ctrl = Vec::new();
    for (x, y, z) in [(3i64, 2i64, 4i64), (2, 0, -9), (2, 1, 20), (1, 0, -14), (3, 0, 0)] {
        ctrl.extend_from_slice(&offtout(x));
        ctrl.extend_from_slice(&offtout(y));
        ctrl.extend_from_slice(&offtout(z));
    }
    // run 1: old[0..3]="012" + (0,1,255)         -> "02" then '2'+255 = '1' => "021"; extra "AB"; pos 3 -> 7
    // run 2: old[7..9]="78" + (0,0)              -> "78"; pos 9 -> 0
    // run 3: old[0..2]="01" + (2,2) -> "23"; extra "C"; pos 2 -> 22
    // run 4: old[22] (past end => 0) + 0x5a      -> "Z"; pos 23 -> 9
    // run 5: old[9..12] = '9', past end, past end; + (0, 0x59, 0x58) -> "9YX"
    let parts = Parts {
        new_size: 14,
        ctrl,
        diff: vec![0, 1, 255, 0, 0, 2, 2, 0x5a, 0, 0x59, 0x58],
        extra: b"ABC".to_vec(),
    };
    let patch = parts.assemble();
    match bspatch(old, &patch) {
        Ok(v) if v == b"021AB7823CZ9YX" => {}
        other => bad.push(format!("hand-made patch: {:?}", other.map(|v| String::from_utf8_lossy(&v).into_owned()))),
    }
    // negative old position: bytes before the start of old contribute 0 (bspatch.c: `oldpos+i>=0`)
    let mut ctrl = Vec::new();
    for (x, y, z) in [(0i64, 0i64, -2i64), (4, 0, 0)] {
        ctrl.extend_from_slice(&offtout(x));
        ctrl.extend_from_slice(&offtout(y));
        ctrl.extend_from_slice(&offtout(z));
    }
    let parts = Parts { new_size: 4, ctrl, diff: vec![0x61, 0x62, 0, 0], extra: vec![] };
    match run(old, &parts, Seek::Relative) {
        Ok(v) if v == b"ab01" => {}
        other => bad.push(format!("negative old position: {other:?}")),
    }
    // size discipline
    let mut short = parts.clone();
    short.new_size = 5;
    if run(old, &short, Seek::Relative).is_ok() {
        bad.push("control exhausted before new_size must fail".into());
    }
    let mut over = parts.clone();
    over.new_size = 3;
    if run(old, &over, Seek::Relative).is_ok() {
        bad.push("run overrunning new_size must fail".into());
    }
    if bspatch(old, &patch[..patch.len() - 8]).is_ok() {
        bad.push("extra stream that lost its data must fail".into());
    }
    // CDN triplets
    let mut triplets = 0;
    let dir = std::path::Path::new("/repo/crates/cascette-formats/test_fixtures/zbsdiff");
    if let Ok(rd) = std::fs::read_dir(dir) {
        let mut files: Vec<_> = rd.filter_map(|e| e.ok()).map(|e| e.path()).collect();
        files.sort();
        for p in files {
            if p.extension().and_then(|e| e.to_str()) != Some("zbsdiff") {
                continue;
            }
            let (Ok(patch), Ok(old), Ok(new)) =
                (std::fs::read(&p), std::fs::read(p.with_extension("old")), std::fs::read(p.with_extension("new")))
            else {
                continue;
            };
            triplets += 1;
            match bspatch(&old, &patch) {
                Ok(v) if v == new => {}
                Ok(v) => bad.push(format!("CDN triplet {}: {} bytes, differs from .new ({} bytes)", p.display(), v.len(), new.len())),
                Err(e) => bad.push(format!("CDN triplet {}: {e}", p.display())),
            }
        }
    }
    (bad, triplets)
}
