//! C09 — cipher and hash primitives compute the functions the formats specify.
//! Differential against the reference implementations in vh_engine::refimpl,
//! algebraic laws, users of the hashes, and SIMD helpers vs portable fallback.

use cascette_cache::simd::{CpuFeatures, SimdHashOperations, SimdMemoryOps, detect_cpu_features};
use cascette_client_storage::index::ArchiveLocation;
use cascette_client_storage::index::update::{UpdateEntry, UpdateStatus};
use cascette_client_storage::kmt::key_state::{ResidencyEntry, ResidencySpan, ResidencyUpdateType};
use cascette_client_storage::storage::local_header::LocalHeader;
use cascette_crypto::{Arc4Cipher, ContentKey, EncodingKey, Jenkins96, Salsa20Cipher, hashlittle, hashlittle2};
use proptest::prelude::*;
use serde::{Deserialize, Serialize};
use vh_engine::refimpl::{lookup3, md5, rc4, salsa20};
use vh_engine::util::{Rng, hexbytes};
use vh_engine::{Check, Section, Verdict};

const SEEDS: [(u32, u32); 8] = [
    (0, 0),
    (0xFFFF_FFFF, 0xFFFF_FFFF),
    (0, 0xFFFF_FFFF),
    (0xFFFF_FFFF, 0),
    (0x3D6B_E971, 0),
    (1, 2),
    (0xdead_beef, 0xdead_beef),
    (0x8000_0000, 0x7FFF_FFFF),
];

#[derive(Debug, Clone, Serialize, Deserialize)]
struct HashLenCase {
    len: usize,
    seed_ix: usize,
    content_seed: u64,
}

#[derive(Debug, Clone, Serialize, Deserialize)]
struct HashCase {
    #[serde(with = "hexbytes")]
    data: Vec<u8>,
    pc: u32,
    pb: u32,
}

fn check_hash(data: &[u8], pc: u32, pb: u32) -> Option<(String, String)> {
    let (rc, rb) = lookup3::hashlittle2(data, pc, pb);
    let (mut c, mut b) = (pc, pb);
    hashlittle2(data, &mut c, &mut b);
    if (c, b) != (rc, rb) {
        return Some((
            "C09:hashlittle2:differs-from-lookup3".into(),
            format!("len={} pc={pc:#x} pb={pb:#x}: got ({c:#x},{b:#x}) want ({rc:#x},{rb:#x})", data.len()),
        ));
    }
    let r1 = lookup3::hashlittle(data, pc);
    let g1 = hashlittle(data, pc);
    if g1 != r1 {
        return Some((
            "C09:hashlittle:differs-from-lookup3".into(),
            format!("len={} initval={pc:#x}: got {g1:#x} want {r1:#x}", data.len()),
        ));
    }
    let (jc, jb) = lookup3::hashlittle2(data, 0, 0);
    let j = Jenkins96::hash(data);
    if j.hash64 != ((jc as u64) << 32 | jb as u64) || j.hash32 != jc {
        return Some((
            "C09:jenkins96:differs-from-lookup3".into(),
            format!("len={}: got {j} want {:016x}:{:08x}", data.len(), (jc as u64) << 32 | jb as u64, jc),
        ));
    }
    None
}

#[derive(Debug, Clone, Serialize, Deserialize)]
struct SalsaCase {
    key: [u8; 16],
    #[serde(with = "hexbytes")]
    iv: Vec<u8>,
    block_index: u32,
    len: usize,
    content_seed: u64,
    split: usize,
}

fn check_salsa(c: &SalsaCase) -> Verdict {
    let data = Rng::new(c.content_seed).bytes(c.len);
    let want = salsa20::casc_crypt(&data, &c.key, &c.iv, c.block_index);
    let got = match cascette_crypto::salsa20::encrypt_salsa20(&data, &c.key, &c.iv, c.block_index as usize) {
        Ok(g) => g,
        Err(e) => return Verdict::fail("C09:salsa20:refused-valid-iv", format!("{e:?}")),
    };
    if got != want {
        let at = got.iter().zip(&want).position(|(a, b)| a != b);
        return Verdict::fail(
            "C09:salsa20:differs-from-spec",
            format!("len={} ivlen={} block={} first diff at {:?}", c.len, c.iv.len(), c.block_index, at),
        );
    }
    let back = cascette_crypto::salsa20::decrypt_salsa20(&got, &c.key, &c.iv, c.block_index as usize).unwrap();
    if back != data {
        return Verdict::fail("C09:salsa20:decrypt-encrypt-not-identity", format!("len={}", c.len));
    }
    // piecewise
    let split = c.split.min(c.len);
    let mut cipher = Salsa20Cipher::new(&c.key, &c.iv, c.block_index as usize).unwrap();
    let mut buf = data.clone();
    let (l, r) = buf.split_at_mut(split);
    cipher.apply_keystream(l);
    cipher.apply_keystream(r);
    if buf != want {
        return Verdict::fail("C09:salsa20:piecewise-differs", format!("len={} split={}", c.len, split));
    }
    Verdict::pass()
        .nontrivial(c.len > 64)
        .class_if(c.iv.len() == 8, "iv8")
        .class_if(c.iv.len() == 4, "iv4")
        .class_if(c.block_index > 65535, "block>16bit")
        .class_if(c.len > 64, "multi-block")
}

#[derive(Debug, Clone, Serialize, Deserialize)]
struct Arc4Case {
    #[serde(with = "hexbytes")]
    key: Vec<u8>,
    len: usize,
    content_seed: u64,
    split: usize,
}

fn check_arc4(c: &Arc4Case) -> Verdict {
    let data = Rng::new(c.content_seed).bytes(c.len);
    let want = rc4::Rc4::crypt(&c.key, &data);
    let mut ci = match Arc4Cipher::new(&c.key) {
        Ok(x) => x,
        Err(e) => return Verdict::fail("C09:arc4:refused-valid-key", format!("keylen={} {e:?}", c.key.len())),
    };
    let got = ci.encrypt(&data);
    if got != want {
        return Verdict::fail("C09:arc4:differs-from-rc4", format!("keylen={} len={}", c.key.len(), c.len));
    }
    let back = Arc4Cipher::new(&c.key).unwrap().decrypt(&got);
    if back != data {
        return Verdict::fail("C09:arc4:decrypt-encrypt-not-identity", format!("len={}", c.len));
    }
    let split = c.split.min(c.len);
    let mut ci = Arc4Cipher::new(&c.key).unwrap();
    let mut buf = data.clone();
    let (l, r) = buf.split_at_mut(split);
    ci.apply_keystream(l);
    ci.apply_keystream(r);
    if buf != want {
        return Verdict::fail("C09:arc4:piecewise-differs", format!("len={} split={}", c.len, split));
    }
    // encrypt in two pieces through the allocating API too
    let mut ci = Arc4Cipher::new(&c.key).unwrap();
    let mut two = ci.encrypt(&data[..split]);
    two.extend(ci.encrypt(&data[split..]));
    if two != want {
        return Verdict::fail("C09:arc4:piecewise-encrypt-differs", format!("len={} split={}", c.len, split));
    }
    Verdict::pass().nontrivial(c.len >= 1).class_if(c.key.len() > 16, "long-key").class_if(c.len > 256, "len>256")
}

#[derive(Debug, Clone, Serialize, Deserialize)]
struct Md5Case {
    len: usize,
    content_seed: u64,
}

#[derive(Debug, Clone, Serialize, Deserialize)]
struct GuardCase {
    /// records added to one bucket (the update log holds 60 pages x 21 = 1260)
    n: u16,
    /// what happens behind them, see the section text
    then: u8,
}

fn check_saved_guards(c: &GuardCase) -> Verdict {
    use cascette_client_storage::index::{IndexManager, UpdateStatus};
    use cascette_crypto::EncodingKey;
    let Ok(dir) = tempfile::Builder::new().prefix("vh-c09g-").tempdir_in(if std::path::Path::new("/dev/shm").is_dir() { "/dev/shm" } else { "/tmp" }) else {
        return Verdict::pass().class("VACUOUS:no-tempdir");
    };
    let mut mgr = IndexManager::new(dir.path());
    // keys of bucket 5
    let mut keys: Vec<[u8; 16]> = Vec::new();
    let mut r = Rng::new(0xC09_6A4D ^ u64::from(c.n));
    while keys.len() < usize::from(c.n) {
        let mut k = [0u8; 16];
        k.copy_from_slice(&r.bytes(16));
        if IndexManager::bucket_for_key(&EncodingKey::from_bytes(k)) == 5 {
            keys.push(k);
        }
    }
    for (i, k) in keys.iter().enumerate() {
        if let Err(e) = mgr.add_entry(&EncodingKey::from_bytes(*k), (i % 1024) as u16, (i as u32) * 64, 40 + i as u32) {
            return Verdict::fail("C09:saved-index-guards:add_entry-fails", format!("record {i} of {}: {e}", c.n));
        }
    }
    let key = |i: usize| EncodingKey::from_bytes(keys[i.min(keys.len() - 1)]);
    let last = keys.len() - 1;
    let what = match c.then {
        0 => "nothing",
        1 => {
            mgr.update_entry_status(&key(0), UpdateStatus::DataNonResident);
            "update_entry_status(first key, DataNonResident)"
        }
        2 => {
            mgr.update_entry_status(&key(last / 2), UpdateStatus::DataNonResident);
            "update_entry_status(middle key, DataNonResident)"
        }
        3 => {
            mgr.update_entry_status(&key(last), UpdateStatus::DataNonResident);
            "update_entry_status(last key, DataNonResident)"
        }
        4 => {
            mgr.update_entry_status(&key(last), UpdateStatus::HeaderNonResident);
            "update_entry_status(last key, HeaderNonResident)"
        }
        5 => {
            mgr.remove_entry(&key(last));
            "remove_entry(last key)"
        }
        _ => {
            mgr.update_entry(&key(last / 2), 7, 0x1234, 99);
            "update_entry(middle key)"
        }
    };
    if let Err(e) = mgr.save_all() {
        return Verdict::fail("C09:saved-index-guards:save_all-fails", e.to_string());
    }
    // the update section of a saved bucket starts at the first 64 KiB boundary behind the sorted
    // records (these buckets hold at most 23 KiB of them): pages of 512 bytes, 21 records of 24
    let mut checked = 0usize;
    let Ok(rd) = std::fs::read_dir(dir.path()) else { return Verdict::pass().class("VACUOUS:no-files") };
    for e in rd.flatten() {
        let p = e.path();
        if p.extension().and_then(|x| x.to_str()) != Some("idx") {
            continue;
        }
        let Ok(bytes) = std::fs::read(&p) else { continue };
        let mut page = 0x1_0000usize;
        while page + 512 <= bytes.len() {
            for slot in 0..21 {
                let rec = &bytes[page + slot * 24..page + slot * 24 + 24];
                let guard = u32::from_le_bytes(rec[0..4].try_into().unwrap());
                if guard == 0 && rec.iter().all(|b| *b == 0) {
                    continue;
                }
                let want = vh_engine::refimpl::lookup3::hashlittle(&rec[4..23], 0) | 0x8000_0000;
                checked += 1;
                if guard != want {
                    return Verdict::fail(
                        "C09:saved-index-guards:record-guard-is-not-lookup3-of-its-bytes",
                        format!("{} records in the bucket, then {what}: record at file offset {:#x} ({}) carries guard {guard:#010x}, hashlittle(bytes[4..23], 0) | 0x80000000 = {want:#010x}", c.n, page + slot * 24, rec.iter().map(|b| format!("{b:02x}")).collect::<String>()),
                    );
                }
            }
            page += 512;
        }
    }
    Verdict::pass().nontrivial(checked > 0).class_if(c.n >= 1260, "update-log-full").class_if(checked == 0, "no-update-record-in-the-saved-file")
}

#[derive(Debug, Clone, Serialize, Deserialize)]
struct UsersCase {
    ekey: [u8; 16],
    blte_size: u32,
    base_offset: usize,
    archive_id: u16,
    archive_offset: u32,
    encoded_size: u32,
    status: u8,
    span: [i32; 4],
    utype: u8,
}

fn check_users(c: &UsersCase) -> Verdict {
    // LocalHeader: layout from the doc comment — reversed key | BE size incl. header | LE flags | A | B
    let Some(total) = c.blte_size.checked_add(30) else {
        return Verdict::pass();
    };
    let h = LocalHeader::new(c.ekey, c.blte_size, c.base_offset);
    let mut exp = [0u8; 30];
    for i in 0..16 {
        exp[i] = c.ekey[15 - i];
    }
    exp[16..20].copy_from_slice(&total.to_be_bytes());
    let a = lookup3::hashlittle(&exp[..22], 0x3D6B_E971);
    exp[22..26].copy_from_slice(&a.to_le_bytes());
    let mut bsum = [0u8; 4];
    for i in 0..26 {
        bsum[(c.base_offset.wrapping_add(i)) % 4] ^= exp[i];
    }
    exp[26..30].copy_from_slice(&bsum);
    let got = h.to_bytes();
    if got[..26] != exp[..26] {
        return Verdict::fail("C09:local-header:checksum-a-or-layout", format!("got {} want {}", hex(&got), hex(&exp)));
    }
    if got != exp {
        return Verdict::fail("C09:local-header:checksum-b", format!("got {} want {}", hex(&got), hex(&exp)));
    }
    if !h.validate_checksums(c.base_offset) {
        return Verdict::fail("C09:local-header:own-header-invalid", "validate_checksums false on a fresh header");
    }
    // UpdateEntry guard
    let status = match c.status % 4 {
        0 => UpdateStatus::Normal,
        1 => UpdateStatus::Delete,
        2 => UpdateStatus::HeaderNonResident,
        _ => UpdateStatus::DataNonResident,
    };
    let mut k9 = [0u8; 9];
    k9.copy_from_slice(&c.ekey[..9]);
    let id = c.archive_id & 0x3FF;
    let off = c.archive_offset & 0x3FFF_FFFF;
    let ue = UpdateEntry::new(k9, ArchiveLocation { archive_id: id, archive_offset: off }, c.encoded_size, status);
    let mut eb = [0u8; 24];
    eb[4..13].copy_from_slice(&k9);
    eb[13] = (id >> 2) as u8;
    let packed: u32 = ((id as u32 & 3) << 30) | off;
    eb[14..18].copy_from_slice(&packed.to_be_bytes());
    eb[18..22].copy_from_slice(&c.encoded_size.to_le_bytes());
    eb[22] = status as u8;
    let g = lookup3::hashlittle(&eb[4..23], 0) | 0x8000_0000;
    eb[0..4].copy_from_slice(&g.to_le_bytes());
    if ue.to_bytes() != eb {
        return Verdict::fail("C09:update-entry:guard-or-layout", format!("got {} want {}", hex(&ue.to_bytes()), hex(&eb)));
    }
    if !ue.validate_hash_guard() {
        return Verdict::fail("C09:update-entry:own-guard-invalid", "");
    }
    // ... and the reading direction: a slot written by another implementation, with ANY status byte
    // and the guard of the published rule over the bytes as they are on disk, is a valid slot
    {
        use cascette_client_storage::index::update::UpdatePage;
        let mut slot = eb;
        slot[22] = c.status;
        let g = lookup3::hashlittle(&slot[4..23], 0) | 0x8000_0000;
        slot[0..4].copy_from_slice(&g.to_le_bytes());
        let mut page = [0u8; 512];
        page[..24].copy_from_slice(&slot);
        let found = UpdatePage::from_bytes(&page).is_some_and(|p| {
            p.entries().iter().any(|e| e.ekey == k9 && e.archive_location.archive_id == id && e.archive_location.archive_offset == off && e.encoded_size == c.encoded_size)
        });
        if !found {
            return Verdict::fail(
                "C09:update-entry:slot-with-valid-guard-not-read",
                format!("UpdatePage::from_bytes does not return the slot {} (status byte {:#04x}, guard = hashlittle(bytes[4..23], 0) | 0x80000000)", hex(&slot), c.status),
            );
        }
    }
    // ResidencyEntry guard
    let ut = match c.utype % 6 {
        0 => ResidencyUpdateType::Invalid,
        1 => ResidencyUpdateType::Set,
        2 => ResidencyUpdateType::Create,
        3 => ResidencyUpdateType::Delete,
        4 => ResidencyUpdateType::MarkResident,
        _ => ResidencyUpdateType::MarkNonResident,
    };
    let span = ResidencySpan { offset: c.span[0], length: c.span[1], reserved1: c.span[2], reserved2: c.span[3] };
    let re = ResidencyEntry::new(c.ekey, span, ut);
    let mut rb = [0u8; 40];
    rb[4..20].copy_from_slice(&c.ekey);
    for (i, v) in c.span.iter().enumerate() {
        rb[20 + 4 * i..24 + 4 * i].copy_from_slice(&v.to_be_bytes());
    }
    rb[36] = ut as u8;
    let g = lookup3::hashlittle(&rb[4..37], 0) | 0x8000_0000;
    rb[0..4].copy_from_slice(&g.to_le_bytes());
    if re.to_bytes() != rb {
        return Verdict::fail("C09:residency-entry:guard-or-layout", format!("got {} want {}", hex(&re.to_bytes()), hex(&rb)));
    }
    Verdict::pass().nontrivial(true)
}

fn hex(b: &[u8]) -> String {
    b.iter().map(|x| format!("{x:02x}")).collect()
}

fn subsets_of_host() -> Vec<CpuFeatures> {
    let h = detect_cpu_features();
    let mut v = Vec::new();
    for m in 0..16u8 {
        let f = CpuFeatures { sse2: m & 1 != 0, sse4_1: m & 2 != 0, avx2: m & 4 != 0, avx512: m & 8 != 0 };
        if (f.sse2 && !h.sse2) || (f.sse4_1 && !h.sse4_1) || (f.avx2 && !h.avx2) || (f.avx512 && !h.avx512) {
            continue;
        }
        v.push(f);
    }
    v
}

fn feat_name(f: &CpuFeatures) -> String {
    format!("sse2={} sse4_1={} avx2={} avx512={}", f.sse2, f.sse4_1, f.avx2, f.avx512)
}

#[derive(Debug, Clone, Serialize, Deserialize)]
struct MemcmpCase {
    len: usize,
    /// index of first difference; len = none
    diff_at: usize,
    /// whether the differing byte of `a` is smaller
    a_smaller: bool,
    /// later differences pointing the other way
    noise_after: bool,
    content_seed: u64,
}

fn check_memcmp(c: &MemcmpCase, feats: &[CpuFeatures]) -> Verdict {
    let mut r = Rng::new(c.content_seed);
    let a0 = r.bytes(c.len);
    let mut a = a0.clone();
    let mut b = a0;
    if c.diff_at < c.len {
        // choose values incl. the sign boundary 0x7f/0x80
        let (lo, hi) = match r.below(3) {
            0 => (0x7fu8, 0x80u8),
            1 => (0x00, 0xff),
            _ => {
                let x = (r.below(255)) as u8;
                (x, x + 1)
            }
        };
        if c.a_smaller {
            a[c.diff_at] = lo;
            b[c.diff_at] = hi;
        } else {
            a[c.diff_at] = hi;
            b[c.diff_at] = lo;
        }
        if c.noise_after {
            for i in c.diff_at + 1..c.len {
                if r.below(3) == 0 {
                    // opposite direction
                    if c.a_smaller {
                        a[i] = 0xff;
                        b[i] = 0;
                    } else {
                        a[i] = 0;
                        b[i] = 0xff;
                    }
                }
            }
        }
    }
    let base = CpuFeatures::none();
    let want = base.vectorized_memcmp(&a, &b);
    if want != a.cmp(&b) {
        return Verdict::fail("C09:simd:memcmp-fallback-not-lexicographic", format!("len={}", c.len));
    }
    // pairs of independent buffers, and views of ONE buffer: same start with another length, and
    // overlapping windows (callers compare a value against slices of itself)
    let cut = c.diff_at.min(a.len());
    let views: [(&[u8], &[u8]); 5] = [(&a, &b), (&a, &a), (&a, &a[..cut]), (&a[..cut], &a), (&a[cut / 2..], &a[..a.len() - cut / 2])];
    let want_eq = base.batch_mem_equal(&views);
    let want_views: Vec<std::cmp::Ordering> = views.iter().map(|(x, y)| x.cmp(y)).collect();
    if want_eq != views.iter().map(|(x, y)| x == y).collect::<Vec<bool>>() {
        return Verdict::fail("C09:simd:batch_mem_equal-fallback-not-equality", format!("len={} diff_at={}: {:?}", c.len, c.diff_at, want_eq));
    }
    for f in feats {
        for (i, (x, y)) in views.iter().enumerate() {
            if f.vectorized_memcmp(x, y) != want_views[i] {
                return Verdict::fail(
                    "C09:simd:memcmp-differs-from-fallback",
                    format!("[{}] view pair #{i} (lengths {} / {}) of one buffer of {} bytes: got {:?} want {:?}", feat_name(f), x.len(), y.len(), a.len(), f.vectorized_memcmp(x, y), want_views[i]),
                );
            }
        }
        let got = f.vectorized_memcmp(&a, &b);
        if got != want {
            return Verdict::fail(
                "C09:simd:memcmp-differs-from-fallback",
                format!("[{}] len={} diff_at={} got {:?} want {:?}", feat_name(f), c.len, c.diff_at, got, want),
            );
        }
        if f.simd_memcmp(&a, &b) != want {
            return Verdict::fail("C09:simd:simd_memcmp-differs-from-fallback", format!("[{}] len={}", feat_name(f), c.len));
        }
        let ge = f.batch_mem_equal(&views);
        if ge != want_eq {
            return Verdict::fail(
                "C09:simd:batch_mem_equal-differs-from-fallback",
                format!("[{}] len={} diff_at={} got {:?} want {:?}", feat_name(f), c.len, c.diff_at, ge, want_eq),
            );
        }
    }
    Verdict::pass().nontrivial(feats.len() > 1 && c.len >= 1).class_if(c.diff_at < c.len, "differs").class_if(c.len >= 32, "len>=32")
}

#[derive(Debug, Clone, Serialize, Deserialize)]
struct MemmemCase {
    hay_len: usize,
    needle_len: usize,
    /// position where the needle is planted; >= hay_len means "not planted"
    pos: usize,
    alphabet: u8,
    content_seed: u64,
}

fn check_memmem(c: &MemmemCase, feats: &[CpuFeatures]) -> Verdict {
    let mut r = Rng::new(c.content_seed);
    let al = c.alphabet.max(1) as u64;
    let mut hay: Vec<u8> = (0..c.hay_len).map(|_| r.below(al) as u8).collect();
    let needle: Vec<u8> = (0..c.needle_len).map(|_| r.below(al) as u8).collect();
    let planted = c.needle_len <= c.hay_len && c.pos + c.needle_len <= c.hay_len;
    if planted {
        hay[c.pos..c.pos + c.needle_len].copy_from_slice(&needle);
    }
    let base = CpuFeatures::none();
    let want = base.vectorized_memmem(&hay, &needle);
    // the fallback itself must be the textbook answer
    let naive = if needle.is_empty() {
        Some(0)
    } else if needle.len() > hay.len() {
        None
    } else {
        (0..=hay.len() - needle.len()).find(|&i| hay[i..i + needle.len()] == needle[..])
    };
    if want != naive {
        return Verdict::fail("C09:simd:memmem-fallback-wrong", format!("hay={} needle={}", c.hay_len, c.needle_len));
    }
    for f in feats {
        let got = f.vectorized_memmem(&hay, &needle);
        if got != want {
            return Verdict::fail(
                "C09:simd:memmem-differs-from-fallback",
                format!("[{}] hay={} needle={} pos={} got {:?} want {:?}", feat_name(f), c.hay_len, c.needle_len, c.pos, got, want),
            );
        }
        if f.simd_search(&hay, &needle) != want {
            return Verdict::fail("C09:simd:simd_search-differs-from-fallback", format!("[{}]", feat_name(f)));
        }
    }
    Verdict::pass()
        .nontrivial(feats.len() > 1 && c.needle_len >= 1)
        .class_if(planted, "planted")
        .class_if(want.is_none(), "absent")
        .class_if(planted && want != Some(c.pos), "earlier-match")
        .class_if(c.needle_len >= 4, "needle>=4")
}

#[derive(Debug, Clone, Serialize, Deserialize)]
struct MemsetCase {
    len: usize,
    lead: usize,
    value: u8,
    src_len: usize,
    content_seed: u64,
}

fn check_memset(c: &MemsetCase, feats: &[CpuFeatures]) -> Verdict {
    let mut r = Rng::new(c.content_seed);
    let total = c.lead + c.len + 48;
    let canvas = r.bytes(total);
    let src = r.bytes(c.src_len);
    let base = CpuFeatures::none();
    let mut want_set = canvas.clone();
    base.simd_memset(&mut want_set[c.lead..c.lead + c.len], c.value);
    let mut want_cpy = canvas.clone();
    base.simd_memcpy(&mut want_cpy[c.lead..c.lead + c.len], &src);
    // fallbacks vs definition
    let mut def = canvas.clone();
    for x in &mut def[c.lead..c.lead + c.len] {
        *x = c.value;
    }
    if def != want_set {
        return Verdict::fail("C09:simd:memset-fallback-wrong", format!("len={}", c.len));
    }
    let mut def = canvas.clone();
    let n = c.len.min(c.src_len);
    def[c.lead..c.lead + n].copy_from_slice(&src[..n]);
    if def != want_cpy {
        return Verdict::fail("C09:simd:memcpy-fallback-wrong", format!("len={} src={}", c.len, c.src_len));
    }
    for f in feats {
        let mut g = canvas.clone();
        f.simd_memset(&mut g[c.lead..c.lead + c.len], c.value);
        if g != want_set {
            return Verdict::fail(
                "C09:simd:memset-differs-from-fallback",
                format!("[{}] len={} lead={} (canary or content)", feat_name(f), c.len, c.lead),
            );
        }
        let mut g = canvas.clone();
        f.simd_memcpy(&mut g[c.lead..c.lead + c.len], &src);
        if g != want_cpy {
            return Verdict::fail(
                "C09:simd:memcpy-differs-from-fallback",
                format!("[{}] len={} src={} lead={}", feat_name(f), c.len, c.src_len, c.lead),
            );
        }
    }
    Verdict::pass().nontrivial(feats.len() > 1 && c.len >= 1).class_if(c.len >= 32, "len>=32").class_if(c.len % 16 != 0, "ragged")
}

#[derive(Debug, Clone, Serialize, Deserialize)]
struct BatchCase {
    lens: Vec<usize>,
    content_seed: u64,
}

fn check_batch(c: &BatchCase, feats: &[CpuFeatures]) -> Verdict {
    let mut r = Rng::new(c.content_seed);
    let bufs: Vec<Vec<u8>> = c.lens.iter().map(|&l| r.bytes(l)).collect();
    // ASCII paths for the &str API (any byte values would do; str must be UTF-8)
    let paths: Vec<String> = c
        .lens
        .iter()
        .map(|&l| (0..l).map(|_| (b' ' + r.below(95) as u8) as char).collect())
        .collect();
    let refs: Vec<&[u8]> = bufs.iter().map(Vec::as_slice).collect();
    let prefs: Vec<&str> = paths.iter().map(String::as_str).collect();
    let base = CpuFeatures::none();
    let wk = base.batch_content_keys(&refs);
    let wj = base.batch_jenkins96_data(&refs);
    let wp = base.batch_jenkins96_paths(&prefs);
    // fallbacks vs the references
    for (i, b) in bufs.iter().enumerate() {
        if wk[i].as_bytes() != &md5::md5(b) {
            return Verdict::fail("C09:simd:batch_content_keys-fallback-not-md5", format!("len={}", b.len()));
        }
        let (jc, jb) = lookup3::hashlittle2(b, 0, 0);
        if wj[i].hash64 != ((jc as u64) << 32 | jb as u64) || wj[i].hash32 != jc {
            return Verdict::fail("C09:simd:batch_jenkins96-fallback-not-lookup3", format!("len={}", b.len()));
        }
    }
    for f in feats {
        if f.batch_content_keys(&refs) != wk {
            return Verdict::fail("C09:simd:batch_content_keys-differs-from-fallback", format!("[{}] lens={:?}", feat_name(f), c.lens));
        }
        if f.batch_jenkins96_data(&refs) != wj {
            return Verdict::fail("C09:simd:batch_jenkins96_data-differs-from-fallback", format!("[{}] lens={:?}", feat_name(f), c.lens));
        }
        if f.batch_jenkins96_paths(&prefs) != wp {
            return Verdict::fail("C09:simd:batch_jenkins96_paths-differs-from-fallback", format!("[{}] lens={:?}", feat_name(f), c.lens));
        }
    }
    Verdict::pass().nontrivial(feats.len() > 1 && !c.lens.is_empty()).class_if(c.lens.len() >= 4, "batch>=4").class_if(c.lens.len() % 4 != 0, "ragged-batch")
}

fn main() {
    let mut ck = Check::from_args("C09", "exploration");
    let tier = ck.tier;
    let seed = ck.seed;
    ck.extra(
        "rule",
        "differential vs reference (lookup3/Salsa20 spec/RC4/RFC1321) and vs CpuFeatures::none(); non-trivial = hash input len>=1, \
         Salsa20 len>64, ARC4 len>=1, SIMD case run under at least one non-empty feature subset; distinct by case hash"
            .into(),
    );
    ck.assume("reference implementations in vh_engine::refimpl are correct (pinned by published vectors in vh-selftest)");
    ck.assume("Salsa20 64-byte block counter carry into the second counter word (2^38 bytes) and lookup3 inputs > 4 GiB are not reached");
    let bad = vh_engine::refimpl::self_test();
    if !bad.is_empty() {
        for b in bad {
            ck.infra(format!("reference self-test failed: {b}"));
        }
        ck.finish();
    }

    // 1. every length 0..=1024 x 8 seed pairs
    ck.run(
        Section::enumerate(
            "hash-all-lengths",
            "hashlittle/hashlittle2/Jenkins96: every length 0..=1024 x 8 seed pairs (contents from VERIF_SEED)",
            move || {
                Box::new((0..=1024usize).flat_map(move |len| {
                    (0..SEEDS.len()).map(move |seed_ix| HashLenCase {
                        len,
                        seed_ix,
                        content_seed: seed ^ ((len as u64) << 8) ^ seed_ix as u64,
                    })
                }))
            },
            |c: &HashLenCase| {
                let data = Rng::new(c.content_seed).bytes(c.len);
                let (pc, pb) = SEEDS[c.seed_ix % SEEDS.len()];
                match check_hash(&data, pc, pb) {
                    Some((k, m)) => Verdict::fail(k, m),
                    None => Verdict::pass().nontrivial(c.len >= 1).class_if(c.len % 12 == 0, "len%12==0").class_if(c.len > 12, "multi-block"),
                }
            },
        )
        .shards(8),
    );

    // 2. random contents
    ck.run(
        Section::pbt(
            "hash-random",
            tier.pick(200_000, 5_000_000),
            || {
                (
                    prop_oneof![
                        4 => proptest::collection::vec(any::<u8>(), 0..64),
                        2 => proptest::collection::vec(any::<u8>(), 0..1100),
                        1 => proptest::collection::vec(prop_oneof![Just(0u8), Just(0xffu8), Just(0x80u8)], 0..200),
                        1 => proptest::collection::vec(any::<u8>(), 1000..5000),
                    ],
                    prop_oneof![Just(0u32), Just(u32::MAX), any::<u32>()],
                    prop_oneof![Just(0u32), Just(u32::MAX), any::<u32>()],
                )
                    .prop_map(|(data, pc, pb)| HashCase { data, pc, pb })
                    .boxed()
            },
            |c: &HashCase| match check_hash(&c.data, c.pc, c.pb) {
                Some((k, m)) => Verdict::fail(k, m),
                None => Verdict::pass().nontrivial(!c.data.is_empty()).class_if(c.data.len() > 12, "multi-block"),
            },
        )
        .shards(8),
    );

    // 3. Salsa20
    const BLOCKS: [u32; 7] = [0, 1, 255, 256, 65_535, 65_536, u32::MAX];
    ck.run(
        Section::enumerate(
            "salsa20-all-lengths",
            "Salsa20: every length 0..=300 x IV length {4,8} x block index {0,1,255,256,65535,65536,2^32-1}; piecewise split at len/2",
            move || {
                Box::new((0..=300usize).flat_map(move |len| {
                    [4usize, 8].into_iter().flat_map(move |ivl| {
                        BLOCKS.into_iter().map(move |b| {
                            let mut r = Rng::new(seed ^ (len as u64) << 20 ^ (ivl as u64) << 8 ^ b as u64);
                            let mut key = [0u8; 16];
                            key.copy_from_slice(&r.bytes(16));
                            SalsaCase { key, iv: r.bytes(ivl), block_index: b, len, content_seed: r.next_u64(), split: len / 2 }
                        })
                    })
                }))
            },
            check_salsa,
        )
        .shards(8),
    );
    ck.run(
        Section::enumerate(
            "salsa20-all-splits",
            "Salsa20: every split point 0..=len for len in {1,63,64,65,128,200}",
            move || {
                Box::new([1usize, 63, 64, 65, 128, 200].into_iter().flat_map(move |len| {
                    (0..=len).map(move |split| {
                        let mut r = Rng::new(seed ^ 0xabcdef ^ (len as u64) << 20 ^ split as u64);
                        let mut key = [0u8; 16];
                        key.copy_from_slice(&r.bytes(16));
                        let ivl = if split % 2 == 0 { 4 } else { 8 };
                        SalsaCase { key, iv: r.bytes(ivl), block_index: r.next_u64() as u32, len, content_seed: r.next_u64(), split }
                    })
                }))
            },
            check_salsa,
        )
        .shards(4),
    );
    ck.run(
        Section::pbt(
            "salsa20-random",
            tier.pick(30_000, 1_000_000),
            || {
                (
                    any::<[u8; 16]>(),
                    prop_oneof![proptest::collection::vec(any::<u8>(), 4), proptest::collection::vec(any::<u8>(), 8)],
                    prop_oneof![2 => any::<u32>(), 1 => proptest::sample::select(BLOCKS.to_vec())],
                    prop_oneof![4 => 0usize..400, 2 => 0usize..5000, 1 => 0usize..65_537],
                    any::<u64>(),
                    any::<u16>(),
                )
                    .prop_map(|(key, iv, block_index, len, content_seed, sp)| SalsaCase {
                        key,
                        iv,
                        block_index,
                        len,
                        content_seed,
                        split: vh_engine::pick_idx(sp, len + 1),
                    })
                    .boxed()
            },
            check_salsa,
        )
        .shards(8),
    );

    // 4. ARC4
    ck.run(
        Section::enumerate(
            "arc4-all-key-lengths",
            "ARC4: every key length 1..=256 x data length {0,1,255,256,257,1000}",
            move || {
                Box::new((1..=256usize).flat_map(move |kl| {
                    [0usize, 1, 255, 256, 257, 1000].into_iter().map(move |len| {
                        let mut r = Rng::new(seed ^ 0x4444 ^ (kl as u64) << 16 ^ len as u64);
                        Arc4Case { key: r.bytes(kl), len, content_seed: r.next_u64(), split: len / 3 }
                    })
                }))
            },
            check_arc4,
        )
        .shards(4),
    );
    ck.run(
        Section::pbt(
            "arc4-random",
            tier.pick(30_000, 1_000_000),
            || {
                (
                    prop_oneof![
                        3 => proptest::collection::vec(any::<u8>(), 1..=32),
                        1 => proptest::collection::vec(any::<u8>(), 1..=256),
                        1 => proptest::collection::vec(Just(0u8), 1..=16),
                    ],
                    prop_oneof![3 => 0usize..300, 1 => 0usize..4097],
                    any::<u64>(),
                    any::<u16>(),
                )
                    .prop_map(|(key, len, content_seed, sp)| Arc4Case { key, len, content_seed, split: vh_engine::pick_idx(sp, len + 1) })
                    .boxed()
            },
            check_arc4,
        )
        .shards(8),
    );

    // 5. MD5-based keys
    ck.run(
        Section::enumerate(
            "md5-keys-all-lengths",
            "ContentKey/EncodingKey::from_data vs RFC 1321: every length 0..=300 (padding boundaries 55/56/63/64/119/120)",
            move || Box::new((0..=300usize).map(move |len| Md5Case { len, content_seed: seed ^ 0x5555 ^ len as u64 })),
            |c: &Md5Case| {
                let data = Rng::new(c.content_seed).bytes(c.len);
                let want = md5::md5(&data);
                if ContentKey::from_data(&data).as_bytes() != &want {
                    return Verdict::fail("C09:md5:content-key-differs", format!("len={}", c.len));
                }
                if EncodingKey::from_data(&data).as_bytes() != &want {
                    return Verdict::fail("C09:md5:encoding-key-differs", format!("len={}", c.len));
                }
                Verdict::pass().nontrivial(c.len >= 1)
            },
        )
        .shards(2),
    );
    ck.run(Section::pbt(
        "md5-keys-random",
        tier.pick(5_000, 100_000),
        || (0usize..20_000, any::<u64>()).prop_map(|(len, content_seed)| Md5Case { len, content_seed }).boxed(),
        |c: &Md5Case| {
            let data = Rng::new(c.content_seed).bytes(c.len);
            let want = md5::md5(&data);
            if ContentKey::from_data(&data).as_bytes() != &want || EncodingKey::from_data(&data).as_bytes() != &want {
                return Verdict::fail("C09:md5:key-differs", format!("len={}", c.len));
            }
            Verdict::pass().nontrivial(c.len >= 1)
        },
    ).shards(4));

    // 6. users of the hashes
    ck.run(
        Section::pbt(
            "hash-users",
            tier.pick(200_000, 3_000_000),
            || {
                (
                    any::<[u8; 16]>(),
                    prop_oneof![Just(0u32), any::<u32>(), 0u32..100_000],
                    prop_oneof![0usize..8, any::<usize>()],
                    prop_oneof![Just(1023u16), any::<u16>()],
                    prop_oneof![Just(0x3FFF_FFFFu32), any::<u32>()],
                    any::<u32>(),
                    any::<u8>(),
                    any::<[i32; 4]>(),
                    any::<u8>(),
                )
                    .prop_map(|(ekey, blte_size, base_offset, archive_id, archive_offset, encoded_size, status, span, utype)| UsersCase {
                        ekey,
                        blte_size,
                        base_offset,
                        archive_id,
                        archive_offset,
                        encoded_size,
                        status,
                        span,
                        utype,
                    })
                    .boxed()
            },
            check_users,
        )
        .shards(8),
    );

    // 6b. the guards as they end up in a saved index file, after histories that fill a bucket's
    //     update log and then change records in it
    ck.run(
        Section::enumerate(
            "saved-index-guards",
            "IndexManager: n in {3, 20, 21, 22, 1259, 1260, 1261} records in one bucket, then one of {nothing, update_entry_status of the first / a middle / the last key to non-resident, to header-non-resident, remove of the last key, update_entry of a middle key}, save_all: every non-empty 24-byte record of the saved update section carries hashlittle(bytes[4..23], 0) | 0x80000000 by the reference lookup3".to_string(),
            || Box::new([3u16, 20, 21, 22, 1259, 1260, 1261].into_iter().flat_map(|n| (0u8..7).map(move |then| GuardCase { n, then }))),
            check_saved_guards,
        )
        .shards(8),
    );

    // 7. SIMD helpers: every subset of host features vs none()
    let feats = subsets_of_host();
    ck.extra(
        "cpu_feature_subsets",
        serde_json::json!({"host": feat_name(&detect_cpu_features()), "subsets_checked": feats.len()}),
    );
    let f1 = feats.clone();
    ck.run(
        Section::enumerate(
            "simd-memcmp-all",
            "vectorized_memcmp/batch_mem_equal: every length 0..=200 x first difference at every index (and none) x both directions x noise on/off, all host feature subsets",
            move || {
                Box::new((0..=200usize).flat_map(move |len| {
                    (0..=len).flat_map(move |diff_at| {
                        [(false, false), (true, false), (false, true), (true, true)].into_iter().map(move |(a_smaller, noise_after)| MemcmpCase {
                            len,
                            diff_at,
                            a_smaller,
                            noise_after,
                            content_seed: seed ^ 0x6666 ^ (len as u64) << 24 ^ (diff_at as u64) << 4 ^ (a_smaller as u64) << 1 ^ noise_after as u64,
                        })
                    })
                }))
            },
            move |c: &MemcmpCase| check_memcmp(c, &f1),
        )
        .shards(8),
    );
    let f2 = feats.clone();
    ck.run(
        Section::enumerate(
            "simd-memmem-all",
            "vectorized_memmem: needle length 1..=40 x haystack length {needle,33,64,100,200} x every position (and absent) x alphabet {2,256}, all host feature subsets",
            move || {
                Box::new((1..=40usize).flat_map(move |needle_len| {
                    [needle_len, 33, 64, 100, 200].into_iter().filter(move |&h| h >= needle_len).flat_map(move |hay_len| {
                        (0..=hay_len - needle_len + 1).flat_map(move |pos| {
                            [2u8, 255].into_iter().map(move |alphabet| MemmemCase {
                                hay_len,
                                needle_len,
                                // the extra position means "not planted"
                                pos: if pos == hay_len - needle_len + 1 { hay_len } else { pos },
                                alphabet,
                                content_seed: seed ^ 0x7777 ^ (needle_len as u64) << 32 ^ (hay_len as u64) << 16 ^ (pos as u64) << 1 ^ (alphabet == 2) as u64,
                            })
                        })
                    })
                }))
            },
            move |c: &MemmemCase| check_memmem(c, &f2),
        )
        .shards(8),
    );
    let f3 = feats.clone();
    ck.run(
        Section::pbt(
            "simd-memmem-random",
            tier.pick(50_000, 2_000_000),
            || {
                (0usize..300, 0usize..48, any::<u16>(), prop_oneof![Just(1u8), Just(2u8), Just(3u8), Just(255u8)], any::<u64>())
                    .prop_map(|(hay_len, needle_len, p, alphabet, content_seed)| MemmemCase {
                        hay_len,
                        needle_len,
                        pos: vh_engine::pick_idx(p, hay_len + 8),
                        alphabet,
                        content_seed,
                    })
                    .boxed()
            },
            move |c: &MemmemCase| check_memmem(c, &f3),
        )
        .shards(8),
    );
    let f4 = feats.clone();
    ck.run(
        Section::enumerate(
            "simd-memset-memcpy-all",
            "simd_memset/simd_memcpy: every length 0..=200 x lead offset {0,1,7,16} x source length {len, len-1, len+5}, canary bytes around the destination, all host feature subsets",
            move || {
                Box::new((0..=200usize).flat_map(move |len| {
                    [0usize, 1, 7, 16].into_iter().flat_map(move |lead| {
                        [len, len.saturating_sub(1), len + 5].into_iter().map(move |src_len| MemsetCase {
                            len,
                            lead,
                            value: (len as u8).wrapping_mul(31).wrapping_add(lead as u8),
                            src_len,
                            content_seed: seed ^ 0x8888 ^ (len as u64) << 16 ^ (lead as u64) << 8 ^ src_len as u64,
                        })
                    })
                }))
            },
            move |c: &MemsetCase| check_memset(c, &f4),
        )
        .shards(4),
    );
    let f5 = feats.clone();
    ck.run(
        Section::pbt(
            "simd-batch-hashes",
            tier.pick(30_000, 1_000_000),
            || {
                (proptest::collection::vec(prop_oneof![4 => 0usize..80, 1 => 0usize..2000], 0..12), any::<u64>())
                    .prop_map(|(lens, content_seed)| BatchCase { lens, content_seed })
                    .boxed()
            },
            move |c: &BatchCase| check_batch(c, &f5),
        )
        .shards(8),
    );

    // batches a vector kernel can take in lockstep: all items of one length, one item per lane
    let f6 = feats.clone();
    ck.run(
        Section::enumerate(
            "simd-batch-uniform",
            "batch_content_keys / batch_jenkins96_data / batch_jenkins96_paths on batches of 1, 4, 7, 8, 9, 16, 17 and 24 items that all have the same length, every length 0..=200 and 252, 256, 1020, 1024; and the same 8 / 16 items followed by three items of other lengths; all host feature subsets against none() and the reference lookup3".to_string(),
            move || {
                Box::new((0..=200usize).chain([252, 256, 1020, 1024]).flat_map(move |len| {
                    [1usize, 4, 7, 8, 9, 16, 17, 24].into_iter().flat_map(move |n| {
                        let mut v = vec![BatchCase { lens: vec![len; n], content_seed: seed ^ 0x8888 ^ (len as u64) << 8 ^ n as u64 }];
                        if n == 8 || n == 16 {
                            let mut lens = vec![len; n];
                            lens.extend([len + 1, 0, 12]);
                            v.push(BatchCase { lens, content_seed: seed ^ 0x9999 ^ (len as u64) << 8 ^ n as u64 });
                        }
                        v
                    })
                }))
            },
            move |c: &BatchCase| check_batch(c, &f6),
        )
        .shards(8),
    );

    ck.finish();
}
