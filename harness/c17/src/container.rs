//! C17 / container-lru: the LRU manager as `DynamicContainer` drives it (anchor
//! `container/dynamic.rs`): every successful `write` and `read` of a key is a touch. Histories of
//! writes and reads over a small key pool against a textbook LRU; optionally another thread holds
//! the shared LRU lock (the container is handed an `Arc<RwLock<LruManager>>` that other components
//! use too) when a read is issued — the read has to wait for the lock, not skip the touch.

use cascette_client_storage::container::{AccessMode, Container, DynamicContainer};
use cascette_client_storage::lru::LruManager;
use parking_lot::RwLock;
use proptest::prelude::*;
use serde::{Deserialize, Serialize};
use std::sync::Arc;
use std::time::Duration;
use vh_engine::Verdict;
use vh_engine::pick_idx;

#[derive(Debug, Clone, Serialize, Deserialize)]
pub enum COp {
    /// write object #i of the pool (content fixed per index)
    Write(u16),
    /// read object #i; `hold`: 0 = nobody holds the LRU lock, 1 = another thread holds it shared,
    /// 2 = exclusively, for ~40 ms from just before the read
    Read { i: u16, hold: u8 },
    /// drop the container and open the same storage again, with the same shared manager:
    /// 0 = read-write, 1 = read-only (writes are refused, reads still touch), 2 = exclusive
    Reopen(u8),
}

#[derive(Debug, Clone, Serialize, Deserialize)]
pub struct CCase {
    pub cap: u32,
    pub pool: u16,
    pub ops: Vec<COp>,
}

pub fn strategy() -> BoxedStrategy<CCase> {
    let op = prop_oneof![
        5 => any::<u16>().prop_map(COp::Write),
        6 => (any::<u16>(), prop_oneof![5 => Just(0u8), 1 => Just(1u8), 1 => Just(2u8)]).prop_map(|(i, hold)| COp::Read { i, hold }),
        2 => (0u8..3).prop_map(COp::Reopen),
    ];
    (1u32..=4, 2u16..=6, proptest::collection::vec(op, 1..=14)).prop_map(|(cap, pool, ops)| CCase { cap, pool, ops }).boxed()
}

fn content(i: usize) -> Vec<u8> {
    let mut v = vec![i as u8 ^ 0x5a; 20 + i * 7];
    v[0] = i as u8;
    v
}

/// encoding key the container files object #i under: MD5 of the single-chunk 'N' BLTE frame
fn ekey(i: usize) -> [u8; 16] {
    let mut b = b"BLTE\0\0\0\0N".to_vec();
    b.extend_from_slice(&content(i));
    vh_engine::refimpl::md5::md5(&b)
}

pub fn check(c: &CCase) -> Verdict {
    let Ok(dir) = tempfile::Builder::new().prefix("vh-c17c-").tempdir_in(if std::path::Path::new("/dev/shm").is_dir() { "/dev/shm" } else { "/tmp" }) else {
        return Verdict::pass().class("VACUOUS:no-tempdir");
    };
    let rt = tokio::runtime::Builder::new_current_thread().enable_all().build().expect("runtime");
    let lru = Arc::new(RwLock::new(LruManager::new(c.cap, dir.path().join("lru"))));
    let open = |mode: AccessMode| -> Result<DynamicContainer, Verdict> {
        let cont = DynamicContainer::builder(dir.path().join("store"))
            .access_mode(mode)
            .lru(Arc::clone(&lru))
            .build()
            .map_err(|e| Verdict::fail("C17:container-lru:build-fails", format!("{mode:?}: {e}")))?;
        rt.block_on(cont.open()).map_err(|e| Verdict::fail("C17:container-lru:open-fails", format!("{mode:?}: {e}")))?;
        Ok(cont)
    };
    let mut cont = match open(AccessMode::ReadWrite) {
        Ok(x) => x,
        Err(v) => return v,
    };
    let (mut read_only_reads, mut reopened) = (false, false);
    let mut mode = AccessMode::ReadWrite;
    // reference: most recent last
    let mut model: Vec<usize> = Vec::new();
    let mut stored = vec![false; c.pool as usize];
    let touch = |m: &mut Vec<usize>, i: usize, cap: usize| {
        m.retain(|x| *x != i);
        m.push(i);
        while m.len() > cap {
            m.remove(0);
        }
    };
    let (mut contended, mut reads) = (false, 0usize);
    for (n, op) in c.ops.iter().enumerate() {
        match op {
            COp::Reopen(m) => {
                mode = [AccessMode::ReadWrite, AccessMode::ReadOnly, AccessMode::Exclusive][(*m as usize).min(2)];
                drop(cont);
                cont = match open(mode) {
                    Ok(x) => x,
                    Err(v) => return v,
                };
                reopened = true;
            }
            COp::Write(i) => {
                let i = pick_idx(*i, c.pool as usize);
                if rt.block_on(cont.write(&ekey(i), &content(i))).is_ok() {
                    stored[i] = true;
                    touch(&mut model, i, c.cap as usize);
                }
            }
            COp::Read { i, hold } => {
                let i = pick_idx(*i, c.pool as usize);
                if !stored[i] {
                    continue;
                }
                let holder = if *hold > 0 {
                    contended = true;
                    let l2 = Arc::clone(&lru);
                    let excl = *hold == 2;
                    let (tx, rx) = std::sync::mpsc::channel::<()>();
                    let h = std::thread::spawn(move || {
                        if excl {
                            let _g = l2.write();
                            let _ = tx.send(());
                            std::thread::sleep(Duration::from_millis(40));
                        } else {
                            let _g = l2.read();
                            let _ = tx.send(());
                            std::thread::sleep(Duration::from_millis(40));
                        }
                    });
                    let _ = rx.recv();
                    Some(h)
                } else {
                    None
                };
                let want = content(i);
                let mut buf = vec![0u8; want.len() + 8];
                let r = rt.block_on(cont.read(&ekey(i), 0, want.len() as u32, &mut buf));
                if let Some(h) = holder {
                    let _ = h.join();
                }
                match r {
                    Ok(k) if buf[..k] == want[..] => {
                        reads += 1;
                        read_only_reads |= mode == AccessMode::ReadOnly;
                        touch(&mut model, i, c.cap as usize);
                    }
                    Ok(k) => return Verdict::fail("C17:container-lru:read-returns-other-bytes", format!("op #{n}: object {i}: {k} bytes")),
                    Err(e) => return Verdict::fail("C17:container-lru:read-of-stored-object-fails", format!("op #{n}: object {i}: {e}")),
                }
            }
        }
        // the manager's order, least recent first
        let mut got: Vec<[u8; 9]> = Vec::new();
        lru.read().for_each_entry(|k| {
            if got.len() <= c.cap as usize + 1 {
                got.push(*k);
            }
        });
        let want: Vec<[u8; 9]> = model.iter().map(|&i| ekey(i)[..9].try_into().unwrap()).collect();
        if got != want {
            let name = |k: &[u8; 9]| (0..c.pool as usize).find(|&i| ekey(i)[..9] == k[..]).map_or_else(|| format!("?{:02x}{:02x}", k[0], k[1]), |i| format!("#{i}"));
            let key = if matches!(op, COp::Read { hold, .. } if *hold > 0) { "C17:container-lru:order-differs-after-a-read-that-had-to-wait-for-the-lru-lock" } else { "C17:container-lru:order-differs-from-reference" };
            return Verdict::fail(
                key,
                format!(
                    "after op #{n} {op:?} (cap {}): manager holds [{}] (least recent first), a textbook LRU [{}]",
                    c.cap,
                    got.iter().map(name).collect::<Vec<_>>().join(" "),
                    want.iter().map(name).collect::<Vec<_>>().join(" ")
                ),
            );
        }
    }
    Verdict::pass().nontrivial(reads >= 1 && model.len() >= 1).class_if(contended, "read-while-lru-lock-held-elsewhere").class_if(reopened, "storage-reopened").class_if(read_only_reads, "read-through-a-read-only-container").class_if(c.ops.len() > c.cap as usize, "more-ops-than-capacity")
}
