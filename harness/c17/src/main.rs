//! C17 — the LRU tracker keeps recency order and its full capacity over any history.
//!
//! `LruManager` (cascette-client-storage/src/lru) is driven through a history of
//! operations next to a textbook LRU (`VecDeque`, front = least recent) of the
//! same capacity; after EVERY operation the two are compared through the public
//! API only: `len`, `is_empty`, `capacity`, `contains` for every key of the pool
//! and the tail→head order reported by `for_each_entry`, plus the documented
//! return values.
//!
//! Semantics of the operations (from the rustdoc of lru/mod.rs):
//! * `touch(k)`: present ⇒ moved to the MRU head; absent ⇒ inserted at the head,
//!   evicting the LRU tail first when at capacity; returns true.
//! * `remove(k)`: returns whether the key was present; removes it.
//! * `evict_tail()`: removes the least recent entry; `Some(_)` iff non-empty
//!   (the slot number itself is an implementation detail and is not compared).
//! * `evict_to_target(target_bytes, avg)`: evicts from the tail until at least
//!   `target_bytes` are freed, every entry counting `avg` bytes; returns
//!   (entries evicted, entries evicted × avg). `avg ≥ 1` always.
//! * `bump_generation()`, `checkpoint_to_disk()`: no effect on the contents.
//! * reload = `checkpoint_to_disk()`, then a FRESH manager of the same capacity
//!   on the same directory, `load_from_disk(generation of the checkpoint)`: the
//!   contents and order are those that were checkpointed.
//! * `run_cycle(size_limit, avg)`: "load from disk (if a checkpoint exists);
//!   evict to target size (if size_limit > 0)": afterwards `len × avg ≤
//!   size_limit`, evicting from the tail. Two forms are used so that which
//!   checkpoint is "the latest" never depends on undocumented generation
//!   handling: *in place* with no `.lru` file in the directory (pure eviction
//!   to size), and *fresh*: checkpoint, directory reduced to exactly that
//!   checkpoint file, fresh manager of the same capacity, `run_cycle`.
//! * `reset()`: "initial state": empty, same capacity.

mod container;

use cascette_client_storage::lru::LruManager;
use proptest::prelude::*;
use serde::{Deserialize, Serialize};
use std::collections::VecDeque;
use std::path::{Path, PathBuf};
use std::sync::atomic::{AtomicU64, Ordering};
use std::sync::{Arc, Mutex, OnceLock};
use std::time::{Duration, Instant};
use vh_engine::{Check, Known, Section, Verdict, pick_idx};

// ---------------------------------------------------------------------------
// narrow keys of the defects this check is expected to meet (DESIGN.md §3 C17)

/// slots freed by the public eviction paths are not reusable: the manager behaves
/// as if its capacity had shrunk by the number of entries evicted that way.
const K_LEAK: &str = "C17:lru:capacity-lost:evicted-slot-not-reusable";
/// `for_each_entry` leaves out a present key whose nine bytes are all zero.
const K_ZITER: &str = "C17:lru:zero-key:skipped-by-for_each_entry";
/// a present all-zero key is not restored by `load_from_disk`.
const K_ZLOAD: &str = "C17:lru:zero-key:lost-on-load";

// ---------------------------------------------------------------------------
// cases

#[derive(Debug, Clone, Copy, PartialEq, Eq, Serialize, Deserialize)]
enum Op {
    /// `touch(key #i)`
    Touch(u16),
    /// `remove(key #i)`
    Remove(u16),
    EvictTail,
    EvictToTarget {
        target: u64,
        avg: u64,
    },
    Bump,
    /// `checkpoint_to_disk()` alone
    Checkpoint,
    /// checkpoint, fresh manager of the same capacity, `load_from_disk`
    Reload,
    /// `run_cycle(limit, avg)`; `fresh`: checkpoint first and run the cycle on a
    /// fresh manager; otherwise in place with no checkpoint file present
    RunCycle {
        fresh: bool,
        limit: u64,
        avg: u64,
        /// `fresh` only: leave the checkpoint files of older generations in the directory (the
        /// one written just before has the highest generation and is the one to load)
        #[serde(default)]
        keep_older: bool,
    },
    Reset,
    /// `shutdown()` (bump, checkpoint, stale-file scan). `fail`: a directory sits where the
    /// checkpoint's temporary file goes, so the checkpoint cannot be written and the call must
    /// report the error; the files of earlier checkpoints are all it may leave behind
    Shutdown {
        fail: bool,
    },
    /// a new session: a fresh manager of the same capacity on the same directory, `run_cycle(0, 1)`;
    /// the harness touches no file. It must come up with the state of the last checkpoint that was
    /// written successfully (empty if there is none)
    Restart,
    /// the same manager loads the newest checkpoint of its directory again (`find_latest_lru_file`
    /// + `load_from_disk`): it goes back to that checkpoint's state, whatever it did since
    LoadLatest,
}

impl Op {
    fn uses_dir(&self) -> bool {
        matches!(self, Op::Checkpoint | Op::Reload | Op::RunCycle { .. } | Op::Shutdown { .. } | Op::Restart | Op::LoadLatest)
    }
}

#[derive(Debug, Clone, Serialize, Deserialize)]
struct Case {
    cap: u32,
    /// number of distinct keys the history draws from (key #0 .. #pool-1)
    pool: u16,
    /// whether key #0 is the all-zero key
    zero_key: bool,
    ops: Vec<Op>,
    /// the history starts on a manager that loaded an (empty) checkpoint of this generation —
    /// the only way a manager gets a generation other than the initial one
    #[serde(default)]
    start_gen: Option<u64>,
}

/// Key #i of the pool. Distinct by construction: #0..#3 are fixed patterns, the
/// others carry their index in the first two bytes (4 ≤ i < 0x5A5A).
fn key_bytes(i: usize, zero_key: bool) -> [u8; 9] {
    match i {
        0 if zero_key => [0; 9],
        0 => [0x5A; 9],
        1 => [0, 0, 0, 0, 0, 0, 0, 0, 1],
        2 => [1, 0, 0, 0, 0, 0, 0, 0, 0],
        3 => [0xFF; 9],
        n => {
            let mut r = vh_engine::util::Rng::new(0xC17_0000 + n as u64);
            let b = r.bytes(7);
            let mut k = [0u8; 9];
            k[0] = n as u8;
            k[1] = (n >> 8) as u8;
            k[2..9].copy_from_slice(&b);
            k
        }
    }
}

// ---------------------------------------------------------------------------
// infrastructure: runtime, directories, watchdog

thread_local! {
    // no I/O or time driver: tokio::fs only needs the blocking pool, and parking on a condvar is cheaper
    static RT: tokio::runtime::Runtime = tokio::runtime::Builder::new_current_thread()
        .max_blocking_threads(1)
        .build()
        .expect("tokio runtime");
    static SLOT: Arc<Slot> = {
        let s = Arc::new(Slot { since_ms: AtomicU64::new(0), case: Mutex::new(None) });
        SLOTS.lock().unwrap().push(s.clone());
        s
    };
}

fn block_on<F: std::future::Future>(f: F) -> F::Output {
    RT.with(|rt| rt.block_on(f))
}

static INFRA: Mutex<Vec<String>> = Mutex::new(Vec::new());
static BASE: OnceLock<PathBuf> = OnceLock::new();
static DIR_COUNTER: AtomicU64 = AtomicU64::new(0);
static SLOTS: Mutex<Vec<Arc<Slot>>> = Mutex::new(Vec::new());
static T0: OnceLock<Instant> = OnceLock::new();
const BUCKETS: u64 = 64;

struct Slot {
    since_ms: AtomicU64,
    case: Mutex<Option<(&'static str, Case)>>,
}

fn now_ms() -> u64 {
    T0.get_or_init(Instant::now).elapsed().as_millis() as u64 + 1
}

/// Directory owned by one case (removed on drop, also while unwinding).
enum CaseDir {
    Sub(PathBuf),
    Temp(tempfile::TempDir),
}

impl CaseDir {
    fn new() -> std::io::Result<Self> {
        match BASE.get() {
            Some(base) => {
                let n = DIR_COUNTER.fetch_add(1, Ordering::Relaxed);
                let p = base.join(format!("b{:02}", n % BUCKETS)).join(format!("{n}"));
                std::fs::create_dir(&p)?;
                Ok(CaseDir::Sub(p))
            }
            None => tempfile::tempdir().map(CaseDir::Temp),
        }
    }
    fn path(&self) -> &Path {
        match self {
            CaseDir::Sub(p) => p,
            CaseDir::Temp(t) => t.path(),
        }
    }
}

impl Drop for CaseDir {
    fn drop(&mut self) {
        if let CaseDir::Sub(p) = self {
            let _ = std::fs::remove_dir_all(p);
        }
    }
}

/// Remove every `*.lru` file of `dir` except `keep`.
fn lru_generation(p: &Path) -> Option<u64> {
    if p.extension().and_then(|x| x.to_str()) != Some("lru") {
        return None;
    }
    u64::from_str_radix(p.file_stem()?.to_str()?, 16).ok()
}

fn remove_newer_lru_files(dir: &Path, generation: u64) -> std::io::Result<()> {
    for e in std::fs::read_dir(dir)? {
        let p = e?.path();
        if p.extension().and_then(|x| x.to_str()) == Some("lru") && lru_generation(&p).is_none_or(|g| g > generation) {
            std::fs::remove_file(&p)?;
        }
    }
    Ok(())
}

fn older_lru_files(dir: &Path, generation: u64) -> usize {
    std::fs::read_dir(dir).map(|rd| rd.flatten().filter(|e| lru_generation(&e.path()).is_some_and(|g| g < generation)).count()).unwrap_or(0)
}

fn remove_lru_files(dir: &Path, keep: Option<&Path>) -> std::io::Result<()> {
    for e in std::fs::read_dir(dir)? {
        let p = e?.path();
        if p.extension().and_then(|x| x.to_str()) == Some("lru") && Some(p.as_path()) != keep {
            std::fs::remove_file(&p)?;
        }
    }
    Ok(())
}

// ---------------------------------------------------------------------------
// observation and comparison

struct Obs {
    capacity: u32,
    len: usize,
    is_empty: bool,
    contains: Vec<bool>,
    /// tail→head keys from `for_each_entry`; `None` when it produced more keys
    /// than the capacity allows (the walk was cut short)
    order: Option<Vec<[u8; 9]>>,
}

fn observe(m: &LruManager, keys: &[[u8; 9]], cap: usize) -> Obs {
    let bound = cap + 2;
    let mut order = Vec::with_capacity(cap);
    // a corrupt list could be cyclic: leave the walk by unwinding
    let walked = vh_engine::util::catch_panic(|| {
        m.for_each_entry(|k| {
            if order.len() >= bound {
                std::panic::panic_any("c17: for_each_entry walk exceeds the capacity");
            }
            order.push(*k);
        });
    });
    Obs {
        capacity: m.capacity(),
        len: m.len(),
        is_empty: m.is_empty(),
        contains: keys.iter().map(|k| m.contains(k)).collect(),
        order: walked.ok().map(|()| order),
    }
}

enum Cmp {
    Same,
    /// everything equal except that the iteration leaves out the present all-zero key
    ZeroSkipped,
    Diff(&'static str, String),
}

fn hex(k: &[u8; 9]) -> String {
    k.iter().map(|b| format!("{b:02x}")).collect()
}

fn show_order(o: &[[u8; 9]]) -> String {
    format!("[{}]", o.iter().map(hex).collect::<Vec<_>>().join(","))
}

fn cmp_state(o: &Obs, want: &VecDeque<usize>, c: &Case, keys: &[[u8; 9]]) -> Cmp {
    if o.capacity != c.cap {
        return Cmp::Diff("capacity-changed", format!("capacity() = {} but the manager was created with {}", o.capacity, c.cap));
    }
    if o.len > c.cap as usize {
        return Cmp::Diff("len-exceeds-capacity", format!("len() = {} > capacity {}", o.len, c.cap));
    }
    if o.len != want.len() {
        return Cmp::Diff("len-differs", format!("len() = {} but the reference LRU holds {}", o.len, want.len()));
    }
    if o.is_empty != want.is_empty() {
        return Cmp::Diff("len-differs", format!("is_empty() = {} but the reference LRU holds {}", o.is_empty, want.len()));
    }
    for (i, k) in keys.iter().enumerate() {
        let w = want.contains(&i);
        if o.contains[i] != w {
            return Cmp::Diff("contains-differs", format!("contains({}) = {} but reference says {}", hex(k), o.contains[i], w));
        }
    }
    let want_order: Vec<[u8; 9]> = want.iter().map(|&i| keys[i]).collect();
    match &o.order {
        None => Cmp::Diff("order-differs", format!("for_each_entry yields more than {} keys (cyclic list?)", c.cap as usize + 2)),
        Some(got) if *got == want_order => Cmp::Same,
        Some(got) => {
            if c.zero_key && want.contains(&0) {
                let without: Vec<[u8; 9]> = want_order.iter().copied().filter(|k| *k != [0u8; 9]).collect();
                if *got == without {
                    return Cmp::ZeroSkipped;
                }
            }
            Cmp::Diff(
                "order-differs",
                format!("for_each_entry (tail→head) = {} but the reference order is {}", show_order(got), show_order(&want_order)),
            )
        }
    }
}

// ---------------------------------------------------------------------------
// reference LRU

struct Model {
    cap: usize,
    /// key indices, front = least recently used
    q: VecDeque<usize>,
}

impl Model {
    fn touch(&mut self, k: usize) {
        if let Some(p) = self.q.iter().position(|&x| x == k) {
            self.q.remove(p);
        } else if self.q.len() >= self.cap {
            self.q.pop_front();
        }
        self.q.push_back(k);
    }
    fn remove(&mut self, k: usize) -> bool {
        match self.q.iter().position(|&x| x == k) {
            Some(p) => {
                self.q.remove(p);
                true
            }
            None => false,
        }
    }
    fn evict_to_target(&mut self, target: u64, avg: u64) -> usize {
        let mut n = 0usize;
        let mut freed = 0u64;
        while freed < target && self.q.pop_front().is_some() {
            n += 1;
            freed += avg;
        }
        n
    }
    /// "evict to target size": afterwards len × avg ≤ limit (only when limit > 0)
    fn evict_to_size(&mut self, limit: u64, avg: u64) -> usize {
        let mut n = 0;
        if limit > 0 {
            while self.q.len() as u64 * avg > limit {
                self.q.pop_front();
                n += 1;
            }
        }
        n
    }
}

// ---------------------------------------------------------------------------
// interpreter

#[derive(Default)]
struct Flags {
    public_evicted: bool,
    evict_then_touch: bool,
    reloaded: bool,
    reloaded_nonempty: bool,
    internal_evict: bool,
    zero_touched: bool,
    zero_reloaded: bool,
    cycle_evicted: bool,
    cycle_with_older_files: bool,
    refill_after_evict: bool,
    reset_nonempty: bool,
    remove_hit: bool,
    touch_hit: bool,
    shutdown_failed: bool,
    restarted: bool,
    restart_dropped_unsaved: bool,
}

enum Stop {
    Fail(String, String),
    /// tempdir / write trouble: not a verdict
    Infra(String),
}

/// a call into LruManager that does not come back (cyclic list): decided by the
/// watchdog, and only after the same case hung again in a re-run with 6× the time
const K_HANG: &str = "C17:lru:call-does-not-return";
const HANG_FIRST: Duration = Duration::from_secs(20);
const HANG_CONFIRM: Duration = Duration::from_secs(120);

fn check(section: &'static str, c: &Case, known: &Known, replay: bool) -> Verdict {
    if replay {
        // `--replay` of a case saved by the watchdog must not hang the launcher
        let (c2, k2) = (c.clone(), known.clone());
        return match vh_engine::util::with_timeout(HANG_CONFIRM, move || vh_engine::util::catch_panic(move || check_inner(&c2, &k2, true))) {
            Some(Ok(v)) => v,
            Some(Err(p)) => Verdict::fail(format!("C17:{section}:panic:{}:{}", p.file, p.norm_msg()), format!("panic at {}:{}: {}", p.file, p.line, p.msg)),
            None => Verdict::fail(K_HANG, format!("the history does not finish within {} s", HANG_CONFIRM.as_secs())),
        };
    }
    SLOT.with(|s| {
        *s.case.lock().unwrap() = Some((section, c.clone()));
        s.since_ms.store(now_ms(), Ordering::Relaxed);
    });
    let v = check_inner(c, known, replay);
    SLOT.with(|s| s.since_ms.store(0, Ordering::Relaxed));
    v
}

fn check_inner(c: &Case, known: &Known, replay: bool) -> Verdict {
    let cap = c.cap.max(1) as usize;
    let pool = (c.pool.max(1)) as usize;
    let keys: Vec<[u8; 9]> = (0..pool).map(|i| key_bytes(i, c.zero_key)).collect();
    let mut f = Flags::default();
    // listed open findings met in this history: (key, message)
    let mut hits: Vec<(String, String)> = Vec::new();
    let mut executed = 0usize;

    let dir = if c.ops.iter().any(Op::uses_dir) {
        match CaseDir::new() {
            Ok(d) => Some(d),
            Err(e) => {
                INFRA.lock().unwrap().push(format!("cannot create case directory: {e}"));
                return Verdict::pass();
            }
        }
    } else {
        None
    };
    let dir_path: PathBuf = dir.as_ref().map(|d| d.path().to_path_buf()).unwrap_or_else(|| PathBuf::from("/nonexistent/vh-c17-unused"));

    let mut mgr = LruManager::new(cap as u32, dir_path.clone());
    let mut model = Model { cap, q: VecDeque::new() };
    // state of the last checkpoint that was written successfully and is still in the directory
    let mut disk: Option<VecDeque<usize>> = None;
    if let (Some(g), true) = (c.start_gen.filter(|g| *g != 0), dir.is_some()) {
        // an empty checkpoint under the name of generation g, loaded by a fresh manager
        let from = cascette_client_storage::lru::lru_file::lru_file_path(&dir_path, mgr.generation());
        let to = cascette_client_storage::lru::lru_file::lru_file_path(&dir_path, g);
        let made = block_on(mgr.checkpoint_to_disk()).map_err(|e| e.to_string()).and_then(|()| if from == to { Ok(()) } else { std::fs::rename(&from, &to).map_err(|e| e.to_string()) });
        mgr = LruManager::new(cap as u32, dir_path.clone());
        if let Err(e) = made.and_then(|()| block_on(mgr.load_from_disk(g)).map_err(|e| e.to_string())) {
            INFRA.lock().unwrap().push(format!("cannot start at generation {g:#x}: {e}"));
            return Verdict::pass();
        }
        disk = Some(VecDeque::new());
    }
    // entries evicted through evict_tail/evict_to_target/run_cycle since the slot
    // allocator was last rebuilt (new/load/reset) — only used to choose the key
    // of a divergence (K_LEAK or a generic one), never to accept one.
    let mut leaked = 0usize;

    let mut outcome: Option<Stop> = None;

    'ops: for (ix, op) in c.ops.iter().enumerate() {
        let opname: &'static str;
        let pre = model.q.clone();
        let zero_present = c.zero_key && pre.contains(&0);
        // (generic key for a state difference, or a specific one decided by the op)
        let mut specific: Option<(String, String)> = None;
        let mut zload_context = false;

        match *op {
            Op::Touch(k) => {
                opname = "touch";
                let k = (k as usize).min(pool - 1);
                let was_present = pre.contains(&k);
                if f.public_evicted {
                    f.evict_then_touch = true;
                }
                if !was_present && pre.len() >= cap {
                    f.internal_evict = true;
                }
                if was_present {
                    f.touch_hit = true;
                }
                if c.zero_key && k == 0 {
                    f.zero_touched = true;
                }
                let refill = leaked > 0 && !was_present && pre.len() + leaked >= cap && pre.len() < cap;
                if refill {
                    f.refill_after_evict = true;
                }
                let r = mgr.touch(&keys[k]);
                model.touch(k);
                let o = observe(&mgr, &keys, cap);
                let st = cmp_state(&o, &model.q, c, &keys);
                if !r || matches!(st, Cmp::Diff(..)) {
                    // does the manager behave exactly as an LRU whose capacity shrank by `leaked`?
                    if refill {
                        let mut lq = pre.clone();
                        let exp_r = if lq.is_empty() {
                            false
                        } else {
                            lq.pop_front();
                            lq.push_back(k);
                            true
                        };
                        if r == exp_r && !matches!(cmp_state(&o, &lq, c, &keys), Cmp::Diff(..)) {
                            specific = Some((
                                K_LEAK.into(),
                                format!(
                                    "capacity {cap}, {leaked} entr{} evicted earlier via evict_tail/evict_to_target/run_cycle, {} present: touch of a new key {} — len() = {} (reference {})",
                                    if leaked == 1 { "y" } else { "ies" },
                                    pre.len(),
                                    if r { "evicted the tail although the reference has room".to_string() } else { "returned false".to_string() },
                                    o.len,
                                    model.q.len()
                                ),
                            ));
                        }
                    }
                    if specific.is_none() && !r {
                        specific = Some(("C17:lru:touch:returned-false".into(), format!("capacity {cap}, {} present before the call", pre.len())));
                    }
                    if specific.is_none() {
                        if let (Cmp::Diff("order-differs", m), Some(ord)) = (&st, &o.order) {
                            if ord.last() != Some(&keys[k]) {
                                specific = Some(("C17:lru:touch:key-not-most-recent".into(), m.clone()));
                            }
                        }
                    }
                }
                if let Some(s) = finish_op(opname, ix, c, st, specific, zload_context, known, &mut hits) {
                    outcome = s;
                    break 'ops;
                }
            }
            Op::Remove(k) => {
                opname = "remove";
                let k = (k as usize).min(pool - 1);
                let r = mgr.remove(&keys[k]);
                let w = model.remove(k);
                if w {
                    f.remove_hit = true;
                }
                if r != w {
                    specific = Some(("C17:lru:remove:return-value-differs".into(), format!("remove({}) = {r}, reference {w}", hex(&keys[k]))));
                }
                let st = cmp_state(&observe(&mgr, &keys, cap), &model.q, c, &keys);
                if let Some(s) = finish_op(opname, ix, c, st, specific, zload_context, known, &mut hits) {
                    outcome = s;
                    break 'ops;
                }
            }
            Op::EvictTail => {
                opname = "evict_tail";
                let r = mgr.evict_tail().is_some();
                let w = model.q.pop_front().is_some();
                if w {
                    f.public_evicted = true;
                    leaked += 1;
                }
                if r != w {
                    specific = Some(("C17:lru:evict_tail:return-value-differs".into(), format!("evict_tail().is_some() = {r}, reference {w}")));
                }
                let st = cmp_state(&observe(&mgr, &keys, cap), &model.q, c, &keys);
                if let Some(s) = finish_op(opname, ix, c, st, specific, zload_context, known, &mut hits) {
                    outcome = s;
                    break 'ops;
                }
            }
            Op::EvictToTarget { target, avg } => {
                opname = "evict_to_target";
                let avg = avg.max(1);
                let (n, freed) = mgr.evict_to_target(target, avg);
                let w = model.evict_to_target(target, avg);
                if w > 0 {
                    f.public_evicted = true;
                    leaked += w;
                }
                if n != w {
                    specific = Some((
                        "C17:lru:evict_to_target:evicted-count-differs".into(),
                        format!("evict_to_target({target},{avg}) evicted {n}, reference {w} (held {})", pre.len()),
                    ));
                } else if freed != n as u64 * avg {
                    specific = Some((
                        "C17:lru:evict_to_target:bytes-freed-differs".into(),
                        format!("evict_to_target({target},{avg}) = ({n},{freed}), expected {} bytes", n as u64 * avg),
                    ));
                }
                let st = cmp_state(&observe(&mgr, &keys, cap), &model.q, c, &keys);
                if let Some(s) = finish_op(opname, ix, c, st, specific, zload_context, known, &mut hits) {
                    outcome = s;
                    break 'ops;
                }
            }
            Op::Bump => {
                opname = "bump_generation";
                mgr.bump_generation();
                let st = cmp_state(&observe(&mgr, &keys, cap), &model.q, c, &keys);
                if let Some(s) = finish_op(opname, ix, c, st, specific, zload_context, known, &mut hits) {
                    outcome = s;
                    break 'ops;
                }
            }
            Op::Checkpoint => {
                opname = "checkpoint_to_disk";
                if let Err(e) = block_on(mgr.checkpoint_to_disk()) {
                    outcome = Some(Stop::Infra(format!("checkpoint_to_disk failed in a fresh directory: {e}")));
                    break 'ops;
                }
                disk = Some(pre.clone());
                let st = cmp_state(&observe(&mgr, &keys, cap), &model.q, c, &keys);
                if let Some(s) = finish_op(opname, ix, c, st, specific, zload_context, known, &mut hits) {
                    outcome = s;
                    break 'ops;
                }
            }
            Op::Reload => {
                opname = "reload";
                if let Err(e) = block_on(mgr.checkpoint_to_disk()) {
                    outcome = Some(Stop::Infra(format!("checkpoint_to_disk failed in a fresh directory: {e}")));
                    break 'ops;
                }
                disk = Some(pre.clone());
                let g = mgr.generation();
                let mut fresh = LruManager::new(cap as u32, dir_path.clone());
                let loaded = block_on(fresh.load_from_disk(g));
                mgr = fresh;
                leaked = 0;
                f.reloaded = true;
                if !pre.is_empty() {
                    f.reloaded_nonempty = true;
                }
                if zero_present {
                    f.zero_reloaded = true;
                    zload_context = true;
                }
                if let Err(e) = loaded {
                    specific = Some(("C17:lru:reload:load-failed".into(), format!("load_from_disk({g}) after a successful checkpoint_to_disk: {e}")));
                }
                let st = cmp_state(&observe(&mgr, &keys, cap), &model.q, c, &keys);
                if let Some(s) = finish_op(opname, ix, c, st, specific, zload_context, known, &mut hits) {
                    outcome = s;
                    break 'ops;
                }
            }
            Op::RunCycle { fresh, limit, avg, keep_older } => {
                opname = if fresh { "run_cycle_fresh" } else { "run_cycle" };
                let avg = avg.max(1);
                if fresh {
                    if let Err(e) = block_on(mgr.checkpoint_to_disk()) {
                        outcome = Some(Stop::Infra(format!("checkpoint_to_disk failed in a fresh directory: {e}")));
                        break 'ops;
                    }
                    disk = Some(pre.clone());
                    let keep = cascette_client_storage::lru::lru_file::lru_file_path(&dir_path, mgr.generation());
                    let cleaned = if keep_older {
                        // only files of a higher generation than the checkpoint just written go (a
                        // reset manager starts counting again: such files are leftovers of its past)
                        f.cycle_with_older_files = older_lru_files(&dir_path, mgr.generation()) > 0;
                        remove_newer_lru_files(&dir_path, mgr.generation())
                    } else {
                        remove_lru_files(&dir_path, Some(&keep))
                    };
                    if let Err(e) = cleaned {
                        outcome = Some(Stop::Infra(format!("cannot clean case directory: {e}")));
                        break 'ops;
                    }
                    mgr = LruManager::new(cap as u32, dir_path.clone());
                    leaked = 0;
                    f.reloaded = true;
                    if !pre.is_empty() {
                        f.reloaded_nonempty = true;
                    }
                    if zero_present {
                        f.zero_reloaded = true;
                        zload_context = true;
                    }
                } else {
                    disk = None;
                    if let Err(e) = remove_lru_files(&dir_path, None) {
                        outcome = Some(Stop::Infra(format!("cannot clean case directory: {e}")));
                        break 'ops;
                    }
                }
                let res = block_on(mgr.run_cycle(limit, avg));
                let w = model.evict_to_size(limit, avg);
                if w > 0 {
                    f.public_evicted = true;
                    f.cycle_evicted = true;
                    leaked += w;
                }
                let mut active_zero_skipped = false;
                match res {
                    Err(e) => {
                        specific = Some((format!("C17:lru:{opname}:failed"), format!("run_cycle({limit},{avg}): {e}")));
                    }
                    Ok(stats) => {
                        let want_loaded = if fresh { pre.len() } else { 0 };
                        if stats.loaded_entries != want_loaded {
                            specific = Some((
                                format!("C17:lru:{opname}:loaded-entries-differs"),
                                format!("run_cycle({limit},{avg}).loaded_entries = {}, checkpoint held {want_loaded}", stats.loaded_entries),
                            ));
                        } else if stats.entries_evicted != w {
                            specific = Some((
                                format!("C17:lru:{opname}:evicted-count-differs"),
                                format!("run_cycle({limit},{avg}).entries_evicted = {}, reference {w} (held {})", stats.entries_evicted, pre.len()),
                            ));
                        } else if stats.active_entries != model.q.len() {
                            if c.zero_key && model.q.contains(&0) && stats.active_entries + 1 == model.q.len() {
                                active_zero_skipped = true;
                            } else {
                                specific = Some((
                                    format!("C17:lru:{opname}:active-entries-differs"),
                                    format!("run_cycle({limit},{avg}).active_entries = {}, reference {}", stats.active_entries, model.q.len()),
                                ));
                            }
                        }
                    }
                }
                let mut st = cmp_state(&observe(&mgr, &keys, cap), &model.q, c, &keys);
                if active_zero_skipped && matches!(st, Cmp::Same) {
                    st = Cmp::ZeroSkipped;
                }
                if let Some(s) = finish_op(opname, ix, c, st, specific, zload_context, known, &mut hits) {
                    outcome = s;
                    break 'ops;
                }
            }
            Op::Reset => {
                opname = "reset";
                if !pre.is_empty() {
                    f.reset_nonempty = true;
                }
                mgr.reset();
                model.q.clear();
                leaked = 0;
                let st = cmp_state(&observe(&mgr, &keys, cap), &model.q, c, &keys);
                if let Some(s) = finish_op(opname, ix, c, st, specific, zload_context, known, &mut hits) {
                    outcome = s;
                    break 'ops;
                }
            }
            Op::Shutdown { fail } => {
                opname = if fail { "shutdown_failing" } else { "shutdown" };
                // the generation shutdown() checkpoints under (0 is reserved: the wrap goes to 1)
                let next = match mgr.generation().wrapping_add(1) {
                    0 => 1,
                    g => g,
                };
                let block = cascette_client_storage::lru::lru_file::lru_file_path(&dir_path, next).with_extension("tmp");
                if fail {
                    if let Err(e) = std::fs::create_dir(&block) {
                        outcome = Some(Stop::Infra(format!("cannot block the checkpoint's temporary file: {e}")));
                        break 'ops;
                    }
                }
                let r = block_on(mgr.shutdown());
                if fail {
                    let _ = std::fs::remove_dir(&block);
                    f.shutdown_failed = true;
                }
                match (fail, r) {
                    (false, Err(e)) => specific = Some(("C17:lru:shutdown:failed".into(), format!("shutdown() in a writable directory: {e}"))),
                    (true, Err(_)) => {}
                    // reported success: then the checkpoint must be there
                    (_, Ok(())) => disk = Some(pre.clone()),
                }
                let st = cmp_state(&observe(&mgr, &keys, cap), &model.q, c, &keys);
                if let Some(s) = finish_op(opname, ix, c, st, specific, zload_context, known, &mut hits) {
                    outcome = s;
                    break 'ops;
                }
            }
            Op::LoadLatest => {
                opname = "load_latest";
                match (LruManager::find_latest_lru_file(&dir_path), &disk) {
                    (None, None) => {}
                    (None, Some(_)) => {
                        specific = Some(("C17:lru:load_latest:checkpoint-file-missing".into(), "a checkpoint was written successfully, find_latest_lru_file finds no file".to_string()));
                    }
                    (Some((g, _)), d) => {
                        if let Err(e) = block_on(mgr.load_from_disk(g)) {
                            specific = Some(("C17:lru:load_latest:load-failed".into(), format!("load_from_disk({g:#x}): {e}")));
                        } else {
                            model.q = d.clone().unwrap_or_default();
                            leaked = 0;
                            f.reloaded = true;
                            if c.zero_key && model.q.contains(&0) {
                                f.zero_reloaded = true;
                                zload_context = true;
                            }
                        }
                    }
                }
                let st = cmp_state(&observe(&mgr, &keys, cap), &model.q, c, &keys);
                if let Some(s) = finish_op(opname, ix, c, st, specific, zload_context, known, &mut hits) {
                    outcome = s;
                    break 'ops;
                }
            }
            Op::Restart => {
                opname = "restart";
                mgr = LruManager::new(cap as u32, dir_path.clone());
                leaked = 0;
                let res = block_on(mgr.run_cycle(0, 1));
                model.q = disk.clone().unwrap_or_default();
                f.reloaded = true;
                f.restarted = true;
                if !model.q.is_empty() {
                    f.reloaded_nonempty = true;
                    if model.q != pre {
                        f.restart_dropped_unsaved = true;
                    }
                }
                if c.zero_key && model.q.contains(&0) {
                    f.zero_reloaded = true;
                    zload_context = true;
                }
                match res {
                    Err(e) => specific = Some(("C17:lru:restart:failed".into(), format!("run_cycle(0,1) of a new session: {e}"))),
                    Ok(stats) if stats.loaded_entries != model.q.len() => {
                        specific = Some((
                            "C17:lru:restart:loaded-entries-differs".into(),
                            format!("a new session loaded {} entries, the last checkpoint written successfully held {}", stats.loaded_entries, model.q.len()),
                        ));
                    }
                    Ok(_) => {}
                }
                let st = cmp_state(&observe(&mgr, &keys, cap), &model.q, c, &keys);
                if let Some(s) = finish_op(opname, ix, c, st, specific, zload_context, known, &mut hits) {
                    outcome = s;
                    break 'ops;
                }
            }
        }
        executed = ix + 1;
    }
    drop(mgr);
    drop(dir);

    let stopped_by_known = outcome.is_none() && executed < c.ops.len();
    let mut v = Verdict::pass()
        .nontrivial(f.evict_then_touch || f.reloaded)
        .class_if(f.evict_then_touch, "evict-then-touch")
        .class_if(f.refill_after_evict, "refill-to-capacity-after-evict")
        .class_if(f.reloaded, "reload")
        .class_if(f.reloaded_nonempty, "reload-nonempty")
        .class_if(f.internal_evict, "touch-at-capacity")
        .class_if(f.touch_hit, "touch-present-key")
        .class_if(f.remove_hit, "remove-hit")
        .class_if(f.zero_touched, "zero-key-touched")
        .class_if(f.zero_reloaded, "zero-key-present-at-reload")
        .class_if(f.cycle_evicted, "run-cycle-evicted")
        .class_if(f.cycle_with_older_files, "run-cycle-fresh-beside-older-checkpoint-files")
        .class_if(f.reset_nonempty, "reset-nonempty")
        .class_if(f.restarted, "restart-of-a-new-session")
        .class_if(f.restart_dropped_unsaved, "restart-returns-to-an-older-checkpoint")
        .class_if(f.shutdown_failed, "shutdown-that-cannot-write-its-checkpoint")
        .class_if(c.start_gen.is_some_and(|g| g >= u64::MAX - 2) && f.restarted, "restart-near-the-generation-wrap")
        .class_if(stopped_by_known, "stopped-at-known-finding")
        .class_if(executed >= 50, "executed>=50-ops")
        .class_if(c.cap >= 16, "cap>=16");
    v.known_hits = hits.iter().map(|h| h.0.clone()).collect();
    match outcome {
        // `--replay` of a history that ends behind a listed finding reports that finding
        None if replay && !hits.is_empty() => {
            let (k, m) = hits.pop().unwrap_or_default();
            v.with_fail(k, m)
        }
        None => v,
        Some(Stop::Fail(k, m)) => v.with_fail(k, m),
        Some(Stop::Infra(m)) => {
            INFRA.lock().unwrap().push(m);
            Verdict::pass()
        }
    }
}

/// Decide what a finished operation means. `None`: go on. `Some(None)`: stop the
/// case here behind a listed open finding. `Some(Some(stop))`: failure.
#[allow(clippy::too_many_arguments)]
fn finish_op(
    opname: &'static str,
    ix: usize,
    c: &Case,
    st: Cmp,
    specific: Option<(String, String)>,
    zload_context: bool,
    known: &Known,
    hits: &mut Vec<(String, String)>,
) -> Option<Option<Stop>> {
    let at = |m: String| format!("op #{ix} ({opname}) of {} [cap={} pool={}]: {m}", c.ops.len(), c.cap, c.pool);
    // 1. a difference right after loading a checkpoint that held the all-zero key
    let failure: Option<(String, String)> = if zload_context && (specific.is_some() || matches!(st, Cmp::Diff(..))) {
        let m = match (&specific, &st) {
            (Some((_, m)), _) => m.clone(),
            (None, Cmp::Diff(_, m)) => m.clone(),
            _ => String::new(),
        };
        Some((K_ZLOAD.into(), format!("the checkpoint held the all-zero key; after loading it: {m}")))
    } else if let Some(s) = specific {
        Some(s)
    } else {
        match st {
            Cmp::Same => None,
            Cmp::ZeroSkipped => {
                let m = "the all-zero key is present (contains = true, counted by len) but for_each_entry / active_entries leave it out";
                if known.is_open(K_ZITER) {
                    // tolerated: the rest of the history is compared with the zero key left out of the iteration
                    if !hits.iter().any(|h| h.0 == K_ZITER) {
                        hits.push((K_ZITER.into(), at(m.into())));
                    }
                    None
                } else {
                    Some((K_ZITER.into(), m.into()))
                }
            }
            Cmp::Diff(what, m) => Some((format!("C17:lru:{opname}:{what}"), m)),
        }
    };
    match failure {
        None => None,
        Some((k, m)) => {
            if known.is_open(&k) {
                if !hits.iter().any(|h| h.0 == k) {
                    hits.push((k, at(m)));
                }
                Some(None)
            } else {
                Some(Some(Stop::Fail(k, at(m))))
            }
        }
    }
}

// ---------------------------------------------------------------------------
// generators

/// in-memory alphabet of the exhaustive section (pool of 4 keys)
fn mem_alphabet() -> Vec<Op> {
    let mut v = Vec::new();
    for k in 0..4 {
        v.push(Op::Touch(k));
    }
    for k in 0..4 {
        v.push(Op::Remove(k));
    }
    v.push(Op::EvictTail);
    // exactly one entry's worth; one and a half (rounds up to 2); everything
    v.push(Op::EvictToTarget { target: 100, avg: 100 });
    v.push(Op::EvictToTarget { target: 150, avg: 100 });
    v.push(Op::EvictToTarget { target: 1000, avg: 100 });
    v.push(Op::Bump);
    v.push(Op::Reset);
    v
}

/// persistence alphabet of the exhaustive section (at most one per sequence)
fn persist_alphabet() -> Vec<Op> {
    vec![
        Op::Reload,
        Op::RunCycle { fresh: true, limit: 0, avg: 100, keep_older: false },
        Op::RunCycle { fresh: true, limit: 0, avg: 100, keep_older: true },
        Op::RunCycle { fresh: true, limit: 100, avg: 100, keep_older: false },
        Op::RunCycle { fresh: true, limit: 250, avg: 100, keep_older: false },
        Op::RunCycle { fresh: false, limit: 100, avg: 100, keep_older: false },
        Op::RunCycle { fresh: false, limit: 250, avg: 100, keep_older: false },
    ]
}

/// all digit strings of length `len` over `base` symbols, odometer order
struct Odometer {
    base: usize,
    digits: Vec<usize>,
    done: bool,
}

impl Odometer {
    fn new(base: usize, len: usize) -> Self {
        Odometer { base, digits: vec![0; len], done: false }
    }
}

impl Iterator for Odometer {
    type Item = Vec<usize>;
    fn next(&mut self) -> Option<Vec<usize>> {
        if self.done {
            return None;
        }
        let out = self.digits.clone();
        let mut i = self.digits.len();
        loop {
            if i == 0 {
                self.done = true;
                break;
            }
            i -= 1;
            self.digits[i] += 1;
            if self.digits[i] < self.base {
                break;
            }
            self.digits[i] = 0;
        }
        Some(out)
    }
}

/// every sequence of length 0..=max_len with exactly `n_persist` (0 or 1) persistence ops, × capacity 1..=3
fn enum_cases(max_len: usize, n_persist: usize) -> Box<dyn Iterator<Item = Case> + Send> {
    let mem = mem_alphabet();
    let n_mem = mem.len();
    let mut alpha = mem;
    alpha.extend(persist_alphabet());
    Box::new((0..=max_len).flat_map(move |len| {
        let alpha = alpha.clone();
        Odometer::new(alpha.len(), len)
            .filter(move |d| d.iter().filter(|&&x| x >= n_mem).count() == n_persist)
            .flat_map(move |d| {
                let ops: Vec<Op> = d.iter().map(|&x| alpha[x]).collect();
                (1..=3u32).map(move |cap| Case { cap, pool: 4, zero_key: true, ops: ops.clone(), start_gen: None })
            })
    }))
}

/// Sessions: every sequence of length 0..=max_len over touches, bump, checkpoint, shutdown (that
/// succeeds or cannot write its checkpoint) and restart, for managers that start at an ordinary
/// generation and for managers that start within three generations of the u64 wrap.
fn lifecycle_cases(max_len: usize) -> Box<dyn Iterator<Item = Case> + Send> {
    let plain: Vec<Vec<Op>> = vec![
        vec![Op::Touch(0)],
        vec![Op::Touch(1)],
        vec![Op::Touch(2)],
        vec![Op::Bump],
        vec![Op::Checkpoint],
        vec![Op::Shutdown { fail: false }],
        vec![Op::Shutdown { fail: true }],
        vec![Op::Restart],
        vec![Op::LoadLatest],
    ];
    let starts: Vec<(Option<u64>, Vec<Vec<Op>>)> = vec![
        (None, plain.clone()),
        (Some(0xFFFF_FFFE), plain.clone()),
        (Some(u64::MAX - 2), plain.clone()),
        (Some(u64::MAX - 1), plain.clone()),
        (Some(u64::MAX), plain.clone()),
    ];
    Box::new(starts.into_iter().flat_map(move |(start_gen, alpha)| {
        (0..=max_len).flat_map(move |len| {
            let alpha = alpha.clone();
            Odometer::new(alpha.len(), len).flat_map(move |d| {
                let ops: Vec<Op> = d.iter().flat_map(|&x| alpha[x].clone()).collect();
                [2u32, 3].into_iter().map(move |cap| Case { cap, pool: 4, zero_key: false, ops: ops.clone(), start_gen })
            })
        })
    }))
}

#[derive(Debug, Clone)]
enum RawOp {
    Touch(u16),
    Remove(u16),
    EvictTail,
    EvictToTarget { avg_sel: u16, units: u16, off: u16 },
    Bump,
    Checkpoint,
    Reload,
    RunCycle { fresh: bool, no_limit: bool, avg_sel: u16, units: u16, off: u16 },
    Reset,
    Shutdown { fail: bool },
    Restart,
    LoadLatest,
}

const AVGS: [u64; 4] = [1, 7, 100, 4096];

fn bytes_arg(avg_sel: u16, units: u16, off: u16, max_units: usize) -> (u64, u64) {
    let avg = AVGS[pick_idx(avg_sel, AVGS.len())];
    let units = pick_idx(units, max_units + 1) as u64;
    let off = [0, 1, avg - 1][pick_idx(off, 3)].min(avg - 1);
    (units * avg + off, avg)
}

fn resolve(r: &RawOp, cap: u32, pool: u16) -> Op {
    match *r {
        RawOp::Touch(k) => Op::Touch(pick_idx(k, pool as usize) as u16),
        RawOp::Remove(k) => Op::Remove(pick_idx(k, pool as usize) as u16),
        RawOp::EvictTail => Op::EvictTail,
        RawOp::EvictToTarget { avg_sel, units, off } => {
            let (target, avg) = bytes_arg(avg_sel, units, off, cap as usize + 2);
            Op::EvictToTarget { target, avg }
        }
        RawOp::Bump => Op::Bump,
        RawOp::Checkpoint => Op::Checkpoint,
        RawOp::Reload => Op::Reload,
        RawOp::RunCycle { fresh, no_limit, avg_sel, units, off } => {
            let (limit, avg) = bytes_arg(avg_sel, units, off, cap as usize + 1);
            Op::RunCycle { fresh, limit: if no_limit { 0 } else { limit }, avg, keep_older: fresh && off & 1 == 1 }
        }
        RawOp::Reset => Op::Reset,
        RawOp::Shutdown { fail } => Op::Shutdown { fail },
        RawOp::Restart => Op::Restart,
        RawOp::LoadLatest => Op::LoadLatest,
    }
}

fn raw_evict_to_target() -> impl Strategy<Value = RawOp> {
    (any::<u16>(), any::<u16>(), any::<u16>()).prop_map(|(avg_sel, units, off)| RawOp::EvictToTarget { avg_sel, units, off })
}

fn raw_run_cycle(always_no_limit: bool) -> impl Strategy<Value = RawOp> {
    (any::<bool>(), proptest::bool::weighted(0.25), any::<u16>(), any::<u16>(), any::<u16>()).prop_map(
        move |(fresh, no_limit, avg_sel, units, off)| RawOp::RunCycle {
            fresh: fresh || always_no_limit,
            no_limit: no_limit || always_no_limit,
            avg_sel,
            units,
            off,
        },
    )
}

/// profile 0: everything; 1: no public eviction (long histories stay behind the
/// capacity finding); 2: persistence-heavy
fn raw_op(profile: u8) -> BoxedStrategy<RawOp> {
    let touch = any::<u16>().prop_map(RawOp::Touch);
    let remove = any::<u16>().prop_map(RawOp::Remove);
    match profile {
        0 => prop_oneof![
            40 => touch,
            10 => remove,
            8 => Just(RawOp::EvictTail),
            8 => raw_evict_to_target(),
            4 => Just(RawOp::Bump),
            2 => Just(RawOp::Checkpoint),
            4 => Just(RawOp::Reload),
            4 => raw_run_cycle(false),
            1 => Just(RawOp::Reset),
            2 => any::<bool>().prop_map(|fail| RawOp::Shutdown { fail }),
            2 => Just(RawOp::Restart),
        ]
        .boxed(),
        1 => prop_oneof![
            40 => touch,
            12 => remove,
            4 => Just(RawOp::Bump),
            2 => Just(RawOp::Checkpoint),
            5 => Just(RawOp::Reload),
            3 => raw_run_cycle(true),
            1 => Just(RawOp::Reset),
            2 => any::<bool>().prop_map(|fail| RawOp::Shutdown { fail }),
            2 => Just(RawOp::Restart),
        ]
        .boxed(),
        _ => prop_oneof![
            30 => touch,
            8 => remove,
            4 => Just(RawOp::EvictTail),
            4 => raw_evict_to_target(),
            8 => Just(RawOp::Bump),
            4 => Just(RawOp::Checkpoint),
            12 => Just(RawOp::Reload),
            12 => raw_run_cycle(false),
            1 => Just(RawOp::Reset),
            8 => any::<bool>().prop_map(|fail| RawOp::Shutdown { fail }),
            8 => Just(RawOp::Restart),
            6 => Just(RawOp::LoadLatest),
        ]
        .boxed(),
    }
}

fn random_case(max_cap: u32, max_len: usize) -> BoxedStrategy<Case> {
    let cap = prop_oneof![3 => 1u32..=4, 3 => 1u32..=16.min(max_cap), 2 => 1u32..=max_cap];
    let ops = prop_oneof![
        3 => proptest::collection::vec(raw_op(0), 0..=max_len),
        1 => proptest::collection::vec(raw_op(0), 0..=30),
        2 => proptest::collection::vec(raw_op(1), 0..=max_len),
        2 => proptest::collection::vec(raw_op(2), 0..=max_len),
    ];
    (cap, any::<u16>(), proptest::bool::weighted(0.3), ops)
        .prop_map(|(cap, extra, zero_key, raw)| {
            // pool from `cap` (never overflows) to 2·cap+3 keys
            let pool = (cap as usize + pick_idx(extra, cap as usize + 4)) as u16;
            let ops = raw.iter().map(|r| resolve(r, cap, pool)).collect();
            Case { cap, pool, zero_key, ops, start_gen: None }
        })
        .boxed()
}

// ---------------------------------------------------------------------------

fn env_shards(var: &str, default: usize) -> usize {
    std::env::var(var).ok().and_then(|v| v.parse().ok()).unwrap_or(default)
}

fn drain_infra(ck: &mut Check) {
    let mut v = std::mem::take(&mut *INFRA.lock().unwrap());
    v.sort();
    v.dedup();
    for m in v.into_iter().take(5) {
        ck.infra(m);
    }
}

/// Cases normally take micro- to milliseconds. A worker that sits in one case for
/// HANG_FIRST is suspected to be inside a call that never returns (a cyclic list
/// makes `for_each_entry` spin without ever calling back). The engine cannot
/// finish a section with a stuck worker, so the watchdog decides (DESIGN §1.5.3):
/// re-run the same case on a helper thread with 6× the time; hangs again ⇒
/// deterministic ⇒ violation (replay file + VIOLATION line, exit 1); finishes ⇒
/// the machine was merely slow ⇒ keep waiting, and give up with exit 2 if the
/// original worker is still stuck after HANG_CONFIRM more.
fn start_watchdog(known: Known) {
    std::thread::spawn(move || {
        let mut suspects: Vec<(usize, u64)> = Vec::new(); // (slot index, since) already re-run and found finishing
        loop {
            std::thread::sleep(Duration::from_secs(2));
            let now = now_ms();
            let slots = SLOTS.lock().unwrap().clone();
            for (si, s) in slots.iter().enumerate() {
                let since = s.since_ms.load(Ordering::Relaxed);
                if since == 0 || now.saturating_sub(since) <= HANG_FIRST.as_millis() as u64 {
                    continue;
                }
                let Some((section, case)) = s.case.lock().unwrap().clone() else { continue };
                let cleanup = || {
                    if let Some(b) = BASE.get() {
                        let _ = std::fs::remove_dir_all(b);
                    }
                };
                if suspects.contains(&(si, since)) {
                    if now.saturating_sub(since) > (HANG_FIRST + HANG_CONFIRM + HANG_CONFIRM).as_millis() as u64 {
                        eprintln!("INFRA: a C17 case is stuck although its re-run finished; case = {}", serde_json::to_string(&case).unwrap_or_default());
                        cleanup();
                        std::process::exit(2);
                    }
                    continue;
                }
                let (c2, k2) = (case.clone(), known.clone());
                let rerun = vh_engine::util::with_timeout(HANG_CONFIRM, move || {
                    let _ = vh_engine::util::catch_panic(move || check_inner(&c2, &k2, false));
                });
                if rerun.is_some() {
                    suspects.push((si, since));
                    continue;
                }
                let msg = format!(
                    "a call into LruManager does not return (twice: > {} s, then > {} s in a re-run of the same history)",
                    HANG_FIRST.as_secs(),
                    HANG_CONFIRM.as_secs()
                );
                if known.is_open(K_HANG) {
                    println!("KNOWN-FINDING: property=C17 {} [key={K_HANG}]", known.what(K_HANG).unwrap_or_default());
                    eprintln!("INFRA: cannot continue behind a history that hangs; case = {}", serde_json::to_string(&case).unwrap_or_default());
                    cleanup();
                    std::process::exit(2);
                }
                let rf = serde_json::json!({"property": "C17", "section": section, "key": K_HANG, "msg": msg, "case": case});
                let txt = serde_json::to_string_pretty(&rf).unwrap_or_default();
                let dir = vh_engine::verif_dir().join("replays").join("C17").join("found");
                let _ = std::fs::create_dir_all(&dir);
                let path = dir.join(format!("{section}-{:016x}.json", vh_engine::util::fnv64(txt.as_bytes())));
                let _ = std::fs::write(&path, txt);
                println!("failure section={section} key={K_HANG} msg={msg}");
                println!("VIOLATION property=C17 replay={}", path.display());
                cleanup();
                std::process::exit(1);
            }
        }
    });
}

fn main() {
    let mut ck = Check::from_args("C17", "exploration");
    let tier = ck.tier;
    ck.extra(
        "rule",
        "history interpreter: LruManager next to a VecDeque LRU of the same capacity, compared after every operation (len, is_empty, capacity, \
         contains for every pool key, tail→head order of for_each_entry, documented return values). Non-trivial = the executed part of the history \
         contains a public eviction (evict_tail / evict_to_target / run_cycle that evicted ≥1 entry) followed by a touch, or a reload \
         (checkpoint + fresh manager + load_from_disk / run_cycle); distinct by case hash"
            .into(),
    );
    ck.assume("reload means: checkpoint_to_disk, then a fresh LruManager of the same capacity on the same directory, load_from_disk(generation of that checkpoint)");
    ck.assume(
        "run_cycle is exercised in two forms whose outcome does not depend on undocumented generation handling: in place with no .lru file in the \
         directory, and on a fresh manager with exactly the just-written checkpoint in the directory; avg_entry_size ≥ 1",
    );
    ck.assume("slot numbers returned by evict_tail, LruCycleStats::bytes_freed/stale_files_removed and generation numbers are not compared (unspecified)");
    ck.assume("capacity ≥ 1; checkpoint files written by another capacity or another program are out of scope");

    // private scratch root (64 buckets so that 16 threads do not serialise on one parent directory)
    let base = if ck.is_replay() {
        None
    } else {
        let root = if Path::new("/dev/shm").is_dir() { PathBuf::from("/dev/shm") } else { std::env::temp_dir() };
        match tempfile::Builder::new().prefix("vh-c17-").tempdir_in(&root).or_else(|_| tempfile::Builder::new().prefix("vh-c17-").tempdir()) {
            Ok(t) => {
                let mut ok = true;
                for b in 0..BUCKETS {
                    ok &= std::fs::create_dir(t.path().join(format!("b{b:02}"))).is_ok();
                }
                if ok {
                    let _ = BASE.set(t.path().to_path_buf());
                }
                Some(t)
            }
            Err(e) => {
                ck.infra(format!("cannot create scratch root: {e}"));
                ck.finish();
            }
        }
    };
    let known = ck.known().clone();
    if !ck.is_replay() {
        start_watchdog(known.clone());
    }
    let replay = ck.is_replay();

    // 1. exhaustive short histories (two sections only because their cost per case differs by ~50×:
    //    the cheap one runs on few threads so that the engine's shared bookkeeping is not contended)
    //    Persistence sequences cost ~80 µs CPU each (≈35 file-system calls, 2–3 hand-overs to tokio's blocking pool):
    //    length 5 (3.7 M sequences) does not fit the quick budget on a loaded machine, so quick stops at 4 there.
    let max_len = tier.pick(5usize, 6usize);
    let max_len_persist = tier.pick(4usize, 5usize);
    let alphabet = "touch(k)/remove(k) for 4 keys (k0 = all-zero key, 00..01, 01..00, ff..ff), evict_tail, evict_to_target(100|150|1000 bytes, avg 100 = 1 | 2 | all \
                    entries), bump_generation, reset";
    let k1 = known.clone();
    ck.run(
        Section::enumerate(
            "lru-all-short-histories-memory",
            format!("every operation sequence of length 0..={max_len} over the 14 in-memory symbols — {alphabet} — for each capacity 1, 2, 3"),
            move || enum_cases(max_len, 0),
            move |c: &Case| check("lru-all-short-histories-memory", c, &k1, replay),
        )
        .shards(env_shards("C17_SHARDS_MEM", 4)),
    );
    drain_infra(&mut ck);
    let k1 = known.clone();
    ck.run(
        Section::enumerate(
            "lru-all-short-histories-persist",
            format!(
                "every operation sequence of length 1..={max_len_persist} with exactly ONE persistence op — reload (checkpoint + fresh manager + load_from_disk), run_cycle on a \
                 fresh manager (limit 0 | 100 | 250, avg 100), run_cycle in place (limit 100 | 250) — at any position, the other positions over the 14 in-memory \
                 symbols — {alphabet} — for each capacity 1, 2, 3"
            ),
            move || enum_cases(max_len_persist, 1),
            move |c: &Case| check("lru-all-short-histories-persist", c, &k1, replay),
        )
        .shards(env_shards("C17_SHARDS_PER", 16)),
    );
    drain_infra(&mut ck);

    // 1b. sessions: shutdown (also one that cannot write), restart, generations at the u64 wrap
    let max_len_life = tier.pick(5usize, 6usize);
    let k1 = known.clone();
    ck.run(
        Section::enumerate(
            "lru-sessions",
            format!(
                "every sequence of length 0..={max_len_life} over touch(k0|k1|k2), bump_generation, checkpoint_to_disk, shutdown, shutdown whose checkpoint cannot be written (a \
                 directory sits at the temporary file's path), restart (fresh manager + run_cycle(0,1), the harness touches no file: it must come up with the last \
                 checkpoint written successfully) for managers starting at generation 1, 0xFFFFFFFE and u64::MAX-2, -1, -0 (the wrap to 1); capacities 2 and 3"
            ),
            move || lifecycle_cases(max_len_life),
            move |c: &Case| check("lru-sessions", c, &k1, replay),
        )
        .shards(env_shards("C17_SHARDS_PER", 16)),
    );
    drain_infra(&mut ck);

    // 1c. capacities whose checkpoint file is larger than one read call returns (2 MiB is what
    //     tokio hands back per read; 28 + 20 x capacity bytes)
    let k1 = known.clone();
    ck.run(
        Section::enumerate(
            "lru-large-capacity",
            "capacity 104,856 / 104,857 / 104,858 / 250,000 (checkpoint files around and above 2 MiB): touches, reload, touches, restart, run_cycle on a fresh manager".to_string(),
            move || {
                let mut v = Vec::new();
                for cap in [104_856u32, 104_857, 104_858, 250_000] {
                    for tail in [vec![Op::Reload], vec![Op::Checkpoint, Op::Restart], vec![Op::RunCycle { fresh: true, limit: 0, avg: 100, keep_older: false }], vec![Op::Shutdown { fail: false }, Op::Touch(3), Op::Restart]] {
                        let mut ops = vec![Op::Touch(0), Op::Touch(1), Op::Touch(2), Op::Touch(0)];
                        ops.extend(tail);
                        ops.push(Op::Touch(1));
                        v.push(Case { cap, pool: 4, zero_key: false, ops, start_gen: None });
                    }
                }
                Box::new(v.into_iter())
            },
            move |c: &Case| check("lru-large-capacity", c, &k1, replay),
        )
        .shards(8),
    );
    drain_infra(&mut ck);

    // 2. random long histories
    let k2 = known.clone();
    ck.run(
        Section::pbt("lru-random-histories", tier.pick(80_000, 4_000_000), || random_case(64, 200), move |c: &Case| check("lru-random-histories", c, &k2, replay))
            .shards(16)
            .shrink_iters(4000),
    );
    drain_infra(&mut ck);

    // 3. the manager as DynamicContainer drives it
    ck.run(Section::pbt("container-lru", tier.pick(1_500, 60_000), container::strategy, container::check).shards(16).shrink_iters(300));

    drop(base);
    ck.finish();
}
