//! C06 / compaction-backup: `ExtractorCompactorBackup::{record_segment, save}`,
//! the append-only journal of an extract-compact run, recovered by `load`.
//! One object = the journal (the list of recorded segments).

use crate::crash::{Files, Obs, Recorder, Routine, Snapshot};
use cascette_client_storage::storage::compaction::ExtractorCompactorBackup;
use proptest::prelude::*;
use serde::{Deserialize, Serialize};
use std::path::Path;

#[derive(Debug, Clone, Serialize, Deserialize)]
pub enum BOp {
    Record { seg: u16 },
    Save,
    /// continue with the instance `load` returns (a new one when there is no file)
    Reload,
    /// continue with `ExtractorCompactorBackup::new` (empty list; the file, if any, stays)
    Fresh,
    /// `remove()` the file
    RemoveFile,
}

#[derive(Debug, Clone, Serialize, Deserialize)]
pub struct BackupHist {
    pub pre: Vec<BOp>,
    pub post: Vec<BOp>,
}

fn op_strategy() -> impl Strategy<Value = BOp> {
    prop_oneof![
        8 => prop_oneof![1 => Just(0u16), 1 => Just(u16::MAX), 1 => Just(1022u16), 4 => 0u16..1023, 1 => any::<u16>()].prop_map(|seg| BOp::Record { seg }),
        3 => Just(BOp::Save),
        2 => Just(BOp::Reload),
        1 => Just(BOp::Fresh),
        1 => Just(BOp::RemoveFile),
    ]
}

pub fn strategy() -> BoxedStrategy<BackupHist> {
    (proptest::collection::vec(op_strategy(), 0..6), proptest::collection::vec(op_strategy(), 1..4)).prop_map(|(pre, post)| BackupHist { pre, post }).boxed()
}

fn apply(b: &mut ExtractorCompactorBackup, dir: &Path, op: &BOp) -> Result<(), String> {
    match op {
        BOp::Record { seg } => b.record_segment(*seg).map_err(|e| format!("record_segment: {e}")),
        BOp::Save => b.save().map_err(|e| format!("save: {e}")),
        BOp::Reload => {
            *b = ExtractorCompactorBackup::load(dir).map_err(|e| format!("load: {e}"))?.unwrap_or_else(|| ExtractorCompactorBackup::new(dir));
            Ok(())
        }
        BOp::Fresh => {
            *b = ExtractorCompactorBackup::new(dir);
            Ok(())
        }
        BOp::RemoveFile => b.remove().map_err(|e| format!("remove: {e}")),
    }
}

pub struct Backup;

impl Routine for Backup {
    type Hist = BackupHist;
    const NAME: &'static str = "compaction-backup";

    fn strategy() -> BoxedStrategy<BackupHist> {
        strategy()
    }

    fn execute(h: &BackupHist, dir: &Path, rec: &Recorder) -> Result<(), String> {
        let mut b = ExtractorCompactorBackup::new(dir);
        for op in &h.pre {
            apply(&mut b, dir, op)?;
        }
        rec.begin_crash_phase();
        for op in &h.post {
            apply(&mut b, dir, op)?;
            rec.op_done();
        }
        Ok(())
    }

    fn observe(_h: &BackupHist, dir: &Path) -> Result<Obs, String> {
        let l = ExtractorCompactorBackup::load(dir).map_err(|e| format!("ExtractorCompactorBackup::load: {e}"))?;
        let mut o = Obs::new();
        // no journal and an empty journal both mean: no segment was recorded
        let segs: Vec<u16> = l.map(|b| b.segments().to_vec()).unwrap_or_default();
        o.insert("journal".into(), format!("{segs:?}"));
        Ok(o)
    }

    fn follow_up(_h: &BackupHist, dir: &Path) -> Option<Result<Obs, String>> {
        // later session: the next compaction run starts a fresh journal object over whatever the
        // crash left (new(), as compaction does), records two segments and is then read back
        Some((|| {
            let mut b = ExtractorCompactorBackup::new(dir);
            b.record_segment(7).map_err(|e| format!("follow-up record_segment(7): {e}"))?;
            b.record_segment(300).map_err(|e| format!("follow-up record_segment(300): {e}"))?;
            drop(b);
            // ... and a session that continues from what load returns
            let mut o = Self::observe(_h, dir)?;
            let mut c = ExtractorCompactorBackup::load(dir).map_err(|e| format!("follow-up load: {e}"))?.unwrap_or_else(|| ExtractorCompactorBackup::new(dir));
            c.record_segment(9).map_err(|e| format!("follow-up record_segment(9): {e}"))?;
            c.save().map_err(|e| format!("follow-up save: {e}"))?;
            drop(c);
            let again = Self::observe(_h, dir)?;
            o.insert("journal-after-continued-session".into(), again.get("journal").cloned().unwrap_or_default());
            Ok(o)
        })())
    }

    fn appends(site: &str) -> bool {
        site.starts_with("backup.record.")
    }

    fn site_class(snap: &Snapshot, _before: &Files) -> String {
        if snap.site.starts_with("backup.record.") {
            "record_segment:appended-tail-unsynced".into()
        } else if snap.site.starts_with("backup.save.") {
            "save:file-rewritten-in-place".into()
        } else {
            crate::generic_site_class(snap)
        }
    }

    fn hist_classes(h: &BackupHist) -> Vec<&'static str> {
        let mut v = Vec::new();
        if h.post.iter().any(|o| matches!(o, BOp::Save)) {
            v.push("save-in-crash-phase");
        }
        if h.post.iter().any(|o| matches!(o, BOp::Record { .. })) {
            v.push("record-in-crash-phase");
        }
        v
    }
}
