//! C06 / residency: `ResidencyDb::save` (temp file, flush, fsync, rename).
//! One object = the database file `key_state_v8`.

use crate::crash::{Files, Obs, Recorder, Routine, Snapshot};
use cascette_client_storage::kmt::key_state::ResidencyDb;
use proptest::prelude::*;
use serde::{Deserialize, Serialize};
use std::path::Path;
use vh_engine::pick_idx;

#[derive(Debug, Clone, Serialize, Deserialize)]
pub enum ROp {
    Resident { k: u16 },
    NonResident { k: u16 },
    Span { k: u16, off: i32, len: i32 },
    Delete { ks: Vec<u16> },
    /// mark_resident on n sequential keys constructed into one bucket (25 entries per page)
    Burst { n: u16, base: u8, bucket: u8 },
    /// delete_keys on the first n keys of such a sequence
    DeleteBurst { n: u16, base: u8, bucket: u8 },
}

#[derive(Debug, Clone, Serialize, Deserialize)]
pub struct ResHist {
    pub keys: Vec<[u8; 16]>,
    pub pre: Vec<ROp>,
    pub reopen: bool,
    pub post: Vec<ROp>,
}

fn fold(x: u8) -> u8 {
    ((x >> 4) ^ x) & 0x0F
}

/// sequential key whose V8 bucket hash (xor of all bytes, nibbles folded) is `bucket`
fn seq_key(base: u8, bucket: u8, i: u32) -> [u8; 16] {
    let mut k = [0u8; 16];
    k[0] = 0x5E;
    k[1] = base;
    k[2] = (i >> 8) as u8;
    k[3] = i as u8;
    k[9] = 0xC3;
    let x0 = k.iter().fold(0u8, |a, b| a ^ b);
    k[15] = (bucket & 0x0F) ^ fold(x0);
    k
}

fn op_strategy() -> impl Strategy<Value = ROp> {
    prop_oneof![
        6 => any::<u16>().prop_map(|k| ROp::Resident { k }),
        3 => any::<u16>().prop_map(|k| ROp::NonResident { k }),
        2 => (any::<u16>(), prop_oneof![Just(0i32), any::<i32>()], prop_oneof![Just(0i32), Just(-1i32), any::<i32>()]).prop_map(|(k, off, len)| ROp::Span { k, off, len }),
        2 => proptest::collection::vec(any::<u16>(), 0..4).prop_map(|ks| ROp::Delete { ks }),
        2 => (prop_oneof![3 => 1u16..60, 1 => 200u16..260], 0u8..3, 0u8..16).prop_map(|(n, base, bucket)| ROp::Burst { n, base, bucket }),
        1 => (1u16..60, 0u8..3, 0u8..16).prop_map(|(n, base, bucket)| ROp::DeleteBurst { n, base, bucket }),
    ]
}

pub fn strategy() -> BoxedStrategy<ResHist> {
    (
        proptest::collection::vec(
            prop_oneof![
                3 => any::<[u8; 16]>(),
                1 => any::<u8>().prop_map(|x| { let mut k = [0u8; 16]; k[15] = x; k }),
                1 => Just([0u8; 16]),
            ],
            2..6,
        ),
        proptest::collection::vec(op_strategy(), 0..5),
        any::<bool>(),
        proptest::collection::vec(op_strategy(), 1..4),
    )
        .prop_map(|(keys, pre, reopen, post)| ResHist { keys, pre, reopen, post })
        .boxed()
}

fn key(h: &ResHist, k: u16) -> [u8; 16] {
    h.keys[pick_idx(k, h.keys.len())]
}

fn apply(h: &ResHist, db: &mut ResidencyDb, op: &ROp) {
    match op {
        ROp::Resident { k } => db.mark_resident(&key(h, *k)),
        ROp::NonResident { k } => db.mark_non_resident(&key(h, *k)),
        ROp::Span { k, off, len } => db.mark_span_non_resident(&key(h, *k), *off, *len),
        ROp::Delete { ks } => {
            let list: Vec<[u8; 16]> = ks.iter().map(|k| key(h, *k)).collect();
            db.delete_keys(&list);
        }
        ROp::Burst { n, base, bucket } => {
            for i in 0..*n as u32 {
                db.mark_resident(&seq_key(*base, *bucket, i));
            }
        }
        ROp::DeleteBurst { n, base, bucket } => {
            let list: Vec<[u8; 16]> = (0..*n as u32).map(|i| seq_key(*base, *bucket, i)).collect();
            db.delete_keys(&list);
        }
    }
}

fn universe(h: &ResHist) -> Vec<[u8; 16]> {
    let mut v = h.keys.clone();
    for op in h.pre.iter().chain(h.post.iter()) {
        if let ROp::Burst { n, base, bucket } | ROp::DeleteBurst { n, base, bucket } = op {
            for i in [0u32, 24, 25, (*n as u32) / 2, (*n as u32).saturating_sub(1)] {
                v.push(seq_key(*base, *bucket, i));
            }
        }
    }
    v.sort();
    v.dedup();
    v
}

const DB: &str = "key_state_v8";

pub struct Residency;

impl Routine for Residency {
    type Hist = ResHist;
    const NAME: &'static str = "residency";

    fn strategy() -> BoxedStrategy<ResHist> {
        strategy()
    }

    fn execute(h: &ResHist, dir: &Path, rec: &Recorder) -> Result<(), String> {
        let path = dir.join(DB);
        let mut db = ResidencyDb::new(path.clone());
        for op in &h.pre {
            apply(h, &mut db, op);
        }
        db.save().map_err(|e| format!("clean save: {e}"))?;
        if h.reopen {
            db = ResidencyDb::load(&path).map_err(|e| format!("reload: {e}"))?;
        }
        rec.begin_crash_phase();
        for op in &h.post {
            apply(h, &mut db, op);
        }
        db.save().map_err(|e| format!("save: {e}"))?;
        rec.op_done();
        Ok(())
    }

    fn observe(h: &ResHist, dir: &Path) -> Result<Obs, String> {
        let db = ResidencyDb::load(&dir.join(DB)).map_err(|e| format!("ResidencyDb::load: {e}"))?;
        let mut scan: Vec<String> = db.scan_keys().iter().map(hex::encode).collect();
        scan.sort();
        let res: Vec<String> = universe(h).iter().map(|k| format!("{}={}", hex::encode(k), db.is_resident(k))).collect();
        let mut o = Obs::new();
        o.insert("residency-db".into(), format!("entry_count={} scan_keys=[{}] is_resident: {}", db.entry_count(), scan.join(","), res.join(" ")));
        Ok(o)
    }

    fn follow_up(h: &ResHist, dir: &Path) -> Option<Result<Obs, String>> {
        // later session: load, delete every key of the universe but the first (the file gets shorter), save, observe
        Some((|| {
            let mut db = ResidencyDb::load(&dir.join(DB)).map_err(|e| format!("follow-up load: {e}"))?;
            let u = universe(h);
            if u.len() > 1 {
                db.delete_keys(&u[1..]);
            }
            db.save().map_err(|e| format!("follow-up save: {e}"))?;
            drop(db);
            Self::observe(h, dir)
        })())
    }

    fn site_class(snap: &Snapshot, _before: &Files) -> String {
        crate::generic_site_class(snap)
    }

    fn hist_classes(h: &ResHist) -> Vec<&'static str> {
        let mut v = Vec::new();
        if h.reopen {
            v.push("second-save-by-reloaded-instance");
        }
        if h.pre.iter().chain(h.post.iter()).any(|o| matches!(o, ROp::Burst { n, .. } if *n > 25)) {
            v.push("multi-page-bucket");
        }
        if h.pre.iter().chain(h.post.iter()).any(|o| matches!(o, ROp::Burst { n, .. } if *n >= 200)) {
            v.push("file>8KiB");
        }
        v
    }
}
