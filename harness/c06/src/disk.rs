//! C06 / disk-cache: `DiskCache::put_with_ttl` -> `write_file` (temp file, flush,
//! fsync, rename); a fresh instance serves files through the on-disk fallback of
//! `get`. One object = one cache entry.

use crate::crash::{Files, Obs, Recorder, Routine, Snapshot};
use bytes::Bytes;
use cascette_cache::config::DiskCacheConfig;
use cascette_cache::disk_cache::DiskCache;
use cascette_cache::key::CacheKey;
use cascette_cache::traits::AsyncCache;
use proptest::prelude::*;
use serde::{Deserialize, Serialize};
use std::path::Path;
use std::time::Duration;
use vh_engine::util::Rng;

#[derive(Debug, Clone, PartialEq, Eq, Hash)]
pub struct SKey(pub String);

impl CacheKey for SKey {
    fn as_cache_key(&self) -> &str {
        &self.0
    }
}

/// Key universe: shapes the crate's own key types and `cascette-protocol`
/// produce. `with_extension("tmp")` gives `index:data.000:…` / `index:data.001:…`
/// the same temp name, and likewise a CDN archive and its `.index`.
pub const KEYS: [&str; 9] = [
    "k1",
    "k2",
    "ribbit:us:versions:wow",
    "config:build:0123456789abcdef",
    "index:data.000:aaaa",
    "index:data.001:bbbb",
    "api/ribbit/products/wow/versions",
    "cdn/tpr/wow/data/ab/cd/abcd0123456789abcdef0123456789ab",
    "cdn/tpr/wow/data/ab/cd/abcd0123456789abcdef0123456789ab.index",
];

#[derive(Debug, Clone, Serialize, Deserialize)]
pub enum DOp {
    Put { k: u8, len: u16, seed: u32 },
    Remove { k: u8 },
}

#[derive(Debug, Clone, Serialize, Deserialize)]
pub struct DiskHist {
    /// 0 = flat layout, else number of sub-directory levels
    pub levels: u8,
    pub pre: Vec<DOp>,
    pub reopen: bool,
    pub post: Vec<DOp>,
    /// configured size limits (None = the defaults: 1 GiB / 100 000 files). Small limits put the
    /// cache "close to full", where an implementation may take a different write path.
    #[serde(default)]
    pub max_disk_bytes: Option<u32>,
    #[serde(default)]
    pub max_files: Option<u16>,
    /// the instances are built with `DiskCache::new_with_background_tasks` (cleanup and periodic
    /// sync tasks, both with an interval of one year: only their immediate first tick runs). Rare:
    /// the sync task shells out to sync(1).
    #[serde(default)]
    pub background: bool,
}

fn op_strategy() -> impl Strategy<Value = DOp> {
    prop_oneof![
        8 => (0u8..KEYS.len() as u8, prop_oneof![1 => Just(0u16), 4 => 1u16..200, 1 => 4090u16..4100, 1 => 5000u16..12000], any::<u32>())
            .prop_map(|(k, len, seed)| DOp::Put { k, len, seed }),
        1 => (0u8..KEYS.len() as u8).prop_map(|k| DOp::Remove { k }),
    ]
}

pub fn strategy() -> BoxedStrategy<DiskHist> {
    (
        prop_oneof![2 => Just(0u8), 1 => Just(1u8), 1 => Just(2u8)],
        proptest::collection::vec(op_strategy(), 0..5),
        any::<bool>(),
        proptest::collection::vec(op_strategy(), 1..4),
        prop_oneof![3 => Just(None), 1 => Just(Some(1u32)), 2 => (16u32..600).prop_map(Some), 1 => (4000u32..14000).prop_map(Some)],
        prop_oneof![4 => Just(None), 1 => (1u16..4).prop_map(Some)],
        proptest::bool::weighted(0.05),
    )
        .prop_map(|(levels, pre, reopen, post, max_disk_bytes, max_files, background)| DiskHist { levels, pre, reopen, post, max_disk_bytes, max_files, background })
        .boxed()
}

fn config(dir: &Path, h: &DiskHist) -> DiskCacheConfig {
    let mut c = DiskCacheConfig { default_ttl: Some(Duration::from_secs(3600)), use_subdirectories: h.levels > 0, subdirectory_levels: h.levels as usize, ..DiskCacheConfig::new(dir) };
    if let Some(b) = h.max_disk_bytes {
        c.max_disk_bytes = Some(b as usize);
    }
    if let Some(f) = h.max_files {
        c.max_files = f as usize;
    }
    c
}

/// the observing instance of a later session: always the plain constructor
fn open_plain(dir: &Path, h: &DiskHist) -> Result<DiskCache<SKey>, String> {
    DiskCache::new(config(dir, h)).map_err(|e| format!("DiskCache::new: {e}"))
}

fn open(dir: &Path, h: &DiskHist) -> Result<DiskCache<SKey>, String> {
    if h.background {
        let year = Duration::from_secs(365 * 24 * 3600);
        let cfg = DiskCacheConfig { cleanup_interval: year, sync_interval: year, ..config(dir, h) };
        let rt = crate::rt();
        let _g = rt.enter();
        return DiskCache::new_with_background_tasks(cfg).map_err(|e| format!("DiskCache::new_with_background_tasks: {e}"));
    }
    DiskCache::new(config(dir, h)).map_err(|e| format!("DiskCache::new: {e}"))
}

fn apply(c: &DiskCache<SKey>, op: &DOp) -> Result<(), String> {
    let rt = crate::rt();
    match op {
        DOp::Put { k, len, seed } => {
            let v = Rng::new(*seed as u64).bytes(*len as usize);
            rt.block_on(c.put_with_ttl(SKey(KEYS[*k as usize % KEYS.len()].into()), Bytes::from(v), Duration::from_secs(3600))).map_err(|e| format!("put_with_ttl: {e}"))
        }
        DOp::Remove { k } => rt.block_on(c.remove(&SKey(KEYS[*k as usize % KEYS.len()].into()))).map(|_| ()).map_err(|e| format!("remove: {e}")),
    }
}

fn foreign_temp_files(dir: &Path) {
    let own = format!(".{}-", std::process::id());
    let other = format!(".{}-", std::process::id().wrapping_add(1).max(2));
    let mut stack = vec![dir.to_path_buf()];
    while let Some(d) = stack.pop() {
        let Ok(rd) = std::fs::read_dir(&d) else { continue };
        for e in rd.flatten() {
            let p = e.path();
            if p.is_dir() {
                stack.push(p);
            } else if let Some(name) = p.file_name().and_then(|n| n.to_str()) {
                if name.ends_with(".tmp") && name.contains(&own) {
                    let _ = std::fs::rename(&p, p.with_file_name(name.replacen(&own, &other, 1)));
                }
            }
        }
    }
}

pub struct Disk;

impl Routine for Disk {
    type Hist = DiskHist;
    const NAME: &'static str = "disk-cache";

    fn strategy() -> BoxedStrategy<DiskHist> {
        strategy()
    }

    fn execute(h: &DiskHist, dir: &Path, rec: &Recorder) -> Result<(), String> {
        let mut c = open(dir, h)?;
        for op in &h.pre {
            apply(&c, op)?;
        }
        if h.reopen {
            drop(c);
            c = open(dir, h)?;
        }
        rec.begin_crash_phase();
        for op in &h.post {
            apply(&c, op)?;
            rec.op_done();
        }
        Ok(())
    }

    fn observe(h: &DiskHist, dir: &Path) -> Result<Obs, String> {
        // the process that crashed had another process id than the one that opens the directory
        // now: its temporary files (`<name>.<pid>-<n>.tmp`) are renamed accordingly
        foreign_temp_files(dir);
        let rt = crate::rt();
        let c = open_plain(dir, h)?;
        let mut o = Obs::new();
        // before any get(): a fresh instance counts the files on disk, temp files excluded
        let size = rt.block_on(c.size()).map_err(|e| format!("size: {e}"))?;
        for k in KEYS {
            let v = rt.block_on(c.get(&SKey(k.into()))).map_err(|e| format!("get({k}): {e}"))?;
            let s = match v {
                None => continue,
                Some(b) => format!("{} bytes fnv={:016x} head={}", b.len(), vh_engine::util::fnv64(&b), hex::encode(&b[..b.len().min(8)])),
            };
            o.insert(format!("entry:{k}"), s);
        }
        o.insert("#size-of-fresh-instance".into(), size.to_string());
        Ok(o)
    }

    fn follow_up(h: &DiskHist, dir: &Path) -> Option<Result<Obs, String>> {
        // later session: a fresh instance replaces every key by a 1-byte value (shorter than anything
        // written before) and removes the last key; then a fresh instance observes
        Some((|| {
            let rt = crate::rt();
            let c = open_plain(dir, h)?;
            for (i, k) in KEYS.iter().enumerate() {
                rt.block_on(c.put(SKey((*k).into()), bytes::Bytes::from(vec![b'a' + i as u8]))).map_err(|e| format!("follow-up put({k}): {e}"))?;
            }
            if let Some(k) = KEYS.last() {
                rt.block_on(c.remove(&SKey((*k).into()))).map_err(|e| format!("follow-up remove({k}): {e}"))?;
            }
            drop(c);
            Self::observe(h, dir)
        })())
    }

    fn site_class(snap: &Snapshot, _before: &Files) -> String {
        crate::generic_site_class(snap)
    }

    fn hist_classes(h: &DiskHist) -> Vec<&'static str> {
        let mut v = Vec::new();
        v.push(if h.levels == 0 { "flat-layout" } else { "sub-directories" });
        if h.max_disk_bytes.is_some() || h.max_files.is_some() {
            v.push("size-limit-configured");
        }
        if h.background {
            v.push("instances-with-background-tasks");
        }
        if h.reopen {
            v.push("second-put-by-new-instance");
        }
        let puts = |ops: &[DOp]| ops.iter().filter_map(|o| if let DOp::Put { k, .. } = o { Some(*k) } else { None }).collect::<Vec<_>>();
        let pre = puts(&h.pre);
        if puts(&h.post).iter().any(|k| pre.contains(k)) {
            v.push("overwrites-existing-entry");
        }
        if h.post.iter().any(|o| matches!(o, DOp::Put { len, .. } if *len > 4096)) {
            v.push("value>4KiB");
        }
        v
    }
}
