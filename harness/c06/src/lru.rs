//! C06 / lru: `LruManager::checkpoint_to_disk` (+ `shutdown`), recovery through
//! `run_cycle` (find_latest_lru_file + load_from_disk). One object = the checkpoint.

use crate::crash::{Blob, Files, Obs, Recorder, Routine, Snapshot};
use cascette_client_storage::lru::LruManager;
use proptest::prelude::*;
use serde::{Deserialize, Serialize};
use std::path::Path;
use vh_engine::pick_idx;

#[derive(Debug, Clone, Serialize, Deserialize)]
pub enum LOp {
    Touch { k: u16 },
    Remove { k: u16 },
    EvictTail,
    Bump,
    /// checkpoint_to_disk
    Checkpoint,
    /// shutdown = bump + checkpoint + scan_directory
    Shutdown,
}

#[derive(Debug, Clone, Serialize, Deserialize)]
pub struct LruHist {
    pub capacity: u32,
    pub keys: Vec<[u8; 9]>,
    pub pre: Vec<LOp>,
    /// how the clean checkpoint is taken: false = checkpoint_to_disk, true = shutdown
    pub clean_by_shutdown: bool,
    /// the instance that writes the second checkpoint came from `run_cycle` on the directory
    pub reopen: bool,
    pub post: Vec<LOp>,
    /// the last crash-phase op: 0 = checkpoint (same generation unless bumped), 1 = bump + checkpoint, 2 = shutdown
    pub last: u8,
}

fn op_strategy() -> impl Strategy<Value = LOp> {
    prop_oneof![
        8 => any::<u16>().prop_map(|k| LOp::Touch { k }),
        2 => any::<u16>().prop_map(|k| LOp::Remove { k }),
        1 => Just(LOp::EvictTail),
        2 => Just(LOp::Bump),
        2 => Just(LOp::Checkpoint),
        1 => Just(LOp::Shutdown),
    ]
}

pub fn strategy() -> BoxedStrategy<LruHist> {
    (
        prop_oneof![6 => 1u32..9, 1 => 210u32..260],
        proptest::collection::vec(prop_oneof![6 => any::<[u8; 9]>(), 1 => Just([0u8; 9]), 1 => any::<u8>().prop_map(|x| [x; 9])], 2..7),
        proptest::collection::vec(op_strategy(), 0..5),
        proptest::bool::weighted(0.3),
        any::<bool>(),
        proptest::collection::vec(op_strategy(), 1..4),
        0u8..3,
    )
        .prop_map(|(capacity, keys, pre, clean_by_shutdown, reopen, post, last)| LruHist { capacity, keys, pre, clean_by_shutdown, reopen, post, last })
        .boxed()
}

fn key(h: &LruHist, k: u16) -> [u8; 9] {
    h.keys[pick_idx(k, h.keys.len())]
}

fn apply(h: &LruHist, lru: &mut LruManager, op: &LOp) -> Result<(), String> {
    let rt = crate::rt();
    match op {
        LOp::Touch { k } => {
            let _ = lru.touch(&key(h, *k));
        }
        LOp::Remove { k } => {
            let _ = lru.remove(&key(h, *k));
        }
        LOp::EvictTail => {
            let _ = lru.evict_tail();
        }
        LOp::Bump => lru.bump_generation(),
        LOp::Checkpoint => rt.block_on(lru.checkpoint_to_disk()).map_err(|e| format!("checkpoint_to_disk: {e}"))?,
        LOp::Shutdown => rt.block_on(lru.shutdown()).map_err(|e| format!("shutdown: {e}"))?,
    }
    Ok(())
}

fn is_lru(name: &str) -> bool {
    name.len() == 20 && name.ends_with(".lru")
}

pub struct Lru;

impl Routine for Lru {
    type Hist = LruHist;
    const NAME: &'static str = "lru";

    fn strategy() -> BoxedStrategy<LruHist> {
        strategy()
    }

    fn execute(h: &LruHist, dir: &Path, rec: &Recorder) -> Result<(), String> {
        let rt = crate::rt();
        let mut lru = LruManager::new(h.capacity, dir.to_path_buf());
        for op in &h.pre {
            apply(h, &mut lru, op)?;
        }
        apply(h, &mut lru, if h.clean_by_shutdown { &LOp::Shutdown } else { &LOp::Checkpoint })?;
        if h.reopen {
            lru = LruManager::new(h.capacity, dir.to_path_buf());
            rt.block_on(lru.run_cycle(0, 0)).map_err(|e| format!("run_cycle on the clean directory: {e}"))?;
        }
        rec.begin_crash_phase();
        for op in &h.post {
            apply(h, &mut lru, op)?;
            rec.op_done();
        }
        match h.last % 3 {
            0 => apply(h, &mut lru, &LOp::Checkpoint)?,
            1 => {
                apply(h, &mut lru, &LOp::Bump)?;
                apply(h, &mut lru, &LOp::Checkpoint)?;
            }
            _ => apply(h, &mut lru, &LOp::Shutdown)?,
        }
        rec.op_done();
        Ok(())
    }

    fn observe(h: &LruHist, dir: &Path) -> Result<Obs, String> {
        let rt = crate::rt();
        let mut lru = LruManager::new(h.capacity, dir.to_path_buf());
        let stats = rt.block_on(lru.run_cycle(0, 0)).map_err(|e| format!("LruManager::run_cycle: {e}"))?;
        let mut order = Vec::new();
        lru.for_each_entry(|k| order.push(hex::encode(k)));
        let present: Vec<String> = h.keys.iter().map(|k| format!("{}={}", hex::encode(k), lru.contains(k))).collect();
        let mut o = Obs::new();
        o.insert(
            "lru-checkpoint".into(),
            format!("len={} active={} lru->mru=[{}] contains: {}", lru.len(), stats.active_entries, order.join(","), present.join(" ")),
        );
        Ok(o)
    }

    fn follow_up(h: &LruHist, dir: &Path) -> Option<Result<Obs, String>> {
        // later session: recover, evict the tail, bump the generation and checkpoint (shutdown path), observe
        Some((|| {
            let rt = crate::rt();
            let mut lru = LruManager::new(h.capacity, dir.to_path_buf());
            rt.block_on(lru.run_cycle(0, 0)).map_err(|e| format!("follow-up run_cycle: {e}"))?;
            let _ = lru.evict_tail();
            rt.block_on(lru.shutdown()).map_err(|e| format!("follow-up shutdown: {e}"))?;
            drop(lru);
            Self::observe(h, dir)
        })())
    }

    /// stale bytes for a checkpoint file: what was at that path, else the newest other generation
    fn stale_for(path: &str, before: &Files) -> Option<Blob> {
        if let Some(b) = before.get(path) {
            return Some(b.clone());
        }
        before.iter().filter(|(k, _)| is_lru(k)).max_by(|a, b| a.0.cmp(b.0)).map(|(_, b)| b.clone())
    }

    fn site_class(snap: &Snapshot, before: &Files) -> String {
        match &snap.in_flight {
            None => "no-file-in-flight".into(),
            Some(p) if !is_lru(p) => crate::generic_site_class(snap),
            Some(p) => {
                if before.contains_key(p) {
                    "generation-file-overwritten-in-place".into()
                } else if snap.files.keys().any(|k| is_lru(k) && k != p) {
                    "new-generation-file-unsynced:older-generation-on-disk".into()
                } else {
                    "new-generation-file-unsynced:older-generation-deleted".into()
                }
            }
        }
    }

    fn hist_classes(h: &LruHist) -> Vec<&'static str> {
        let mut v = Vec::new();
        if h.reopen {
            v.push("second-checkpoint-by-reloaded-instance");
        }
        v.push(match h.last % 3 {
            0 => "last:checkpoint",
            1 => "last:bump+checkpoint",
            _ => "last:shutdown",
        });
        if h.capacity > 200 {
            v.push("file>4KiB");
        }
        if h.keys.contains(&[0u8; 9]) {
            v.push("zero-key-in-universe");
        }
        v
    }
}
