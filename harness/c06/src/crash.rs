//! Crash engine of C06: recorder (crash callback that snapshots the directory at
//! every `crash_point`), expander (snapshot -> crash images) and the per-history
//! runner that judges every image with a fresh instance.
//!
//! Crash model (DESIGN.md §3 C06, §7): at a crash point everything that was
//! fsynced, and everything that happened before a completed `rename`, is on
//! disk unchanged. The one file named `in_flight` by the hook (content written
//! but not yet fsynced) may hold, instead of what the process wrote so far:
//! any prefix of it, zeros of the same length, stale bytes (what was at that
//! path before, or the previous generation of the same object), or a written
//! prefix followed by stale bytes at the same offsets. For a routine
//! that appends, only the appended tail is in flight. Directory-entry durability
//! and sector reordering inside one `write` are not modelled.

use proptest::strategy::{BoxedStrategy, Strategy, ValueTree};
use proptest::test_runner::{Config, RngAlgorithm, RngSeed, TestCaseError, TestError, TestRunner};
use serde::de::DeserializeOwned;
use serde::{Deserialize, Serialize};
use std::cell::RefCell;
use std::collections::hash_map::DefaultHasher;
use std::collections::{BTreeMap, HashMap, HashSet};
use std::fmt::Debug;
use std::hash::Hasher;
use std::path::{Path, PathBuf};
use std::sync::{Arc, Mutex};
use vh_engine::util::{Rng, catch_panic};
use vh_engine::{Check, Known};

// ------------------------------------------------------------------ file trees

#[derive(Clone)]
pub struct Blob {
    pub bytes: Arc<Vec<u8>>,
    pub hash: u64,
    /// modification time of the file (DiskCache stamps a file's expiry there); restored by
    /// `write_tree`. `None`: whatever the image writer's clock gives.
    pub mtime: Option<std::time::SystemTime>,
}

impl Blob {
    pub fn new(v: Vec<u8>) -> Self {
        let mut h = DefaultHasher::new();
        h.write(&v);
        h.write_u64(v.len() as u64);
        Blob { hash: h.finish(), bytes: Arc::new(v), mtime: None }
    }
    pub fn with_mtime(mut self, t: Option<std::time::SystemTime>) -> Self {
        self.mtime = t;
        self
    }
}

/// relative path ('/'-separated) -> content. Directories are implicit.
pub type Files = BTreeMap<String, Blob>;

fn read_tree_into(root: &Path, rel: &str, prev: &Files, out: &mut Files) {
    let dir = if rel.is_empty() { root.to_path_buf() } else { root.join(rel) };
    let Ok(rd) = std::fs::read_dir(&dir) else { return };
    for e in rd.flatten() {
        let name = e.file_name().to_string_lossy().into_owned();
        let r = if rel.is_empty() { name } else { format!("{rel}/{name}") };
        let Ok(ft) = e.file_type() else { continue };
        if ft.is_dir() {
            read_tree_into(root, &r, prev, out);
        } else if ft.is_file() {
            let bytes = std::fs::read(e.path()).unwrap_or_default();
            // share the allocation with the previous snapshot when unchanged
            let mtime = e.metadata().and_then(|m| m.modified()).ok();
            let blob = match prev.get(&r) {
                Some(p) if *p.bytes == bytes => p.clone().with_mtime(mtime),
                _ => Blob::new(bytes).with_mtime(mtime),
            };
            out.insert(r, blob);
        }
    }
}

pub fn read_tree(root: &Path, prev: &Files) -> Files {
    let mut out = Files::new();
    read_tree_into(root, "", prev, &mut out);
    out
}

pub fn write_tree(root: &Path, files: &Files) {
    for (rel, blob) in files {
        let p = root.join(rel);
        if let Some(parent) = p.parent() {
            let _ = std::fs::create_dir_all(parent);
        }
        std::fs::write(&p, &*blob.bytes).expect("write image file");
        if let Some(t) = blob.mtime {
            if let Ok(f) = std::fs::OpenOptions::new().write(true).open(&p) {
                let _ = f.set_modified(t);
            }
        }
    }
}

pub fn tree_hash(files: &Files) -> u64 {
    let mut h = DefaultHasher::new();
    for (k, b) in files {
        h.write(k.as_bytes());
        h.write_u8(0);
        h.write_u64(b.hash);
        if let Some(d) = b.mtime.and_then(|t| t.duration_since(std::time::UNIX_EPOCH).ok()) {
            h.write_u128(d.as_nanos());
        }
    }
    h.finish()
}

/// tmpfs when present (the images are small and short-lived)
pub fn scratch_root() -> PathBuf {
    let shm = Path::new("/dev/shm");
    if shm.is_dir() { shm.to_path_buf() } else { std::env::temp_dir() }
}

// ------------------------------------------------------------------ recorder

pub struct Snapshot {
    /// position in the recording (replay handle)
    pub seq: usize,
    /// index of the crash-phase operation during which the point was hit
    pub op: usize,
    pub site: &'static str,
    pub in_flight: Option<String>,
    /// the in-flight file was fsynced earlier in this operation and has been written to since
    /// (possibly under a new name after a rename): only this many leading bytes are what the
    /// fsync made durable
    pub post_sync_durable: Option<usize>,
    pub files: Files,
}

pub struct Recording {
    /// `boundaries[j]` = directory before crash-phase op j; the last element is
    /// the directory after the last op.
    pub boundaries: Vec<Files>,
    pub snaps: Vec<Snapshot>,
}

struct Inner {
    active: bool,
    op: usize,
    snaps: Vec<Snapshot>,
    boundaries: Vec<Files>,
    last: Files,
    last_in_flight: Option<PathBuf>,
    /// the file that was written but not fsynced yet (relative path)
    dirty: Option<String>,
    /// the file that was dirty when the last `*.after_sync` site was passed, with the content it
    /// had then: what a later point finds there beyond that content was never synced
    synced: Option<(String, Blob)>,
    /// make the first rename of every op fail by removing the temp file right
    /// after its fsync (drives the retry loop of `IndexManager::save_index`)
    sabotage_site: Option<&'static str>,
    sabotaged_in_op: Option<usize>,
}

pub struct Recorder {
    root: PathBuf,
    inner: Mutex<Inner>,
}

/// Uninstalls the thread-local callbacks when dropped (also on unwind).
pub struct Installed;
impl Drop for Installed {
    fn drop(&mut self) {
        cascette_client_storage::verif_hooks::set_crash(None);
        cascette_cache::verif_hooks::set_crash(None);
    }
}

impl Recorder {
    pub fn new(root: &Path) -> Arc<Self> {
        Arc::new(Recorder {
            root: root.to_path_buf(),
            inner: Mutex::new(Inner {
                active: false,
                op: 0,
                snaps: Vec::new(),
                boundaries: Vec::new(),
                last: Files::new(),
                last_in_flight: None,
                dirty: None,
                synced: None,
                sabotage_site: None,
                sabotaged_in_op: None,
            }),
        })
    }

    /// Install as the crash callback of the calling thread, for both crates.
    /// Every hooked routine runs its I/O steps on the calling thread (the async
    /// ones are driven by a current-thread runtime), so thread-local is enough
    /// and shards do not see each other's points.
    pub fn install(self: &Arc<Self>) -> Installed {
        let a = Arc::clone(self);
        cascette_client_storage::verif_hooks::set_crash(Some(Arc::new(move |site, f| a.on_point(site, f))));
        let b = Arc::clone(self);
        cascette_cache::verif_hooks::set_crash(Some(Arc::new(move |site, f| b.on_point(site, f))));
        Installed
    }

    pub fn sabotage_rename_after(&self, site: &'static str) {
        self.inner.lock().unwrap().sabotage_site = Some(site);
    }

    /// The clean prefix of the history is on disk: start recording.
    pub fn begin_crash_phase(&self) {
        let mut g = self.inner.lock().unwrap();
        let t = read_tree(&self.root, &g.last);
        g.last = t.clone();
        g.boundaries.push(t);
        g.active = true;
        g.op = 0;
    }

    /// One crash-phase operation has completed.
    pub fn op_done(&self) {
        let mut g = self.inner.lock().unwrap();
        let t = read_tree(&self.root, &g.last);
        g.last = t.clone();
        g.boundaries.push(t);
        g.op += 1;
        // a routine that never syncs is only exposed while it runs (stated limit of the model)
        g.dirty = None;
        g.synced = None;
    }

    pub fn finish(&self) -> Recording {
        let mut g = self.inner.lock().unwrap();
        g.active = false;
        Recording { boundaries: std::mem::take(&mut g.boundaries), snaps: std::mem::take(&mut g.snaps) }
    }

    fn on_point(&self, site: &'static str, label: Option<&Path>) {
        let mut g = self.inner.lock().unwrap();
        if !g.active {
            return;
        }
        let prev = std::mem::take(&mut g.last);
        let t = read_tree(&self.root, &prev);
        // Which file is written-but-not-synced is tracked here rather than taken
        // from the label alone: the file named by the last label stays dirty until
        // a site called `*.after_sync` is passed, and a rename carries the dirt to
        // the new name (so a routine that renames before it syncs is seen as such).
        let rel = label.and_then(|p| p.strip_prefix(&self.root).ok()).map(|p| p.to_string_lossy().into_owned());
        if let Some(r) = rel {
            g.dirty = Some(r);
        } else if let Some(d) = g.dirty.clone() {
            if !t.contains_key(&d) {
                let moved = prev.get(&d).and_then(|old| {
                    t.iter().find(|(k, b)| b.hash == old.hash && prev.get(*k).map(|pb| pb.hash) != Some(b.hash)).map(|(k, _)| k.clone())
                });
                g.dirty = moved;
            }
        }
        if site.ends_with("after_sync") {
            g.synced = g.dirty.take().and_then(|d| t.get(&d).cloned().map(|b| (d, b)));
        }
        if let Some(p) = label {
            g.last_in_flight = Some(p.to_path_buf());
        }
        // Written after its fsync? Follow the synced file through a rename (the one file that
        // appeared or changed in the step in which the synced name vanished), then compare.
        let mut post_sync_durable = None;
        let mut in_flight = g.dirty.clone().filter(|d| t.contains_key(d));
        if in_flight.is_none() {
            if let Some((p, sb)) = g.synced.clone() {
                let mut at = Some(p.clone()).filter(|p| t.contains_key(p));
                if at.is_none() && prev.contains_key(&p) {
                    let changed: Vec<&String> = t.iter().filter(|(k, b)| prev.get(*k).map(|pb| pb.hash) != Some(b.hash)).map(|(k, _)| k).collect();
                    if changed.len() == 1 {
                        at = Some(changed[0].clone());
                    }
                }
                match at {
                    Some(k) => {
                        let cur = &t[&k];
                        if cur.hash != sb.hash {
                            let common = cur.bytes.iter().zip(sb.bytes.iter()).take_while(|(a, b)| a == b).count();
                            post_sync_durable = Some(common);
                            in_flight = Some(k.clone());
                        }
                        g.synced = Some((k, sb));
                    }
                    None => g.synced = None,
                }
            }
        }
        let seq = g.snaps.len();
        let op = g.op;
        g.last = t.clone();
        g.snaps.push(Snapshot { seq, op, site, in_flight, post_sync_durable, files: t });
        if g.sabotage_site == Some(site) && g.sabotaged_in_op != Some(op) {
            g.sabotaged_in_op = Some(op);
            if let Some(p) = g.last_in_flight.clone() {
                let _ = std::fs::remove_file(p);
            }
        }
    }
}

// ------------------------------------------------------------------ expander

#[derive(Debug, Clone, PartialEq, Eq, Serialize, Deserialize)]
pub enum ImageKind {
    /// everything written so far reached the disk
    AsIs,
    /// the in-flight file holds only its first n bytes
    Prefix(usize),
    /// the in-flight file has its length but reads as zeros
    Zeros,
    /// the in-flight file holds stale bytes (previous content at that path, or
    /// the previous generation of the object)
    Stale,
    /// the in-flight file has its length; its first n bytes are what was
    /// written, the rest is stale bytes at the same offsets (zeros beyond the
    /// stale content): blocks reached the disk one after the other
    Mixed(usize),
}

impl ImageKind {
    pub fn class(&self) -> &'static str {
        match self {
            ImageKind::AsIs => "as-written",
            ImageKind::Prefix(_) => "torn",
            ImageKind::Zeros => "zeros",
            ImageKind::Stale => "stale",
            ImageKind::Mixed(_) => "mixed",
        }
    }
}

/// How the in-flight file of a snapshot is to be treated.
pub struct InFlight<'a> {
    pub path: &'a str,
    pub cur: &'a Blob,
    /// bytes of the file that are not in flight (append-only routines): the
    /// length the file had before the operation, when the current content
    /// still starts with the old content.
    pub durable_len: usize,
    pub stale: Option<Blob>,
}

const FULL_ENUM_MAX: usize = 4096;

pub fn prefix_lengths(durable: usize, len: usize, seed: u64) -> Vec<usize> {
    if len <= durable {
        return Vec::new();
    }
    if len - durable <= FULL_ENUM_MAX {
        return (durable..len).collect();
    }
    let mut set = std::collections::BTreeSet::new();
    for i in 0..64 {
        set.insert(durable + i);
        set.insert(len - 1 - i);
    }
    // structure-aligned points: 512-byte pages, 4 KiB blocks, 64 KiB sections and their neighbours
    for a in [512usize, 1024, 4096, 8192, 65536] {
        let mut x = (durable / a + 1) * a;
        let mut n = 0;
        while x < len && n < 4 {
            set.insert(x);
            set.insert(x - 1);
            if x + 1 < len {
                set.insert(x + 1);
            }
            x += a;
            n += 1;
        }
    }
    let mut r = Rng::new(seed ^ (len as u64).rotate_left(17));
    for _ in 0..64 {
        set.insert(durable + r.below((len - durable) as u64) as usize);
    }
    set.into_iter().filter(|&n| n >= durable && n < len).collect()
}

pub fn image_kinds(inf: Option<&InFlight<'_>>, seed: u64) -> Vec<ImageKind> {
    let mut v = vec![ImageKind::AsIs];
    if let Some(f) = inf {
        let len = f.cur.bytes.len();
        for n in prefix_lengths(f.durable_len, len, seed) {
            v.push(ImageKind::Prefix(n));
        }
        if len > f.durable_len && f.cur.bytes[f.durable_len..].iter().any(|&b| b != 0) {
            v.push(ImageKind::Zeros);
        }
        if let Some(s) = &f.stale {
            if s.hash != f.cur.hash {
                v.push(ImageKind::Stale);
                for n in mixed_cuts(len, seed) {
                    // only cuts that differ from both the full new and the full stale content
                    let rest_differs = (n..len).any(|i| s.bytes.get(i).copied().unwrap_or(0) != f.cur.bytes[i]);
                    let head_differs = s.bytes.len() != len || (0..n).any(|i| s.bytes[i] != f.cur.bytes[i]);
                    if rest_differs && head_differs {
                        v.push(ImageKind::Mixed(n));
                    }
                }
            }
        }
    }
    v
}

fn mixed_cuts(len: usize, seed: u64) -> Vec<usize> {
    if len <= 1 {
        return Vec::new();
    }
    if len <= 600 {
        return (1..len).collect();
    }
    let mut set = std::collections::BTreeSet::new();
    for i in 1..=32 {
        set.insert(i);
        set.insert(len - i);
    }
    for a in [512usize, 4096, 65536] {
        let mut x = a;
        let mut n = 0;
        while x < len && n < 4 {
            set.insert(x);
            x += a;
            n += 1;
        }
    }
    let mut r = Rng::new(seed ^ 0x4D49_5845 ^ (len as u64).rotate_left(29));
    for _ in 0..48 {
        set.insert(1 + r.below((len - 1) as u64) as usize);
    }
    set.into_iter().filter(|&n| n >= 1 && n < len).collect()
}

/// `None`: the kind does not apply to this snapshot (replay of an outdated file).
pub fn materialize(files: &Files, inf: Option<&InFlight<'_>>, kind: &ImageKind) -> Option<Files> {
    let mut out = files.clone();
    match (kind, inf) {
        (ImageKind::AsIs, _) => {}
        (_, None) => return None,
        (ImageKind::Prefix(n), Some(f)) => {
            if *n > f.cur.bytes.len() || *n < f.durable_len {
                return None;
            }
            out.insert(f.path.to_string(), Blob::new(f.cur.bytes[..*n].to_vec()).with_mtime(f.cur.mtime));
        }
        (ImageKind::Zeros, Some(f)) => {
            let mut b = f.cur.bytes.to_vec();
            for x in &mut b[f.durable_len..] {
                *x = 0;
            }
            out.insert(f.path.to_string(), Blob::new(b).with_mtime(f.cur.mtime));
        }
        (ImageKind::Stale, Some(f)) => {
            let s = f.stale.as_ref()?;
            out.insert(f.path.to_string(), s.clone());
        }
        (ImageKind::Mixed(n), Some(f)) => {
            let s = f.stale.as_ref()?;
            let len = f.cur.bytes.len();
            if *n > len {
                return None;
            }
            let mut b = f.cur.bytes[..*n].to_vec();
            for i in *n..len {
                b.push(s.bytes.get(i).copied().unwrap_or(0));
            }
            out.insert(f.path.to_string(), Blob::new(b).with_mtime(f.cur.mtime));
        }
    }
    Some(out)
}

// ------------------------------------------------------------------ routines

/// per object (bucket file, database, checkpoint, cache entry) its observable state
pub type Obs = BTreeMap<String, String>;

pub trait Routine: Sync + 'static {
    type Hist: Debug + Clone + Serialize + DeserializeOwned + Send + 'static;
    /// section name and subsystem label in failure keys
    const NAME: &'static str;

    fn strategy() -> BoxedStrategy<Self::Hist>;

    /// Run the history in `dir`: the clean part, `rec.begin_crash_phase()`, then
    /// every crash-phase op followed by `rec.op_done()`. `Err`: an operation of the
    /// history itself failed without any crash (not this property's business).
    fn execute(h: &Self::Hist, dir: &Path, rec: &Recorder) -> Result<(), String>;

    /// A fresh instance opens `dir`. `Err` = reopening failed.
    fn observe(h: &Self::Hist, dir: &Path) -> Result<Obs, String>;

    /// Stale bytes for the in-flight file: by default what was at that path
    /// before the op, else the file the temp file is going to replace.
    fn stale_for(path: &str, before: &Files) -> Option<Blob> {
        if let Some(b) = before.get(path) {
            return Some(b.clone());
        }
        let want = Path::new(path);
        before.iter().find(|(k, _)| Path::new(k).with_extension("tmp") == want).map(|(_, b)| b.clone())
    }

    /// the routine only appends to the in-flight file at this site
    fn appends(_site: &str) -> bool {
        false
    }

    /// label of the site in failure keys (one per root cause, not per hook line)
    fn site_class(snap: &Snapshot, before: &Files) -> String;

    /// per-history classes for the evidence histogram
    fn hist_classes(_h: &Self::Hist) -> Vec<&'static str> {
        Vec::new()
    }

    /// A *later session* on `dir`: a fresh instance opens the store, performs a fixed
    /// follow-up (preferably one whose save produces a SHORTER file than the interrupted
    /// one) and saves cleanly; then another fresh instance observes. Used for the clause
    /// "leftover temporary files are ignored by later loads": the result on a crash image
    /// that recovered to old (new) must equal the result on the clean directory before
    /// (after) the interrupted operation. `None` = the routine defines no follow-up.
    fn follow_up(_h: &Self::Hist, _dir: &Path) -> Option<Result<Obs, String>> {
        None
    }
}

#[derive(Debug, Clone, Serialize, Deserialize)]
pub struct ReplayCase<H> {
    pub hist: H,
    /// which crash point of the recording (0-based, in execution order)
    pub seq: usize,
    pub site: String,
    pub image: ImageKind,
}

#[derive(Default)]
pub struct Stats {
    pub histories: u64,
    /// crash points reached (snapshots taken)
    pub points: u64,
    pub evaluations: u64,
    pub nontrivial: HashSet<u64>,
    pub classes: BTreeMap<String, u64>,
    pub known: BTreeMap<String, u64>,
    pub samples: Vec<serde_json::Value>,
}

impl Stats {
    fn class(&mut self, c: impl Into<String>) {
        *self.classes.entry(c.into()).or_default() += 1;
    }
    pub fn merge(&mut self, o: Stats) {
        self.histories += o.histories;
        self.points += o.points;
        self.evaluations += o.evaluations;
        self.nontrivial.extend(o.nontrivial);
        for (k, v) in o.classes {
            *self.classes.entry(k).or_default() += v;
        }
        for (k, v) in o.known {
            *self.known.entry(k).or_default() += v;
        }
        for s in o.samples {
            if self.samples.len() < 6 {
                self.samples.push(s);
            }
        }
    }
}

pub struct Fail<H> {
    pub key: String,
    pub msg: String,
    pub case: ReplayCase<H>,
}

thread_local! {
    static IMG_DIR: RefCell<Option<tempfile::TempDir>> = const { RefCell::new(None) };
}

/// remove the calling thread's image directory (process::exit runs no destructors)
pub fn cleanup_thread() {
    IMG_DIR.with(|d| *d.borrow_mut() = None);
}

thread_local! {
    static IMG_NO: std::cell::Cell<u64> = const { std::cell::Cell::new(0) };
}

/// a fresh, empty directory for one image (never reused, so nothing can leak
/// from one image into the next)
fn with_image_dir<T>(f: impl FnOnce(&Path) -> T) -> T {
    let base = IMG_DIR.with(|d| {
        let mut d = d.borrow_mut();
        if d.is_none() {
            *d = Some(tempfile::Builder::new().prefix("vh-c06-").tempdir_in(scratch_root()).expect("tempdir"));
        }
        d.as_ref().unwrap().path().to_path_buf()
    });
    let n = IMG_NO.with(|c| {
        c.set(c.get() + 1);
        c.get()
    });
    let p = base.join(format!("i{n}"));
    std::fs::create_dir(&p).expect("mkdir image");
    let r = f(&p);
    let _ = std::fs::remove_dir_all(&p);
    r
}

fn observe_files<R: Routine>(h: &R::Hist, files: &Files) -> Result<Obs, String> {
    with_image_dir(|p| {
        write_tree(p, files);
        match catch_panic(|| R::observe(h, p)) {
            Ok(r) => r,
            Err(pi) => Err(format!("PANIC at {}:{}: {}", pi.file, pi.line, pi.msg)),
        }
    })
}

fn follow_files<R: Routine>(h: &R::Hist, files: &Files) -> Option<Result<Obs, String>> {
    with_image_dir(|p| {
        write_tree(p, files);
        match catch_panic(|| R::follow_up(h, p)) {
            Ok(r) => r,
            Err(pi) => Some(Err(format!("PANIC at {}:{}: {}", pi.file, pi.line, pi.msg))),
        }
    })
}

fn in_flight_of<'a, R: Routine>(snap: &'a Snapshot, before: &Files) -> Option<InFlight<'a>> {
    let path = snap.in_flight.as_deref()?;
    let cur = snap.files.get(path)?;
    if let Some(n) = snap.post_sync_durable {
        // written after the fsync: the synced bytes are durable, the rest may be anything
        return Some(InFlight { path, cur, durable_len: n.min(cur.bytes.len()), stale: None });
    }
    let durable_len = if R::appends(snap.site) {
        match before.get(path) {
            Some(old) if cur.bytes.len() >= old.bytes.len() && cur.bytes[..old.bytes.len()] == old.bytes[..] => old.bytes.len(),
            _ => 0,
        }
    } else {
        0
    };
    let stale = if durable_len > 0 { None } else { R::stale_for(path, before) };
    Some(InFlight { path, cur, durable_len, stale })
}

/// Compare one image's observation against old/new. `None` = fine.
fn judge_obs(obs: &Result<Obs, String>, old: &Obs, new: &Obs) -> Option<(&'static str, String)> {
    match obs {
        Err(e) => Some(("reopen-fails", format!("a fresh instance cannot open the store: {e}"))),
        Ok(o) => {
            let mut objs: Vec<&String> = old.keys().chain(new.keys()).chain(o.keys()).collect();
            objs.sort();
            objs.dedup();
            const ABSENT: &str = "<absent>";
            for obj in objs {
                let got = o.get(obj).map(String::as_str).unwrap_or(ABSENT);
                let a = old.get(obj).map(String::as_str).unwrap_or(ABSENT);
                let b = new.get(obj).map(String::as_str).unwrap_or(ABSENT);
                if got != a && got != b {
                    let cut = |s: &str| if s.len() > 300 { format!("{}…({} chars)", &s[..300], s.len()) } else { s.to_string() };
                    return Some((
                        "neither-old-nor-new",
                        format!("object {obj}: after the crash {} ; before the save {} ; after the save {}", cut(got), cut(a), cut(b)),
                    ));
                }
            }
            None
        }
    }
}

pub struct HistOutcome<H> {
    pub stats: Stats,
    /// failures that are not listed as open findings (first occurrence per key)
    pub fails: Vec<Fail<H>>,
}

fn run_history<R: Routine>(h: &R::Hist) -> Result<Recording, String> {
    let dir = tempfile::Builder::new().prefix("vh-c06-run-").tempdir_in(scratch_root()).map_err(|e| e.to_string())?;
    let rec = Recorder::new(dir.path());
    let res = {
        let _inst = rec.install();
        catch_panic(|| R::execute(h, dir.path(), &rec))
    };
    match res {
        Ok(Ok(())) => Ok(rec.finish()),
        Ok(Err(e)) => Err(e),
        Err(p) => Err(format!("PANIC at {}:{}: {}", p.file, p.line, p.msg)),
    }
}

/// Enumerate all crash points x all images of one history.
/// `shrink_target`: while shrinking, only failures with that key count and the
/// enumeration stops at the first one.
pub fn eval_history<R: Routine>(h: &R::Hist, known: &Known, shrink_target: Option<&str>) -> HistOutcome<R::Hist> {
    let stop_at_first = shrink_target.is_some();
    let mut st = Stats::default();
    let mut fails: Vec<Fail<R::Hist>> = Vec::new();
    st.histories = 1;
    let recd = match run_history::<R>(h) {
        Ok(r) => r,
        Err(e) => {
            st.class("history-not-executable");
            if std::env::var("VH_C06_DEBUG").is_ok() {
                eprintln!("[{}] history not executable: {e}\n  {h:?}", R::NAME);
            }
            return HistOutcome { stats: st, fails };
        }
    };
    for c in R::hist_classes(h) {
        st.class(format!("hist:{c}"));
    }
    st.points = recd.snaps.len() as u64;
    if recd.snaps.is_empty() {
        st.class("hist:no-crash-point-reached");
    }
    let hist_json = serde_json::to_string(h).unwrap_or_default();
    let hist_hash = vh_engine::util::fnv64(hist_json.as_bytes());

    // reference observations, one per boundary
    let mut refs: Vec<Option<Result<Obs, String>>> = vec![None; recd.boundaries.len()];
    let mut seen: HashMap<u64, bool> = HashMap::new(); // image hash -> failed
    let seed = hist_hash;
    // reference follow-up sessions, one per boundary (lazily)
    let mut fu_refs: Vec<Option<Option<Result<Obs, String>>>> = vec![None; recd.boundaries.len()];

    let record_fail = |fails: &mut Vec<Fail<R::Hist>>, st: &mut Stats, key: String, msg: String, snap: &Snapshot, kind: &ImageKind| {
        if known.is_open(&key) {
            *st.known.entry(key).or_default() += 1;
            return false;
        }
        if shrink_target.is_some_and(|t| t != key) {
            return false;
        }
        if !fails.iter().any(|f| f.key == key) {
            fails.push(Fail {
                key,
                msg,
                case: ReplayCase { hist: h.clone(), seq: snap.seq, site: snap.site.to_string(), image: kind.clone() },
            });
        }
        true
    };

    'snaps: for snap in &recd.snaps {
        let j = snap.op;
        if j + 1 >= recd.boundaries.len() {
            // the op never completed (cannot happen: execute() returned Ok)
            st.class("snapshot-after-last-boundary");
            continue;
        }
        for b in [j, j + 1] {
            if refs[b].is_none() {
                refs[b] = Some(observe_files::<R>(h, &recd.boundaries[b]));
            }
        }
        let before = &recd.boundaries[j];
        let after = &recd.boundaries[j + 1];
        let (old, new) = match (refs[j].as_ref().unwrap(), refs[j + 1].as_ref().unwrap()) {
            (Ok(a), Ok(b)) => (a.clone(), b.clone()),
            (a, b) => {
                // the store does not reopen after a *completed* operation: reported once, no image can be judged
                let e = a.as_ref().err().or(b.as_ref().err()).cloned().unwrap_or_default();
                let key = format!("C06:{}:reopen-fails:after-completed-operation", R::NAME);
                let unlisted = record_fail(&mut fails, &mut st, key, format!("no crash involved: {e}"), snap, &ImageKind::AsIs);
                if unlisted && stop_at_first {
                    break 'snaps;
                }
                continue;
            }
        };
        let differs = old != new;
        let before_hash = tree_hash(before);
        let after_hash = tree_hash(after);
        let inf = in_flight_of::<R>(snap, before);
        let site_class = R::site_class(snap, before);
        let kinds = image_kinds(inf.as_ref(), seed ^ (snap.seq as u64) << 32);
        let mut follow_ups_left = 5usize; // per crash point: as-written first, then the first few other images
        for kind in kinds {
            let Some(files) = materialize(&snap.files, inf.as_ref(), &kind) else { continue };
            let th = tree_hash(&files);
            let img_hash = th ^ (j as u64).wrapping_mul(0x9E37_79B9_7F4A_7C15);
            if seen.contains_key(&img_hash) {
                st.class("image:duplicate-of-judged-image(skipped)");
                continue;
            }
            let obs = observe_files::<R>(h, &files);
            st.evaluations += 1;
            st.class(format!("site:{}", snap.site));
            st.class(format!("kind:{}", kind.class()));
            let intermediate = th != before_hash && th != after_hash;
            let nontrivial = differs && intermediate;
            if nontrivial {
                let mut hh = vh_engine::util::Fnv::new();
                hh.write(&hist_hash.to_le_bytes());
                hh.write(&(snap.seq as u64).to_le_bytes());
                hh.write(format!("{kind:?}").as_bytes());
                st.nontrivial.insert(hh.finish());
                if st.samples.len() < 2 && (st.nontrivial.len() == 1 || matches!(kind, ImageKind::Zeros | ImageKind::Stale | ImageKind::Mixed(_))) {
                    st.samples.push(serde_json::json!({"history": h, "seq": snap.seq, "site": snap.site, "image": kind}));
                }
            }
            let verdict = judge_obs(&obs, &old, &new);
            seen.insert(img_hash, verdict.is_some());
            // later-session clause: leftovers of the crashed save must not influence a later save+load
            let mut verdict = verdict;
            if verdict.is_none() && intermediate && follow_ups_left > 0 {
                if let Ok(o) = &obs {
                    let side = if *o == old { Some(j) } else if *o == new { Some(j + 1) } else { None };
                    if let Some(b) = side {
                        if fu_refs[b].is_none() {
                            fu_refs[b] = Some(follow_files::<R>(h, &recd.boundaries[b]));
                        }
                        if let Some(Some(Ok(want))) = &fu_refs[b] {
                            follow_ups_left -= 1;
                            st.class("later-session:checked");
                            match follow_files::<R>(h, &files) {
                                Some(Ok(got)) if got == *want => {}
                                Some(Ok(got)) => {
                                    let diff = want.iter().find(|(k, v)| got.get(*k) != Some(*v)).map(|(k, v)| format!("object {k}: clean directory gives {} ; crash image gives {}", v.chars().take(260).collect::<String>(), got.get(k).map(|x| x.chars().take(260).collect::<String>()).unwrap_or_else(|| "<absent>".into()))).unwrap_or_else(|| "objects differ".into());
                                    verdict = Some(("leftover-of-crashed-save-changes-a-later-session", format!("the image recovers to the {} state, but after the same follow-up session (fresh instance, one more save, reload) {diff}", if b == j { "old" } else { "new" })));
                                }
                                Some(Err(e)) => {
                                    verdict = Some(("leftover-of-crashed-save-breaks-a-later-session", format!("the image recovers, but the follow-up session on it fails: {e}")));
                                }
                                None => {}
                            }
                        }
                    }
                }
            }
            match verdict {
                None => {
                    if let Ok(o) = &obs {
                        if differs {
                            st.class(if *o == old {
                                "result:old"
                            } else if *o == new {
                                "result:new"
                            } else {
                                "result:old-and-new-objects(per-object)"
                            });
                        } else {
                            st.class("result:old==new");
                        }
                    }
                }
                Some((what, msg)) => {
                    st.class(format!("result:FAIL:{what}"));
                    let key = format!("C06:{}:{}:{}:{}", R::NAME, what, site_class, kind.class());
                    let msg = format!("site {} (crash point #{}), image {:?}: {}", snap.site, snap.seq, kind, msg);
                    let unlisted = record_fail(&mut fails, &mut st, key, msg, snap, &kind);
                    if unlisted && stop_at_first {
                        break 'snaps;
                    }
                }
            }
        }
    }
    HistOutcome { stats: st, fails }
}

/// Re-execute one (history, crash point, image) triple. `Some((key,msg))` if it fails.
/// When the recorded crash point or image no longer exists (the routine was
/// changed, e.g. repaired), the whole history is enumerated again instead and
/// its first failure, if any, is returned.
pub fn replay_one<R: Routine>(case: &ReplayCase<R::Hist>) -> Result<Option<(String, String)>, String> {
    let recd = run_history::<R>(&case.hist)?;
    let exact = (|| {
        let snap = recd.snaps.get(case.seq)?;
        if snap.site != case.site {
            return None;
        }
        let j = snap.op;
        let before = recd.boundaries.get(j)?;
        let after = recd.boundaries.get(j + 1)?;
        let inf = in_flight_of::<R>(snap, before);
        let files = materialize(&snap.files, inf.as_ref(), &case.image)?;
        Some((snap, before, after, files))
    })();
    let Some((snap, before, after, files)) = exact else {
        let out = eval_history::<R>(&case.hist, &Known::default(), None);
        return Ok(out.fails.into_iter().next().map(|f| (f.key, format!("(recorded crash point not found, history re-enumerated) {}", f.msg))));
    };
    let old = observe_files::<R>(&case.hist, before);
    let new = observe_files::<R>(&case.hist, after);
    let (old, new) = match (old, new) {
        (Ok(a), Ok(b)) => (a, b),
        (a, b) => {
            let e = a.err().or(b.err()).unwrap_or_default();
            return Ok(Some((format!("C06:{}:reopen-fails:after-completed-operation", R::NAME), format!("no crash involved: {e}"))));
        }
    };
    let obs = observe_files::<R>(&case.hist, &files);
    Ok(judge_obs(&obs, &old, &new).map(|(what, msg)| {
        (
            format!("C06:{}:{}:{}:{}", R::NAME, what, R::site_class(snap, before), case.image.class()),
            format!("site {} (crash point #{}), image {:?}: {}", snap.site, snap.seq, case.image, msg),
        )
    }))
}

// ------------------------------------------------------------------ section driver

fn shard_seed(id: &str, section: &str, seed: u64, shard: usize) -> u64 {
    let mut h = vh_engine::util::Fnv::new();
    h.write(id.as_bytes());
    h.write(section.as_bytes());
    h.write(&seed.to_le_bytes());
    h.write(&(shard as u64).to_le_bytes());
    vh_engine::util::splitmix64(h.finish())
}

/// Run one routine as a section of the check: stored regression replays first,
/// then `histories` generated histories over `shards` threads, each with all
/// crash points x all images enumerated.
pub fn run_section<R: Routine>(ck: &mut Check, histories: u64, shards: usize) -> f64 {
    if let Some((section, case, path)) = ck.replay_request() {
        if section != R::NAME {
            return 0.0;
        }
        let case: ReplayCase<R::Hist> = match serde_json::from_value(case) {
            Ok(c) => c,
            Err(e) => {
                eprintln!("replay case does not deserialize: {e}");
                std::process::exit(2);
            }
        };
        let r = replay_one::<R>(&case);
        cleanup_thread();
        match r {
            Ok(f) => ck.conclude_replay(&path, f),
            Err(e) => {
                eprintln!("replay cannot be re-executed: {e}");
                std::process::exit(2);
            }
        }
    }
    if !ck.section_enabled(R::NAME) {
        return 0.0;
    }
    let t0 = std::time::Instant::now();
    let known = ck.known().clone();
    let mut total = Stats::default();
    let mut fails: Vec<Fail<R::Hist>> = Vec::new();

    // 1. regression replays
    for (p, cj) in ck.stored_replays(R::NAME) {
        let Ok(case) = serde_json::from_value::<ReplayCase<R::Hist>>(cj) else {
            ck.infra(format!("stored replay {} does not deserialize", p.display()));
            continue;
        };
        total.evaluations += 1;
        total.class("regression-replay");
        match replay_one::<R>(&case) {
            Ok(None) => {}
            Ok(Some((key, msg))) => {
                if known.is_open(&key) {
                    *total.known.entry(key).or_default() += 1;
                } else {
                    eprintln!("regression replay {} fails: {key} {msg}", p.display());
                    if !fails.iter().any(|f| f.key == key) {
                        fails.push(Fail { key, msg, case });
                    }
                }
            }
            Err(e) => {
                // the stored history itself no longer executes: not a verdict
                total.class("regression-replay-not-executable");
                eprintln!("regression replay {} cannot be re-executed: {e}", p.display());
            }
        }
    }

    cleanup_thread();

    // 2. generated histories
    let shards = shards.min(histories.max(1) as usize).max(1);
    let per = histories.div_ceil(shards as u64);
    let merged: Mutex<(Stats, Vec<Fail<R::Hist>>, Vec<String>)> = Mutex::new((Stats::default(), Vec::new(), Vec::new()));
    let seed = ck.seed;
    let id = ck.id;
    std::thread::scope(|sc| {
        for shard in 0..shards {
            let known = &known;
            let merged = &merged;
            sc.spawn(move || {
                vh_engine::util::install_panic_capture();
                let cfg = Config {
                    cases: per as u32,
                    failure_persistence: None,
                    max_shrink_iters: 1500,
                    rng_seed: RngSeed::Fixed(shard_seed(id, R::NAME, seed, shard)),
                    rng_algorithm: RngAlgorithm::ChaCha,
                    ..Config::default()
                };
                let mut runner = TestRunner::new(cfg);
                let strat = R::strategy();
                let target: RefCell<Option<String>> = RefCell::new(None);
                let local = RefCell::new(Stats::default());
                let res = runner.run(&strat, |h| {
                    let t = target.borrow().clone();
                    let out = eval_history::<R>(&h, known, t.as_deref());
                    if t.is_none() {
                        local.borrow_mut().merge(out.stats);
                    }
                    match out.fails.first() {
                        None => Ok(()),
                        Some(f) => {
                            if t.is_none() {
                                *target.borrow_mut() = Some(f.key.clone());
                            }
                            Err(TestCaseError::fail(f.key.clone()))
                        }
                    }
                });
                let mut g = merged.lock().unwrap();
                g.0.merge(local.into_inner());
                match res {
                    Ok(()) => {}
                    Err(TestError::Fail(_, minimal)) => {
                        let out = eval_history::<R>(&minimal, known, None);
                        if out.fails.is_empty() {
                            g.2.push(format!("section {}: failure did not reproduce on the shrunk history {:?}", R::NAME, minimal));
                        }
                        g.1.extend(out.fails);
                    }
                    Err(TestError::Abort(r)) => g.2.push(format!("proptest aborted in {}: {r}", R::NAME)),
                }
            });
        }
    });
    let (st, fs, infra) = merged.into_inner().unwrap();
    total.merge(st);
    fails.extend(fs);
    for i in infra {
        ck.infra(i);
    }

    // 3. book-keeping
    if total.histories > 0 && total.points == 0 {
        ck.infra(format!(
            "section {}: {} histories ran but no crash_point was reached - the verif-hooks call sites are missing from the tree under test (harness/c06/hooks-c06.patch) or the feature is off",
            R::NAME,
            total.histories
        ));
    }
    let wall = t0.elapsed().as_secs_f64();
    let mut classes: Vec<(String, u64)> = total.classes.into_iter().collect();
    classes.push(("histories".into(), total.histories));
    classes.push(("crash-points-reached".into(), total.points));
    ck.record_external(R::NAME, total.evaluations, total.nontrivial, classes, total.samples, None);
    for (k, n) in total.known {
        ck.count_known(R::NAME, &k, n);
    }
    let mut seen = HashSet::new();
    for f in fails {
        if seen.insert(f.key.clone()) {
            ck.report_external(R::NAME, &f.case, &f.key, &f.msg);
        }
    }
    wall
}

/// draw one value (used by self-tests / debugging)
#[allow(dead_code)]
pub fn sample<T: Debug>(s: &BoxedStrategy<T>, seed: u64) -> T {
    let mut runner = TestRunner::new(Config { rng_seed: RngSeed::Fixed(seed), rng_algorithm: RngAlgorithm::ChaCha, ..Config::default() });
    s.new_tree(&mut runner).unwrap().current()
}
