//! C06 / index: `IndexManager::save_all` -> `save_index` -> `write_index_to_file`
//! (temp file, flush, fsync, rename, 3 attempts), also reached through
//! `flush_updates_for_bucket`. One object = one bucket file.

use crate::crash::{Files, Obs, Recorder, Routine, Snapshot};
use cascette_client_storage::index::{IndexManager, UpdateStatus};
use cascette_crypto::EncodingKey;
use proptest::prelude::*;
use serde::{Deserialize, Serialize};
use std::path::Path;
use vh_engine::pick_idx;

pub const MAX_ID: u16 = 1023;
pub const MAX_OFF: u32 = 0x3FFF_FFFF;

#[derive(Debug, Clone, Copy, PartialEq, Eq, Serialize, Deserialize)]
pub struct Loc {
    pub id: u16,
    pub off: u32,
    pub size: u32,
}

#[derive(Debug, Clone, Serialize, Deserialize)]
pub struct KeySpec {
    /// which of the history's buckets
    pub b: u8,
    pub body: [u8; 8],
    pub hn: u8,
}

#[derive(Debug, Clone, Serialize, Deserialize)]
pub enum IOp {
    Add { k: u16, loc: Loc },
    Update { k: u16, loc: Loc },
    Status { k: u16, st: u8 },
    Remove { k: u16 },
    /// flush_updates_for_bucket: merges the update section and saves that bucket
    FlushBucket { b: u8 },
    FlushAll,
    Save,
    /// add_entry on n sequential keys of the first bucket
    Burst { n: u16, base: u8 },
}

#[derive(Debug, Clone, Serialize, Deserialize)]
pub struct IndexHist {
    pub buckets: [u8; 3],
    pub pool: Vec<KeySpec>,
    pub pre: Vec<IOp>,
    /// merge the update sections before the clean save (small files, sorted section only)
    pub flush_before_clean_save: bool,
    /// the instance that performs the second save was loaded from disk
    pub reopen: bool,
    pub post: Vec<IOp>,
    /// the temp file vanishes after its fsync in every crash-phase op, so the
    /// first rename fails and the retry loop runs
    pub fail_first_rename: bool,
}

pub fn make_prefix(body: [u8; 8], hn: u8, bucket: u8) -> [u8; 9] {
    // bucket = lo(h) ^ hi(h) with h = xor of the 9 bytes
    let h8 = body.iter().fold(0u8, |a, b| a ^ b);
    let t = bucket & 0x0F;
    let mut hn = hn & 0x0F;
    let mut p = [0u8; 9];
    p[..8].copy_from_slice(&body);
    p[8] = h8 ^ ((hn << 4) | (t ^ hn));
    if p == [0u8; 9] {
        // the all-zero key is the empty-slot sentinel of the .idx format: not a valid key
        hn ^= 1;
        p[8] = h8 ^ ((hn << 4) | (t ^ hn));
    }
    p
}

fn full_key(p: &[u8; 9]) -> EncodingKey {
    let mut k = [0u8; 16];
    k[..9].copy_from_slice(p);
    EncodingKey::from_bytes(k)
}

fn seq_prefix(bucket: u8, base: u8, i: u32) -> [u8; 9] {
    let body = [0x5E, base & 3, 0, 0, (i >> 8) as u8, i as u8, 0x11, 0x22];
    make_prefix(body, (i as u8) & 0x0F, bucket)
}

fn status_of(st: u8) -> UpdateStatus {
    match st % 4 {
        0 => UpdateStatus::Normal,
        1 => UpdateStatus::Delete,
        2 => UpdateStatus::HeaderNonResident,
        _ => UpdateStatus::DataNonResident,
    }
}

fn loc_strategy() -> impl Strategy<Value = Loc> {
    (
        prop_oneof![1 => Just(0u16), 1 => Just(MAX_ID), 3 => 0u16..=MAX_ID],
        prop_oneof![1 => Just(0u32), 1 => Just(MAX_OFF), 3 => 0u32..=MAX_OFF],
        prop_oneof![1 => Just(0u32), 1 => Just(u32::MAX), 3 => any::<u32>()],
    )
        .prop_map(|(id, off, size)| Loc { id, off, size })
}

fn op_strategy(in_crash_phase: bool) -> impl Strategy<Value = IOp> {
    let burst_w = if in_crash_phase { 1 } else { 2 };
    prop_oneof![
        8 => (any::<u16>(), loc_strategy()).prop_map(|(k, loc)| IOp::Add { k, loc }),
        3 => (any::<u16>(), loc_strategy()).prop_map(|(k, loc)| IOp::Update { k, loc }),
        2 => (any::<u16>(), 0u8..4).prop_map(|(k, st)| IOp::Status { k, st }),
        3 => any::<u16>().prop_map(|k| IOp::Remove { k }),
        2 => (0u8..3).prop_map(|b| IOp::FlushBucket { b }),
        1 => Just(IOp::FlushAll),
        1 => Just(IOp::Save),
        burst_w => (prop_oneof![3 => 2u16..40, 1 => 440u16..520], 0u8..4).prop_map(|(n, base)| IOp::Burst { n, base }),
    ]
}

pub fn strategy() -> BoxedStrategy<IndexHist> {
    (
        (1u8..16, 1u8..16, 1u8..16),
        proptest::collection::vec(
            (prop_oneof![3 => Just(0u8), 2 => Just(1u8), 1 => Just(2u8)], any::<[u8; 8]>(), 0u8..16).prop_map(|(b, body, hn)| KeySpec { b, body, hn }),
            2..6,
        ),
        proptest::collection::vec(op_strategy(false), 0..5),
        any::<bool>(),
        any::<bool>(),
        // the crash phase always changes something: it starts with an add_entry
        ((any::<u16>(), loc_strategy()), proptest::collection::vec(op_strategy(true), 0..3)).prop_map(|((k, loc), mut rest)| {
            rest.insert(0, IOp::Add { k, loc });
            rest
        }),
        proptest::bool::weighted(0.2),
    )
        .prop_map(|(b, pool, pre, flush_before_clean_save, reopen, post, fail_first_rename)| IndexHist {
            buckets: [b.0, b.1, b.2],
            pool,
            pre,
            flush_before_clean_save,
            reopen,
            post,
            fail_first_rename,
        })
        .boxed()
}

fn pool_prefix(h: &IndexHist, k: u16) -> [u8; 9] {
    let s = &h.pool[pick_idx(k, h.pool.len())];
    make_prefix(s.body, s.hn, h.buckets[(s.b % 3) as usize])
}

fn apply(h: &IndexHist, mgr: &mut IndexManager, op: &IOp) -> Result<(), String> {
    match op {
        IOp::Add { k, loc } => mgr.add_entry(&full_key(&pool_prefix(h, *k)), loc.id, loc.off, loc.size).map_err(|e| format!("add_entry: {e}")),
        IOp::Update { k, loc } => {
            let _ = mgr.update_entry(&full_key(&pool_prefix(h, *k)), loc.id, loc.off, loc.size);
            Ok(())
        }
        IOp::Status { k, st } => {
            let _ = mgr.update_entry_status(&full_key(&pool_prefix(h, *k)), status_of(*st));
            Ok(())
        }
        IOp::Remove { k } => {
            let _ = mgr.remove_entry(&full_key(&pool_prefix(h, *k)));
            Ok(())
        }
        IOp::FlushBucket { b } => mgr.flush_updates_for_bucket(h.buckets[(*b % 3) as usize]).map_err(|e| format!("flush_updates_for_bucket: {e}")),
        IOp::FlushAll => mgr.flush_all_updates().map_err(|e| format!("flush_all_updates: {e}")),
        IOp::Save => mgr.save_all().map_err(|e| format!("save_all: {e}")),
        IOp::Burst { n, base } => {
            for i in 0..*n as u32 {
                let p = seq_prefix(h.buckets[0], *base, i);
                mgr.add_entry(&full_key(&p), (i & 0x3FF) as u16, i.wrapping_mul(0x1001) & MAX_OFF, i ^ 0x55AA)
                    .map_err(|e| format!("add_entry (burst): {e}"))?;
            }
            Ok(())
        }
    }
}

fn universe(h: &IndexHist) -> Vec<[u8; 9]> {
    let mut v: Vec<[u8; 9]> = h.pool.iter().map(|s| make_prefix(s.body, s.hn, h.buckets[(s.b % 3) as usize])).collect();
    for op in h.pre.iter().chain(h.post.iter()) {
        if let IOp::Burst { n, base } = op {
            // first, last and a middle key of each burst
            for i in [0u32, (*n as u32) / 2, (*n as u32).saturating_sub(1)] {
                v.push(seq_prefix(h.buckets[0], *base, i));
            }
        }
    }
    v.sort();
    v.dedup();
    v
}

fn load(dir: &Path) -> Result<IndexManager, String> {
    let rt = crate::rt();
    let mut m = IndexManager::new(dir);
    rt.block_on(m.load_all()).map_err(|e| format!("IndexManager::load_all: {e}"))?;
    Ok(m)
}

pub struct Index;

impl Routine for Index {
    type Hist = IndexHist;
    const NAME: &'static str = "index";

    fn strategy() -> BoxedStrategy<IndexHist> {
        strategy()
    }

    fn execute(h: &IndexHist, dir: &Path, rec: &Recorder) -> Result<(), String> {
        let mut mgr = IndexManager::new(dir);
        for op in &h.pre {
            apply(h, &mut mgr, op)?;
        }
        if h.flush_before_clean_save {
            mgr.flush_all_updates().map_err(|e| format!("flush_all_updates: {e}"))?;
        }
        mgr.save_all().map_err(|e| format!("clean save_all: {e}"))?;
        if h.reopen {
            drop(mgr);
            mgr = load(dir)?;
        }
        rec.begin_crash_phase();
        if h.fail_first_rename {
            rec.sabotage_rename_after("index.write.after_sync");
        }
        for op in &h.post {
            apply(h, &mut mgr, op)?;
            rec.op_done();
        }
        mgr.save_all().map_err(|e| format!("save_all: {e}"))?;
        rec.op_done();
        Ok(())
    }

    fn observe(h: &IndexHist, dir: &Path) -> Result<Obs, String> {
        let m = load(dir)?;
        let mut per: std::collections::BTreeMap<u8, Vec<String>> = Default::default();
        for (b, e) in m.iter_entries() {
            per.entry(b).or_default().push(format!("{}@{}:{}+{}", hex::encode(e.key), e.archive_id(), e.archive_offset(), e.size));
        }
        for p in universe(h) {
            let ek = full_key(&p);
            let b = IndexManager::bucket_for_key(&ek);
            let s = match m.lookup(&ek) {
                Some(e) => format!("lookup({})={}:{}+{}", hex::encode(p), e.archive_id(), e.archive_offset(), e.size),
                None => format!("lookup({})=none", hex::encode(p)),
            };
            per.entry(b).or_default().push(s);
        }
        let mut o = Obs::new();
        for (b, mut v) in per {
            // a bucket without visible entries reads like a bucket without a file
            if v.iter().all(|s| s.ends_with("=none")) {
                continue;
            }
            v.sort();
            o.insert(format!("bucket-{b:02x}"), v.join(" "));
        }
        Ok(o)
    }

    fn follow_up(h: &IndexHist, dir: &Path) -> Option<Result<Obs, String>> {
        // later session: load, merge the update sections into the sorted sections (the bucket files
        // get SHORTER: no 64 KiB-aligned update section any more), save, and observe with a fresh instance
        Some((|| {
            let mut m = load(dir)?;
            m.flush_all_updates().map_err(|e| format!("follow-up flush_all_updates: {e}"))?;
            m.save_all().map_err(|e| format!("follow-up save_all: {e}"))?;
            drop(m);
            Self::observe(h, dir)
        })())
    }

    fn site_class(snap: &Snapshot, _before: &Files) -> String {
        crate::generic_site_class(snap)
    }

    fn hist_classes(h: &IndexHist) -> Vec<&'static str> {
        let mut v = Vec::new();
        if h.fail_first_rename {
            v.push("retry-loop-driven");
        }
        if h.reopen {
            v.push("second-save-by-reloaded-instance");
        }
        if h.pre.iter().chain(h.post.iter()).any(|o| matches!(o, IOp::Burst { n, .. } if *n >= 440)) {
            v.push("sorted-section>8KiB-candidate");
        }
        if h.post.iter().any(|o| matches!(o, IOp::FlushBucket { .. } | IOp::FlushAll | IOp::Save)) {
            v.push("several-saving-ops-in-crash-phase");
        }
        v
    }
}
