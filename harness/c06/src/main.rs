//! C06 — a crash at any point of a save leaves old or new state, never a broken one.
//!
//! Fault injection by crash-point enumeration over property-based histories:
//! a short history establishes state *old* (saved cleanly), 1–3 further
//! operations define *new*, and the saving operations of that second part run
//! under a recorder installed as `verif_hooks::crash_point` callback. Every
//! crash point yields a directory snapshot, every snapshot is expanded into
//! crash images (see crash.rs for the model), and for every image a FRESH
//! instance must open the directory and show, per object, exactly the state
//! before the interrupted operation or exactly the state after it. The two
//! reference states are themselves read by fresh instances from the directory
//! as it was before / after the completed operation, so the oracle asks nothing
//! about what a completed save preserves (that is C05/C10/C17).

mod backup;
mod crash;
mod disk;
mod index;
mod lru;
mod residency;

use std::cell::RefCell;
use vh_engine::Check;

thread_local! {
    static RT: RefCell<Option<std::rc::Rc<tokio::runtime::Runtime>>> = const { RefCell::new(None) };
}

/// one current-thread runtime per worker thread: the async routines run their
/// hooked steps on the calling thread, which is where the recorder is installed
pub fn rt() -> std::rc::Rc<tokio::runtime::Runtime> {
    RT.with(|r| {
        let mut r = r.borrow_mut();
        if r.is_none() {
            *r = Some(std::rc::Rc::new(tokio::runtime::Builder::new_current_thread().enable_all().build().expect("tokio runtime")));
        }
        r.as_ref().unwrap().clone()
    })
}

/// failure-key label of a crash point, by what is in flight there
pub fn generic_site_class(snap: &crash::Snapshot) -> String {
    match &snap.in_flight {
        Some(_) if snap.post_sync_durable.is_some() => "file-written-after-its-fsync".into(),
        Some(p) if p.ends_with(".tmp") => "temp-file-unsynced".into(),
        Some(_) => "final-file-unsynced".into(),
        None => {
            if snap.site.ends_with("after_rename") {
                "after-rename".into()
            } else if snap.site.ends_with("after_sync") {
                "temp-file-synced".into()
            } else {
                "no-file-in-flight".into()
            }
        }
    }
}

fn main() {
    let mut ck = Check::from_args("C06", "fault_enumeration");
    let tier = ck.tier;
    ck.extra(
        "rule",
        "per routine: pbt histories (0-4 ops + clean save = old; 1-3 ops + save = new; optionally the saving instance is reloaded from disk first); \
         every crash_point reached by a saving op of the second part x every image (as written; in-flight un-synced file cut to every prefix \
         [all for <=4 KiB, else first/last 64 + block-aligned + 64 sampled], zeros, stale bytes) is judged by a fresh instance. \
         evaluation = one distinct image judged (byte-identical images of one history are judged once). \
         non-trivial = the image's directory differs from the directory before AND after the interrupted operation (taken strictly inside it) \
         and the observable state before != after; distinct by (history, crash point, image)"
            .into(),
    );
    ck.assume("crash model: fsynced content and everything before a completed rename is durable and intact; rename is atomic and ordered after the preceding fsync");
    ck.assume("only the one file that is written-but-not-fsynced at the crash point is damaged (prefix / zeros / stale); directory-entry durability and sector reordering inside one write are not modelled");
    ck.assume("a routine that never fsyncs is exposed only while it runs: after it returns its file is taken as durable");
    ck.assume("old/new reference states are read by a fresh instance from the directory before/after the completed operation (what a completed save preserves is C05/C10/C17)");
    ck.assume("hooks: the file in flight is tracked from the crash_point labels (dirty until a *.after_sync site; a rename carries it over)");

    let n = tier.pick(240u64, 12_000u64);
    let shards = 16usize;
    let mut walls = serde_json::Map::new();
    walls.insert("index".into(), crash::run_section::<index::Index>(&mut ck, n, shards).into());
    walls.insert("residency".into(), crash::run_section::<residency::Residency>(&mut ck, n, shards).into());
    walls.insert("lru".into(), crash::run_section::<lru::Lru>(&mut ck, n, shards).into());
    walls.insert("disk-cache".into(), crash::run_section::<disk::Disk>(&mut ck, n, shards).into());
    walls.insert("compaction-backup".into(), crash::run_section::<backup::Backup>(&mut ck, n, shards).into());
    ck.extra("section_wall_s", walls.into());
    if ck.is_replay() {
        eprintln!("replay section is not known to this binary");
        std::process::exit(2);
    }
    ck.finish();
}
