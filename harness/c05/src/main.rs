//! C05 — the local key index (`IndexManager`) and the residency database (`ResidencyDb`)
//! behave as persistent maps.  Histories of operations are interpreted against the real
//! objects and a `BTreeMap` model; the complete observable state is compared after every
//! operation (see the module docs of `index` and `residency` for the exact oracle).

mod index;
mod residency;

use vh_engine::{Check, Section};

/// `IndexManager::load_index` prints "DEBUG: Index 00 ..." to stderr for every non-empty
/// bucket-0 file it loads (thousands of lines per run). While the sections run, stderr is
/// pointed at /dev/null; verdicts and failures are printed on stdout by the engine.
/// Set VH_C05_STDERR=1 to keep stderr.
struct StderrGag(Option<i32>);
impl StderrGag {
    fn new() -> Self {
        if std::env::var_os("VH_C05_STDERR").is_some() {
            return StderrGag(None);
        }
        // SAFETY: plain fd juggling on fds owned by this process
        unsafe {
            let saved = libc::dup(2);
            let null = libc::open(c"/dev/null".as_ptr(), libc::O_WRONLY);
            if saved < 0 || null < 0 {
                return StderrGag(None);
            }
            libc::dup2(null, 2);
            libc::close(null);
            StderrGag(Some(saved))
        }
    }
}
impl Drop for StderrGag {
    fn drop(&mut self) {
        if let Some(saved) = self.0.take() {
            unsafe {
                libc::dup2(saved, 2);
                libc::close(saved);
            }
        }
    }
}

fn main() {
    let mut ck = Check::from_args("C05", "exploration");
    let tier = ck.tier;
    ck.extra(
        "rule",
        "histories of add/update/status/remove/flush/save/reload/clear_bucket (index) and mark/delete/save/load (residency), \
         interpreted against a BTreeMap model with a full comparison (every lookup, enumeration, counts) after every op; keys are \
         constructed into a chosen bucket (70 % into one bucket), pairs share the 9-byte prefix / the first 8 bytes, ids and offsets \
         include 1023 and 2^30-1. Non-trivial (index) = an append was attempted on a bucket whose update section already held 1260 \
         un-flushed entries, or a reload happened after a delete; non-trivial (residency) = a reload after a delete, or a delete_keys \
         call on the > 10000 batch path; distinct by case hash"
            .into(),
    );
    ck.assume("the file system under the temp dir keeps what was written and renamed (no crash is simulated here; that is C06)");
    ck.assume("archive ids <= 1023, offsets <= 2^30-1, 9-byte all-zero key prefixes excluded (field widths / empty-slot sentinel of the .idx format)");
    ck.assume(
        "update_entry / update_entry_status / remove_entry returning false for a present key is accepted when nothing changed \
         (the statement only requires the boolean to tell the truth); the bucket_entry_count and clear_bucket counts are documented \
         as slot counts and are only bounded from below, except right after an explicit flush",
    );

    let known = ck.known().clone();
    let known2 = known.clone();
    // in --replay mode a listed finding is reported to the engine (KNOWN-FINDING line) instead of
    // being stepped over inside the history
    let inside = !ck.is_replay();

    {
        let _gag = StderrGag::new();
        ck.run(
            Section::enumerate(
                "index-fill-boundary",
                "3 hot buckets x fill level {1259,1260,1260+1 refused} x 4 ways of filling x 8 final mutations x {nothing, reload, flush} afterwards",
                || Box::new(index::boundary_cases().into_iter()),
                move |c: &index::IndexCase| index::check(c, &known, inside),
            )
            .shards(16),
        );
    }
    {
        let _gag = StderrGag::new();
        let known_a = ck.known().clone();
        ck.run(
            Section::enumerate(
                "index-64KiB-alignment",
                "one bucket whose sorted section holds exactly 3638 / 3639 / 3640 / 25483 / 25484 / 25485 entries (40 + 18 n bytes: just before, on and behind a 64 KiB boundary) plus pending updates (an add, a remove), saved and reloaded, twice; 2 hot buckets",
                || Box::new(index::alignment_cases().into_iter()),
                move |c: &index::IndexCase| index::check(c, &known_a, inside),
            )
            .shards(12),
        );
    }
    {
        let _gag = StderrGag::new();
        ck.run(
            Section::pbt("index-history", tier.pick(6_000, 300_000), index::strategy, move |c: &index::IndexCase| index::check(c, &known2, inside))
                .shards(16)
                .shrink_iters(800),
        );
    }
    {
        let _gag = StderrGag::new();
        ck.run(
            Section::pbt("residency-history", tier.pick(5_000, 250_000), residency::strategy, |c: &residency::ResCase| residency::check(c))
                .shards(16)
                .shrink_iters(800),
        );
    }
    {
        // more than 1000 pages (25 entries each) in one residency bucket
        let _gag = StderrGag::new();
        ck.run(
            Section::enumerate(
                "residency-huge-bucket",
                "24,999 / 25,000 / 25,001 / 25,026 / 30,000 sequence keys marked resident in one bucket (a page holds 25 entries: around and above 1000 pages), then a few keys of another sequence, then save + load, then 300 of them deleted through the batch path: every lookup, the enumeration and the counts agree with the model after every step".to_string(),
                || {
                    Box::new([24_999u16, 25_000, 25_001, 25_026, 30_000].into_iter().map(|n| residency::ResCase {
                        hot: 3,
                        pool: vec![residency::RKeySpec { head: [1, 2, 3, 4, 5, 6, 7, 8], mid: [9; 7], hot: false, bucket: 1, hn: 0 }],
                        ops: vec![
                            residency::ROp::Many { n, base: 0, mark: residency::Mark::Resident },
                            residency::ROp::Many { n: 3, base: 1, mark: residency::Mark::Resident },
                            residency::ROp::Reload,
                            residency::ROp::DeleteMany { n: 300, base: 0, batch: true, filler_seed: 7 },
                            residency::ROp::Reload,
                        ],
                    }))
                },
                |c: &residency::ResCase| residency::check(c),
            )
            .shards(5),
        );
    }
    ck.finish();
}
