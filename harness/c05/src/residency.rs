//! C05, part 2: `ResidencyDb` (KMT V8 key-state file) against a map model.
//!
//! Model: key -> Resident | Span (a span marked non-resident) | Deleted.
//! * `is_resident(k)`  == (model[k] == Resident)          — statement: "resident exactly when its
//!   latest mark says so"; `mark_span_non_resident` is a non-resident mark.
//! * `scan_keys()`     == the Resident keys, each once     — rustdoc of `ResidencyContainer::scan_keys`
//!   ("all resident keys").
//! * `entry_count()`   == |Resident| + |Span|               — rustdoc "live entries", `is_live` =
//!   "live (non-deleted)"; the crate's own test `test_span_non_resident` pins that a span-marked
//!   key still counts.
//! * `delete_keys` (both the sequential path and the > 10 000 batch path) marks every listed key
//!   non-resident; keys not listed keep their state.
//! * `save` + `load` (a new db from the same path) reproduces the state; `load` without a
//!   preceding `save` reproduces the state of the last save (nothing else writes the file).

use cascette_client_storage::kmt::key_state::{BATCH_DELETE_THRESHOLD, ResidencyDb, ResidencyEntry};
use proptest::prelude::*;
use serde::{Deserialize, Serialize};
use std::collections::{BTreeMap, BTreeSet};
use vh_engine::util::Rng;
use vh_engine::{Verdict, pick_idx};

#[derive(Debug, Clone, Serialize, Deserialize)]
pub struct RKeySpec {
    /// first 8 bytes — the only bytes the MurmurHash3 fast path looks at
    pub head: [u8; 8],
    pub mid: [u8; 7],
    pub hot: bool,
    pub bucket: u8,
    pub hn: u8,
}

#[derive(Debug, Clone, Copy, PartialEq, Eq, Serialize, Deserialize)]
pub enum Mark {
    Resident,
    NonResident,
    Span,
}

#[derive(Debug, Clone, Serialize, Deserialize)]
pub enum ROp {
    Resident { k: u16 },
    NonResident { k: u16 },
    Span { k: u16, offset: i32, length: i32 },
    /// delete_keys on the sequential path: the picked keys plus `absent` keys never marked
    Delete { ks: Vec<u16>, absent: u8 },
    /// delete_keys with 10 001 filler keys + the picked keys (> threshold: batch path);
    /// `exact_threshold` = exactly 10 000 keys in total instead (largest sequential call)
    BatchDelete { ks: Vec<u16>, filler_seed: u32, exact_threshold: bool },
    Save,
    /// a save that is made to fail with an I/O error: a directory sits where the temporary file
    /// (`at_temp`) or the final file has to go, and is taken away again afterwards. What is on disk
    /// stays what it was; the marks stay pending and a later save has to write them
    SaveBlocked { at_temp: bool },
    /// a new db loaded from the path (unsaved marks are discarded)
    Load,
    /// save, then load
    Reload,
    /// mark `n` sequence keys (shared first 8 bytes, one bucket)
    Many { n: u16, base: u8, mark: Mark },
    /// delete the first `n` sequence keys, sequentially or through the batch path
    DeleteMany { n: u16, base: u8, batch: bool, filler_seed: u32 },
}

#[derive(Debug, Clone, Serialize, Deserialize)]
pub struct ResCase {
    pub hot: u8,
    pub pool: Vec<RKeySpec>,
    pub ops: Vec<ROp>,
}

pub fn make_key(head: [u8; 8], mid: [u8; 7], hn: u8, bucket: u8) -> [u8; 16] {
    // ResidencyEntry::bucket_hash: xor of all 16 bytes, then lo ^ hi nibble
    let mut k = [0u8; 16];
    k[..8].copy_from_slice(&head);
    k[8..15].copy_from_slice(&mid);
    let h = k[..15].iter().fold(0u8, |a, b| a ^ b);
    let hn = hn & 0x0F;
    k[15] = h ^ ((hn << 4) | ((bucket & 0x0F) ^ hn));
    k
}

const HEADS: [[u8; 8]; 3] = [[0x11; 8], [0, 0, 0, 0, 0, 0, 0, 1], [0xFF, 0xEE, 0xDD, 0xCC, 0xBB, 0xAA, 0x99, 0x88]];

fn seq_key(hot: u8, base: u8, i: u32) -> [u8; 16] {
    // all sequence keys of one base share the first 8 bytes and the bucket
    let head = [0x77, base & 3, 0x77, 0x77, 0x77, 0x77, 0x77, 0x77];
    make_key(head, [0, 0, 0, (i >> 8) as u8, i as u8, 0x33, 0x44], (i as u8) & 0x0F, hot)
}

fn filler_keys(seed: u32, n: usize) -> Vec<[u8; 16]> {
    let mut r = Rng::new(0xF111_0000_0000 ^ seed as u64);
    (0..n)
        .map(|i| {
            let mut k = [0u8; 16];
            k[..8].copy_from_slice(&r.next_u64().to_le_bytes());
            k[8..12].copy_from_slice(&(i as u32).to_be_bytes());
            k[12..16].copy_from_slice(&[0xF1, 0x11, 0xE2, 0x00]);
            // a few fillers share the first 8 bytes with pool / sequence keys
            match i % 1000 {
                0 => k[..8].copy_from_slice(&HEADS[0]),
                1 => k[..8].copy_from_slice(&[0x77, 0, 0x77, 0x77, 0x77, 0x77, 0x77, 0x77]),
                _ => {}
            }
            k
        })
        .collect()
}

fn key_strategy() -> impl Strategy<Value = RKeySpec> {
    (
        prop_oneof![
            5 => proptest::sample::select(HEADS.to_vec()),
            2 => any::<[u8; 8]>(),
            1 => Just([0u8; 8]),
        ],
        prop_oneof![
            3 => any::<u8>().prop_map(|x| [0, 0, 0, 0, 0, 0, x]),
            2 => any::<[u8; 7]>(),
            1 => Just([0u8; 7]),
        ],
        proptest::bool::weighted(0.7),
        0u8..16,
        0u8..16,
    )
        .prop_map(|(head, mid, hot, bucket, hn)| RKeySpec { head, mid, hot, bucket, hn })
}

fn mark_strategy() -> impl Strategy<Value = Mark> {
    prop_oneof![3 => Just(Mark::Resident), 1 => Just(Mark::NonResident), 1 => Just(Mark::Span)]
}

fn op_strategy() -> impl Strategy<Value = ROp> {
    let span = || (prop_oneof![Just(0i32), Just(i32::MAX), 0i32..=i32::MAX], prop_oneof![Just(1i32), Just(i32::MAX), 1i32..=i32::MAX]);
    prop_oneof![
        24 => any::<u16>().prop_map(|k| ROp::Resident { k }),
        10 => any::<u16>().prop_map(|k| ROp::NonResident { k }),
        8 => (any::<u16>(), span()).prop_map(|(k, (offset, length))| ROp::Span { k, offset, length }),
        8 => (proptest::collection::vec(any::<u16>(), 0..8), 0u8..4).prop_map(|(ks, absent)| ROp::Delete { ks, absent }),
        8 => (proptest::collection::vec(any::<u16>(), 0..8), any::<u32>(), proptest::bool::weighted(0.08))
            .prop_map(|(ks, filler_seed, exact_threshold)| ROp::BatchDelete { ks, filler_seed, exact_threshold }),
        3 => Just(ROp::Save),
        2 => any::<bool>().prop_map(|at_temp| ROp::SaveBlocked { at_temp }),
        3 => Just(ROp::Load),
        10 => Just(ROp::Reload),
        8 => (prop_oneof![2 => 20u16..=120, 1 => 1u16..=300, 1 => 24u16..=27], 0u8..3, mark_strategy())
            .prop_map(|(n, base, mark)| ROp::Many { n, base, mark }),
        4 => (1u16..=300, 0u8..3, any::<bool>(), any::<u32>())
            .prop_map(|(n, base, batch, filler_seed)| ROp::DeleteMany { n, base, batch, filler_seed }),
    ]
}

pub fn strategy() -> BoxedStrategy<ResCase> {
    (
        0u8..16,
        proptest::collection::vec(key_strategy(), 1..=40),
        proptest::collection::vec(op_strategy(), 1..=30),
    )
        .prop_map(|(hot, pool, ops)| ResCase { hot, pool, ops })
        .boxed()
}

// ---------------------------------------------------------------- interpreter

type Fail = (String, String);

fn hex(b: &[u8]) -> String {
    b.iter().map(|x| format!("{x:02x}")).collect()
}

type Model = BTreeMap<[u8; 16], Mark>;

struct Run {
    _dir: tempfile::TempDir,
    path: std::path::PathBuf,
    db: ResidencyDb,
    model: Model,
    /// state of the file: what the last save wrote (None: never written)
    disk: Model,
    keys: BTreeSet<[u8; 16]>,
    // labels
    deleted: bool,
    reload_after_delete: bool,
    batch: bool,
    batch_hit_resident: bool,
    exact_threshold: bool,
    shared_head_diff_bucket: bool,
    multi_page_bucket: bool,
    load_discards: bool,
    save_failed: bool,
    span_used: bool,
    remark_after_delete: bool,
}

impl Run {
    fn check_all(&self, after: &str) -> Result<(), Fail> {
        for k in &self.keys {
            let want = self.model.get(k) == Some(&Mark::Resident);
            let got = self.db.is_resident(k);
            if got != want {
                return Err((
                    format!("C05:residency:is_resident:{}", if got { "reports-non-resident-key-resident" } else { "reports-resident-key-non-resident" }),
                    format!("after {after}: is_resident({}) = {got}, latest mark: {:?}", hex(k), self.model.get(k)),
                ));
            }
        }
        let scan = self.db.scan_keys();
        let set: BTreeSet<[u8; 16]> = scan.iter().copied().collect();
        let want: BTreeSet<[u8; 16]> = self.model.iter().filter(|(_, m)| **m == Mark::Resident).map(|(k, _)| *k).collect();
        if set != want {
            let extra: Vec<String> = set.difference(&want).take(3).map(|k| hex(k)).collect();
            let missing: Vec<String> = want.difference(&set).take(3).map(|k| hex(k)).collect();
            return Err((
                format!("C05:residency:scan_keys:{}", if !missing.is_empty() { "misses-resident-key" } else { "yields-non-resident-key" }),
                format!("after {after}: scan_keys has {} keys, model {}; extra {:?} missing {:?}", set.len(), want.len(), extra, missing),
            ));
        }
        if scan.len() != set.len() {
            return Err(("C05:residency:scan_keys:duplicates".into(), format!("after {after}: {} keys returned, {} distinct", scan.len(), set.len())));
        }
        let live = self.model.values().filter(|m| **m != Mark::NonResident).count();
        let c = self.db.entry_count();
        if c != live {
            return Err((
                "C05:residency:entry_count-disagrees".into(),
                format!("after {after}: entry_count() = {c}, model has {live} live (resident or span-marked) keys"),
            ));
        }
        Ok(())
    }

    fn mark(&mut self, k: [u8; 16], m: Mark, offset: i32, length: i32) {
        self.keys.insert(k);
        if m == Mark::Resident && self.model.get(&k) == Some(&Mark::NonResident) {
            self.remark_after_delete = true;
        }
        match m {
            Mark::Resident => self.db.mark_resident(&k),
            Mark::NonResident => {
                self.db.mark_non_resident(&k);
                self.deleted = true;
            }
            Mark::Span => {
                self.db.mark_span_non_resident(&k, offset, length);
                self.span_used = true;
            }
        }
        self.model.insert(k, m);
    }

    fn delete(&mut self, list: &[[u8; 16]]) {
        if list.len() > BATCH_DELETE_THRESHOLD {
            self.batch = true;
        }
        self.db.delete_keys(list);
        let mut hit = false;
        for k in list {
            if let Some(m) = self.model.get_mut(k) {
                if *m == Mark::Resident {
                    hit = true;
                }
                *m = Mark::NonResident;
            }
        }
        if hit {
            self.deleted = true;
            if list.len() > BATCH_DELETE_THRESHOLD {
                self.batch_hit_resident = true;
            }
        }
    }

    fn save(&mut self, what: &str) -> Result<(), Fail> {
        if let Err(e) = self.db.save() {
            return Err(("C05:residency:save-fails".into(), format!("{what}: {e}")));
        }
        self.disk = self.model.clone();
        Ok(())
    }

    fn load(&mut self, what: &str) -> Result<(), Fail> {
        match ResidencyDb::load(&self.path) {
            Ok(db) => self.db = db,
            Err(e) => return Err(("C05:residency:load-fails-on-own-file".into(), format!("{what}: {e}"))),
        }
        if self.disk != self.model {
            self.load_discards = true;
        }
        self.model = self.disk.clone();
        if self.deleted {
            self.reload_after_delete = true;
        }
        Ok(())
    }

    fn labels(&mut self) {
        // several pages in one bucket / same first 8 bytes in different buckets
        let mut per = [0usize; 16];
        let mut heads: BTreeMap<[u8; 8], BTreeSet<u8>> = BTreeMap::new();
        for k in self.model.keys() {
            let b = ResidencyEntry::bucket_hash(k);
            per[(b & 15) as usize] += 1;
            let mut h = [0u8; 8];
            h.copy_from_slice(&k[..8]);
            heads.entry(h).or_default().insert(b);
        }
        if per.iter().any(|&n| n > 25) {
            self.multi_page_bucket = true;
        }
        if heads.values().any(|s| s.len() > 1) {
            self.shared_head_diff_bucket = true;
        }
    }

    fn step(&mut self, case: &ResCase, i: usize, op: &ROp) -> Result<(), Fail> {
        let pick = |k: u16| -> [u8; 16] {
            let s = &case.pool[pick_idx(k, case.pool.len())];
            make_key(s.head, s.mid, s.hn, if s.hot { case.hot } else { s.bucket })
        };
        let what = match op {
            ROp::Resident { .. } => format!("op#{i} mark_resident"),
            ROp::NonResident { .. } => format!("op#{i} mark_non_resident"),
            ROp::Span { .. } => format!("op#{i} mark_span_non_resident"),
            ROp::Delete { ks, absent } => format!("op#{i} delete_keys({} keys)", ks.len() + *absent as usize),
            ROp::BatchDelete { exact_threshold, .. } => format!("op#{i} delete_keys({})", if *exact_threshold { "exactly 10000 keys" } else { "> 10000 keys, batch path" }),
            ROp::Save => format!("op#{i} save"),
            ROp::SaveBlocked { at_temp } => format!("op#{i} save blocked at the {} path", if *at_temp { "temporary" } else { "final" }),
            ROp::Load => format!("op#{i} load"),
            ROp::Reload => format!("op#{i} save+load"),
            ROp::Many { n, mark, .. } => format!("op#{i} {n} x {mark:?}"),
            ROp::DeleteMany { n, batch, .. } => format!("op#{i} delete_keys({n} sequence keys{})", if *batch { " + 10001 fillers, batch path" } else { "" }),
        };
        match op {
            ROp::Resident { k } => self.mark(pick(*k), Mark::Resident, 0, 0),
            ROp::NonResident { k } => self.mark(pick(*k), Mark::NonResident, 0, 0),
            ROp::Span { k, offset, length } => self.mark(pick(*k), Mark::Span, *offset, (*length).max(1)),
            ROp::Delete { ks, absent } => {
                let mut list: Vec<[u8; 16]> = ks.iter().map(|k| pick(*k)).collect();
                for j in 0..*absent {
                    let k = make_key([0xAB; 8], [j, 1, 2, 3, 4, 5, 6], j, case.hot);
                    list.push(k);
                }
                for k in &list {
                    self.keys.insert(*k);
                }
                self.delete(&list);
            }
            ROp::BatchDelete { ks, filler_seed, exact_threshold } => {
                let targets: Vec<[u8; 16]> = ks.iter().map(|k| pick(*k)).collect();
                let nf = if *exact_threshold { BATCH_DELETE_THRESHOLD - targets.len() } else { BATCH_DELETE_THRESHOLD + 1 };
                let mut list = filler_keys(*filler_seed, nf);
                // targets in the middle of the slice
                let at = list.len() / 2;
                for (j, t) in targets.iter().enumerate() {
                    list.insert(at + j, *t);
                    self.keys.insert(*t);
                }
                for k in list.iter().step_by(997) {
                    self.keys.insert(*k);
                }
                if *exact_threshold {
                    self.exact_threshold = true;
                }
                self.delete(&list);
            }
            ROp::Save => self.save(&what)?,
            ROp::SaveBlocked { at_temp } => {
                let tmp = self.path.with_extension("tmp");
                let aside = self.path.with_extension("aside");
                let block = if *at_temp { tmp.clone() } else { self.path.clone() };
                let had_final = !*at_temp && self.path.is_file();
                if had_final {
                    let _ = std::fs::rename(&self.path, &aside);
                }
                let _ = std::fs::remove_file(&tmp);
                let blocked = std::fs::create_dir_all(&block).is_ok() && std::fs::write(block.join("occupied"), b"x").is_ok();
                let r = self.db.save();
                let _ = std::fs::remove_dir_all(&block);
                if had_final {
                    let _ = std::fs::rename(&aside, &self.path);
                }
                let _ = std::fs::remove_file(&tmp);
                match r {
                    Err(_) => self.save_failed = true,
                    // nothing was pending (save is then a no-op), or the obstacle could not be placed
                    Ok(()) if self.disk == self.model || !blocked => {}
                    Ok(()) => {
                        return Err((
                            "C05:residency:save-reports-success-although-the-file-could-not-be-written".into(),
                            format!("{what}: save() returned Ok with pending marks while a directory occupied {}", block.display()),
                        ));
                    }
                }
            }
            ROp::Load => self.load(&what)?,
            ROp::Reload => {
                self.save(&what)?;
                self.load(&what)?;
            }
            ROp::Many { n, base, mark } => {
                for j in 0..u32::from(*n).min(40_000) {
                    self.mark(seq_key(case.hot, *base, j), *mark, j as i32, 1 + j as i32);
                }
            }
            ROp::DeleteMany { n, base, batch, filler_seed } => {
                let mut list: Vec<[u8; 16]> = (0..u32::from(*n).min(40_000)).map(|j| seq_key(case.hot, *base, j)).collect();
                for k in &list {
                    self.keys.insert(*k);
                }
                if *batch {
                    list.extend(filler_keys(*filler_seed, BATCH_DELETE_THRESHOLD + 1));
                }
                self.delete(&list);
            }
        }
        self.labels();
        self.check_all(&what)
    }
}

pub fn check(case: &ResCase) -> Verdict {
    if case.pool.is_empty() {
        return Verdict::pass();
    }
    let dir = tempfile::tempdir().expect("tempdir");
    let path = dir.path().join("key_state_v8");
    let mut run = Run {
        db: ResidencyDb::new(path.clone()),
        _dir: dir,
        path,
        model: Model::new(),
        disk: Model::new(),
        keys: BTreeSet::new(),
        deleted: false,
        reload_after_delete: false,
        batch: false,
        batch_hit_resident: false,
        exact_threshold: false,
        shared_head_diff_bucket: false,
        multi_page_bucket: false,
        load_discards: false,
        save_failed: false,
        span_used: false,
        remark_after_delete: false,
    };
    for (i, op) in case.ops.iter().enumerate() {
        if let Err((k, m)) = run.step(case, i, op) {
            return Verdict::fail(k, m);
        }
    }
    Verdict::pass()
        .nontrivial(run.reload_after_delete || run.batch)
        .class_if(run.reload_after_delete, "reload-after-delete")
        .class_if(run.batch, "batch-delete(>10000)")
        .class_if(run.batch_hit_resident, "batch-delete-hits-resident-key")
        .class_if(run.exact_threshold, "delete-exactly-10000(sequential)")
        .class_if(run.multi_page_bucket, "bucket-with>25-keys(multi-page)")
        .class_if(run.shared_head_diff_bucket, "same-first-8-bytes-in-different-buckets")
        .class_if(run.load_discards, "load-discards-unsaved-marks")
        .class_if(run.save_failed, "save-failed-with-io-error")
        .class_if(run.span_used, "span-non-resident")
        .class_if(run.remark_after_delete, "resident-again-after-delete")
}
