//! C05, part 1: `IndexManager` (local `.idx` key index) against a `BTreeMap` model.
//!
//! What is asserted, and where it comes from:
//! * `lookup` rustdoc: update section first, newest wins, a delete tombstone hides the key,
//!   then the sorted section  =>  lookup(k) == model[k[..9]] for every key ever used.
//! * `has_entry` == lookup().is_some().
//! * `iter_entries` rustdoc ("all visible index entries; update entries take precedence;
//!   tombstones suppress")  =>  the set of yielded entries == the model.
//! * `entry_count` rustdoc ("accounting for overwrites and deletes")  =>  == model.len().
//! * `bucket_entry_count` rustdoc ("sorted + update section entries (approximate)")  =>  only
//!   `>=` the number of visible keys of the bucket (every visible key occupies at least one
//!   slot), and `==` right after an explicit flush of that bucket (update section empty,
//!   sorted section de-duplicated by the documented merge).
//! * `remove_entry` / `update_entry` / `update_entry_status` rustdoc: `false` for an absent
//!   key; for a present key the weaker, statement-level form is used: `true` => the effect is
//!   visible, `false` => nothing changed.
//! * `update_entry_status` ("without changing its location"): statuses other than Delete keep
//!   the location; Delete is the documented tombstone (`UpdateStatus::Delete`, `lookup`).
//! * `clear_bucket` rustdoc: all entries of that bucket are gone; the return value counts
//!   sorted + update slots, so only `>=` the number of visible keys removed is asserted.
//! * reload is always `save_all()` followed by a NEW manager + `load_all()` on the same
//!   directory (what `DynamicContainer::open` does) and must reproduce the model.

use cascette_client_storage::index::{IndexManager, UpdateStatus};
use cascette_crypto::EncodingKey;
use proptest::prelude::*;
use serde::{Deserialize, Serialize};
use std::collections::{BTreeMap, BTreeSet};
use vh_engine::{Known, Verdict, pick_idx};

/// Documented capacity of one bucket's update section: 60 pages x 21 entries
/// (`MIN_UPDATE_SECTION_SIZE / UPDATE_PAGE_SIZE` x `ENTRIES_PER_PAGE`). Used only for
/// labelling (failure-key condition, classes, non-trivial rule), never for a verdict.
pub const CAP: u32 = 1260;

pub const MAX_ID: u16 = 1023;
pub const MAX_OFF: u32 = 0x3FFF_FFFF;

#[derive(Debug, Clone, Copy, PartialEq, Eq, Serialize, Deserialize)]
pub struct Loc {
    pub id: u16,
    pub off: u32,
    pub size: u32,
}

/// A 9-byte key prefix constructed into a chosen bucket.
#[derive(Debug, Clone, Serialize, Deserialize)]
pub struct PrefixSpec {
    /// place into the case's hot bucket (else into `bucket`)
    pub hot: bool,
    pub bucket: u8,
    pub body: [u8; 8],
    /// free high nibble of the xor-fold (16 different 9th bytes per bucket)
    pub hn: u8,
}

#[derive(Debug, Clone, Copy, PartialEq, Eq, Serialize, Deserialize)]
pub enum BurstKind {
    /// add_entry on the same key, varying locations
    AddSame,
    /// add_entry on keys base/0, base/1, ... (constructed into the hot bucket)
    AddSeq,
    /// update_entry on the same key, varying locations
    UpdateSame,
    /// update_entry on the sequence keys
    UpdateSeq,
    /// update_entry_status on the same key
    StatusSame(u8),
    /// add, remove, add, remove ... on the same key
    AddRemove,
    /// remove_entry on the sequence keys
    RemoveSeq,
}

#[derive(Debug, Clone, Serialize, Deserialize)]
pub enum IOp {
    Add { k: u16, alt: bool, loc: Loc },
    Update { k: u16, alt: bool, loc: Loc },
    Status { k: u16, alt: bool, st: u8 },
    Remove { k: u16, alt: bool },
    /// None = the hot bucket
    FlushBucket { b: Option<u8> },
    FlushAll,
    /// save_all, then a new manager + load_all
    Reload,
    /// save_all only
    Save,
    ClearBucket { b: Option<u8> },
    /// `IndexManager::clear()`: every bucket at once
    ClearAll,
    /// `n` distinct sequence keys added to the hot bucket and flushed (in batches of 1000): sets the
    /// size of the bucket's sorted section exactly
    FillSorted { n: u32, base: u8 },
    /// `n` repetitions of one basic op (n <= 1500) — fills the 1260-entry update section
    Burst { n: u16, kind: BurstKind, k: u16, base: u8, seed: u32 },
}

#[derive(Debug, Clone, Serialize, Deserialize)]
pub struct IndexCase {
    pub hot: u8,
    pub pool: Vec<PrefixSpec>,
    pub ops: Vec<IOp>,
}

// ---------------------------------------------------------------- key construction

pub fn make_prefix(body: [u8; 8], hn: u8, bucket: u8) -> [u8; 9] {
    // bucket = lo(h) ^ hi(h) with h = xor of the 9 bytes: choose hi(h) = hn, lo(h) = bucket ^ hn
    let h8 = body.iter().fold(0u8, |a, b| a ^ b);
    let t = bucket & 0x0F;
    let mut hn = hn & 0x0F;
    let mut p = [0u8; 9];
    p[..8].copy_from_slice(&body);
    p[8] = h8 ^ ((hn << 4) | (t ^ hn));
    if p == [0u8; 9] {
        // the all-zero 9-byte key is the empty-slot sentinel of the .idx format: not a valid key
        hn ^= 1;
        p[8] = h8 ^ ((hn << 4) | (t ^ hn));
    }
    p
}

pub fn full_key(p: &[u8; 9], alt: bool) -> [u8; 16] {
    let mut k = [0u8; 16];
    k[..9].copy_from_slice(p);
    if alt {
        k[9..].copy_from_slice(&[0xA5, 0x5A, 0x01, 0xFF, 0x00, 0x80, 0x7F]);
    }
    k
}

fn seq_prefix(hot: u8, base: u8, i: u32) -> [u8; 9] {
    // big-endian counter in the middle of the key: neighbours differ in the low byte,
    // blocks of 256 differ in a higher byte (exercises ordering in the sorted section)
    let body = [0x5E, base & 3, 0, 0, (i >> 8) as u8, i as u8, 0x11, 0x22];
    make_prefix(body, (i as u8) & 0x0F, hot)
}

fn burst_loc(seed: u32, i: u32) -> Loc {
    if i % 97 == 96 {
        return Loc { id: MAX_ID, off: MAX_OFF, size: u32::MAX };
    }
    Loc {
        id: (((seed >> 3).wrapping_add(i.wrapping_mul(7))) & 0x3FF) as u16,
        off: seed.wrapping_mul(2_654_435_761).wrapping_add(i.wrapping_mul(0x1001)) & MAX_OFF,
        size: seed ^ i.wrapping_mul(0x0101_0101),
    }
}

fn status_of(st: u8) -> UpdateStatus {
    match st % 4 {
        0 => UpdateStatus::Normal,
        1 => UpdateStatus::Delete,
        2 => UpdateStatus::HeaderNonResident,
        _ => UpdateStatus::DataNonResident,
    }
}

// ---------------------------------------------------------------- strategies

fn loc_strategy() -> impl Strategy<Value = Loc> {
    (
        prop_oneof![
            2 => Just(0u16), 3 => Just(MAX_ID), 1 => Just(3u16), 1 => Just(4u16), 1 => Just(1020u16),
            1 => Just(255u16), 1 => Just(256u16), 4 => 0u16..=MAX_ID,
        ],
        prop_oneof![
            2 => Just(0u32), 3 => Just(MAX_OFF), 1 => Just(MAX_OFF - 1), 1 => Just(0x3FFF_FF00u32),
            3 => 0u32..=MAX_OFF, 2 => 0u32..4096,
        ],
        prop_oneof![1 => Just(0u32), 1 => Just(u32::MAX), 2 => any::<u32>(), 2 => 0u32..100_000],
    )
        .prop_map(|(id, off, size)| Loc { id, off, size })
}

fn body_strategy() -> impl Strategy<Value = [u8; 8]> {
    prop_oneof![
        3 => any::<u8>().prop_map(|x| [0, 0, 0, 0, 0, 0, 0, x]),
        2 => (any::<u8>(), any::<u8>()).prop_map(|(a, b)| [a, 0, 0, 0, 0, 0, 0, b]),
        2 => (0u8..4, 0u8..4).prop_map(|(a, b)| [0xFF, 0xFF, 0xFF, 0xFF, 0xFF, 0xFF, 0xFC | a, 0xFC | b]),
        3 => any::<[u8; 8]>(),
        1 => Just([0u8; 8]),
        1 => Just([0xFFu8; 8]),
    ]
}

fn prefix_strategy() -> impl Strategy<Value = PrefixSpec> {
    (proptest::bool::weighted(0.7), 0u8..16, body_strategy(), 0u8..16)
        .prop_map(|(hot, bucket, body, hn)| PrefixSpec { hot, bucket, body, hn })
}

fn burst_kind() -> impl Strategy<Value = BurstKind> {
    prop_oneof![
        2 => Just(BurstKind::AddSame),
        4 => Just(BurstKind::AddSeq),
        4 => Just(BurstKind::UpdateSame),
        2 => Just(BurstKind::UpdateSeq),
        2 => (0u8..4).prop_map(BurstKind::StatusSame),
        2 => Just(BurstKind::AddRemove),
        2 => Just(BurstKind::RemoveSeq),
    ]
}

fn op_strategy() -> impl Strategy<Value = IOp> {
    let kb = || (any::<u16>(), proptest::bool::weighted(0.25));
    prop_oneof![
        24 => (kb(), loc_strategy()).prop_map(|((k, alt), loc)| IOp::Add { k, alt, loc }),
        12 => (kb(), loc_strategy()).prop_map(|((k, alt), loc)| IOp::Update { k, alt, loc }),
        8 => (kb(), 0u8..4).prop_map(|((k, alt), st)| IOp::Status { k, alt, st }),
        16 => kb().prop_map(|(k, alt)| IOp::Remove { k, alt }),
        5 => prop_oneof![3 => Just(None), 1 => (0u8..16).prop_map(Some)].prop_map(|b| IOp::FlushBucket { b }),
        3 => Just(IOp::FlushAll),
        8 => Just(IOp::Reload),
        1 => Just(IOp::Save),
        2 => prop_oneof![2 => Just(None), 1 => (0u8..16).prop_map(Some)].prop_map(|b| IOp::ClearBucket { b }),
        1 => Just(IOp::ClearAll),
        7 => (
            prop_oneof![3 => 1200u16..=1500, 2 => 1u16..=1500, 1 => 1255u16..=1265, 1 => 1u16..60],
            burst_kind(), any::<u16>(), 0u8..3, any::<u32>()
        ).prop_map(|(n, kind, k, base, seed)| IOp::Burst { n, kind, k, base, seed }),
    ]
}

pub fn strategy() -> BoxedStrategy<IndexCase> {
    (
        0u8..16,
        proptest::collection::vec(prefix_strategy(), 1..=16),
        proptest::collection::vec(op_strategy(), 1..=36),
    )
        .prop_map(|(hot, pool, ops)| IndexCase { hot, pool, ops })
        .boxed()
}

// ---------------------------------------------------------------- directed boundary scenarios

/// Deterministic scenarios around the update-section capacity: one bucket is filled to
/// CAP-1 / CAP / CAP (+1 refused) un-flushed entries, then every kind of mutation is applied.
/// The update section of an .idx file starts at the next 64 KiB boundary behind the sorted section
/// (40 bytes of headers + 18 bytes per entry): sorted sections that end just before, exactly on and
/// just behind a boundary, with pending updates on top, saved and reloaded.
pub fn alignment_cases() -> Vec<IndexCase> {
    let mut v = Vec::new();
    let pool = vec![PrefixSpec { hot: true, bucket: 0, body: [1, 2, 3, 4, 5, 6, 7, 8], hn: 3 }];
    // 40 + 18 n = 65536 m  ->  n = 25484 (m = 7); neighbours, and the first boundary crossing (3639/3640)
    for n in [3_638u32, 3_639, 3_640, 25_483, 25_484, 25_485] {
        for hot in [0u8, 9] {
            v.push(IndexCase {
                hot,
                pool: pool.clone(),
                ops: vec![
                    IOp::FillSorted { n, base: 0 },
                    IOp::Add { k: 0x8000, alt: false, loc: Loc { id: 3, off: 0x300, size: 30 } },
                    IOp::Remove { k: 0, alt: false },
                    IOp::Reload,
                    IOp::Add { k: 0x8000, alt: true, loc: Loc { id: 4, off: 0x400, size: 40 } },
                    IOp::Reload,
                ],
            });
        }
    }
    v
}

pub fn boundary_cases() -> Vec<IndexCase> {
    let mut v = Vec::new();
    let l1 = Loc { id: 1, off: 0x100, size: 10 };
    let l2 = Loc { id: MAX_ID, off: MAX_OFF, size: 77 };
    for hot in [0u8, 7, 15] {
        for fill in [CAP as u16 - 2, CAP as u16 - 1, CAP as u16] {
            // after Add (1 entry) + Burst(fill updates) the section holds min(CAP, 1 + fill) entries
            for filler in [BurstKind::UpdateSame, BurstKind::AddSame, BurstKind::StatusSame(3), BurstKind::AddSeq] {
                for last in 0..8u8 {
                    for tail in 0..3u8 {
                        let pool = vec![
                            PrefixSpec { hot: true, bucket: 0, body: [1, 2, 3, 4, 5, 6, 7, 8], hn: 3 },
                            PrefixSpec { hot: true, bucket: 0, body: [9, 9, 9, 9, 9, 9, 9, 9], hn: 5 },
                        ];
                        let mut ops = vec![
                            IOp::Add { k: 0, alt: false, loc: l1 },
                            IOp::Add { k: 0x8000, alt: false, loc: l1 },
                            IOp::FlushAll,
                            IOp::Add { k: 0, alt: false, loc: l1 },
                        ];
                        // AddSame/AddSeq flush by themselves when they overflow: stop them one short
                        let n = match filler {
                            BurstKind::AddSame | BurstKind::AddSeq => fill.min(CAP as u16 - 1),
                            _ => fill,
                        };
                        ops.push(IOp::Burst { n, kind: filler, k: 0, base: 0, seed: 0xC0FFEE });
                        ops.push(match last {
                            0 => IOp::Remove { k: 0, alt: false },
                            1 => IOp::Remove { k: 0x8000, alt: true },
                            2 => IOp::Update { k: 0x8000, alt: false, loc: l2 },
                            3 => IOp::Status { k: 0x8000, alt: false, st: 0 },
                            4 => IOp::Status { k: 0x8000, alt: false, st: 1 },
                            5 => IOp::Status { k: 0, alt: false, st: 3 },
                            6 => IOp::Add { k: 0x8000, alt: false, loc: l2 },
                            _ => IOp::Burst { n: 3, kind: BurstKind::RemoveSeq, k: 0, base: 0, seed: 1 },
                        });
                        match tail {
                            0 => {}
                            1 => ops.push(IOp::Reload),
                            _ => ops.push(IOp::FlushBucket { b: None }),
                        }
                        ops.push(IOp::Remove { k: 0x8000, alt: false });
                        ops.push(IOp::Reload);
                        v.push(IndexCase { hot, pool, ops });
                    }
                }
            }
        }
    }
    v
}

// ---------------------------------------------------------------- interpreter

type Fail = (String, String);

fn hex(b: &[u8]) -> String {
    b.iter().map(|x| format!("{x:02x}")).collect()
}

#[derive(Default)]
struct Flags {
    filled: bool,
    append_on_full: bool,
    reload_after_delete: bool,
    reload_with_pending: bool,
    deleted_since_start: bool,
    flush_with_tombstone: bool,
    flush_overlapping_sorted: bool,
    shared_prefix_pair: bool,
    id_limit: bool,
    off_limit: bool,
    refused_full: bool,
    clear_nonempty: bool,
    big_sorted: bool,
}

struct Run<'a> {
    dir: tempfile::TempDir,
    rt: tokio::runtime::Runtime,
    mgr: IndexManager,
    model: BTreeMap<[u8; 9], Loc>,
    /// every 16-byte key ever passed to the manager
    keys: BTreeSet<[u8; 16]>,
    /// labelling only: un-flushed entries per bucket as implied by the documented behaviour
    pend: [u32; 16],
    /// labelling only: keys with a pending (un-flushed) tombstone / keys in the sorted section
    pend_tomb: [bool; 16],
    pend_keys: BTreeSet<[u8; 9]>,
    sorted_keys: BTreeSet<[u8; 9]>,
    alts_used: BTreeSet<([u8; 9], bool)>,
    flags: Flags,
    known: &'a Known,
    /// false in --replay mode: the failure is then reported to the engine, which prints the
    /// KNOWN-FINDING line itself instead of the history silently continuing
    tolerate_inside: bool,
    known_hits: Vec<String>,
}

fn p9(k: &[u8; 16]) -> [u8; 9] {
    let mut p = [0u8; 9];
    p.copy_from_slice(&k[..9]);
    p
}

fn bucket_of(k: &[u8; 16]) -> u8 {
    // the crate's own public definition — the model never relies on the harness' solver
    IndexManager::bucket_for_key(&EncodingKey::from_bytes(*k))
}

impl<'a> Run<'a> {
    fn new(known: &'a Known, tolerate_inside: bool) -> Self {
        let dir = tempfile::tempdir().expect("tempdir");
        let rt = tokio::runtime::Builder::new_current_thread().enable_all().build().expect("rt");
        let mgr = IndexManager::new(dir.path());
        Run {
            dir,
            rt,
            mgr,
            model: BTreeMap::new(),
            keys: BTreeSet::new(),
            pend: [0; 16],
            pend_tomb: [false; 16],
            pend_keys: BTreeSet::new(),
            sorted_keys: BTreeSet::new(),
            alts_used: BTreeSet::new(),
            flags: Flags::default(),
            known,
            tolerate_inside,
            known_hits: Vec::new(),
        }
    }

    fn touch(&mut self, key: &[u8; 16], alt: bool) {
        self.keys.insert(*key);
        let p = p9(key);
        self.alts_used.insert((p, alt));
        if self.alts_used.contains(&(p, !alt)) {
            self.flags.shared_prefix_pair = true;
        }
    }

    fn observed(&self, key: &[u8; 16]) -> Option<Loc> {
        self.mgr
            .lookup(&EncodingKey::from_bytes(*key))
            .map(|e| Loc { id: e.archive_id(), off: e.archive_offset(), size: e.size })
    }

    /// lookup / has_entry of one key against the model
    fn check_key(&self, key: &[u8; 16], after: &str) -> Result<(), Fail> {
        let ek = EncodingKey::from_bytes(*key);
        let got = self.mgr.lookup(&ek);
        let want = self.model.get(&p9(key)).copied();
        let got_loc = got.as_ref().map(|e| Loc { id: e.archive_id(), off: e.archive_offset(), size: e.size });
        if got_loc != want {
            let what = match (&got_loc, &want) {
                (Some(_), None) => "absent-key-visible",
                (None, Some(_)) => "present-key-missing",
                _ => "wrong-location",
            };
            return Err((
                format!("C05:index:lookup:{what}"),
                format!("after {after}: lookup({}) = {:?}, model says {:?}", hex(key), got_loc, want),
            ));
        }
        if let Some(e) = &got {
            if e.key != p9(key) {
                return Err((
                    "C05:index:lookup:entry-has-other-key".into(),
                    format!("after {after}: lookup({}) returned an entry keyed {}", hex(key), hex(&e.key)),
                ));
            }
        }
        if self.mgr.has_entry(&ek) != want.is_some() {
            return Err((
                "C05:index:has_entry-disagrees-with-lookup".into(),
                format!("after {after}: has_entry({}) = {}", hex(key), !want.is_some()),
            ));
        }
        Ok(())
    }

    /// the complete comparison of manager and model
    fn check_all(&self, after: &str) -> Result<(), Fail> {
        for k in &self.keys {
            self.check_key(k, after)?;
        }
        let mut seen: BTreeMap<[u8; 9], Loc> = BTreeMap::new();
        let mut n = 0usize;
        for (_b, e) in self.mgr.iter_entries() {
            n += 1;
            let l = Loc { id: e.archive_id(), off: e.archive_offset(), size: e.size };
            if let Some(prev) = seen.insert(e.key, l) {
                if prev != l {
                    return Err((
                        "C05:index:iter_entries:key-twice-with-different-locations".into(),
                        format!("after {after}: key {} enumerated as {:?} and {:?}", hex(&e.key), prev, l),
                    ));
                }
            }
        }
        if seen != self.model {
            let extra: Vec<String> = seen.iter().filter(|(k, v)| self.model.get(*k) != Some(v)).take(3).map(|(k, v)| format!("{}={:?}", hex(k), v)).collect();
            let missing: Vec<String> = self.model.iter().filter(|(k, _)| !seen.contains_key(*k)).take(3).map(|(k, v)| format!("{}={:?}", hex(k), v)).collect();
            let what = if !missing.is_empty() { "misses-visible-entry" } else { "yields-entry-not-in-lookup" };
            return Err((
                format!("C05:index:iter_entries:{what}"),
                format!(
                    "after {after}: enumeration has {} distinct keys, model {}; not-in-model/wrong (first 3): {:?}; missing (first 3): {:?}",
                    seen.len(),
                    self.model.len(),
                    extra,
                    missing
                ),
            ));
        }
        if n != self.model.len() {
            return Err((
                "C05:index:iter_entries:duplicates".into(),
                format!("after {after}: {} entries enumerated for {} visible keys", n, self.model.len()),
            ));
        }
        let c = self.mgr.entry_count();
        if c != self.model.len() {
            return Err((
                "C05:index:entry_count-disagrees-with-lookups".into(),
                format!("after {after}: entry_count() = {c}, {} keys are visible", self.model.len()),
            ));
        }
        let mut per = [0usize; 16];
        for k in self.model.keys() {
            let mut f = [0u8; 16];
            f[..9].copy_from_slice(k);
            per[bucket_of(&f) as usize & 15] += 1;
        }
        for b in 0..16u8 {
            let c = self.mgr.bucket_entry_count(b);
            if c < per[b as usize] {
                return Err((
                    "C05:index:bucket_entry_count-below-visible-keys".into(),
                    format!("after {after}: bucket_entry_count({b}) = {c} but {} keys of that bucket are visible", per[b as usize]),
                ));
            }
        }
        Ok(())
    }

    fn bucket_exact(&self, b: u8, after: &str) -> Result<(), Fail> {
        let want = self
            .model
            .keys()
            .filter(|k| {
                let mut f = [0u8; 16];
                f[..9].copy_from_slice(*k);
                bucket_of(&f) == b
            })
            .count();
        let c = self.mgr.bucket_entry_count(b);
        if c != want {
            return Err((
                "C05:index:bucket_entry_count-after-flush".into(),
                format!("after {after}: bucket_entry_count({b}) = {c}, visible keys in that bucket: {want}"),
            ));
        }
        Ok(())
    }

    /// bookkeeping for labels: an append was attempted on bucket `b`; `took` = the call reported success
    fn note_append(&mut self, b: u8, p: [u8; 9], took: bool, tomb: bool) {
        let b = (b & 15) as usize;
        if self.pend[b] >= CAP {
            self.flags.append_on_full = true;
            if took {
                // documented add_entry behaviour: flush (merge into sorted), then retry
                self.note_flush(b as u8);
                self.pend[b] = 1;
            } else {
                self.flags.refused_full = true;
                return;
            }
        } else if took {
            self.pend[b] += 1;
            if self.pend[b] >= CAP {
                self.flags.filled = true;
            }
        } else {
            return;
        }
        self.pend_keys.insert(p);
        if tomb {
            self.pend_tomb[b] = true;
        }
    }

    fn note_flush(&mut self, b: u8) {
        let bi = (b & 15) as usize;
        if self.pend[bi] == 0 {
            return;
        }
        if self.pend_tomb[bi] {
            self.flags.flush_with_tombstone = true;
        }
        let mine: Vec<[u8; 9]> = self
            .pend_keys
            .iter()
            .filter(|p| {
                let mut f = [0u8; 16];
                f[..9].copy_from_slice(*p);
                bucket_of(&f) == b
            })
            .copied()
            .collect();
        for p in mine {
            if self.sorted_keys.contains(&p) {
                self.flags.flush_overlapping_sorted = true;
            }
            self.pend_keys.remove(&p);
            self.sorted_keys.insert(p);
        }
        if self.sorted_keys.len() > 1500 {
            self.flags.big_sorted = true;
        }
        self.pend[bi] = 0;
        self.pend_tomb[bi] = false;
    }

    fn tolerate(&mut self, key: String, msg: String) -> Result<(), Fail> {
        if self.tolerate_inside && self.known.is_open(&key) {
            if !self.known_hits.contains(&key) {
                self.known_hits.push(key);
            }
            Ok(())
        } else {
            Err((key, msg))
        }
    }

    fn add(&mut self, key: [u8; 16], alt: bool, loc: Loc, what: &str) -> Result<(), Fail> {
        self.touch(&key, alt);
        let b = bucket_of(&key);
        if let Err(e) = self.mgr.add_entry(&EncodingKey::from_bytes(key), loc.id, loc.off, loc.size) {
            return Err(("C05:index:add_entry-fails".into(), format!("{what}: add_entry({}) -> {e}", hex(&key))));
        }
        self.model.insert(p9(&key), loc);
        self.note_append(b, p9(&key), true, false);
        if loc.id == MAX_ID {
            self.flags.id_limit = true;
        }
        if loc.off == MAX_OFF {
            self.flags.off_limit = true;
        }
        self.check_key(&key, what)
    }

    fn update(&mut self, key: [u8; 16], alt: bool, loc: Loc, what: &str) -> Result<(), Fail> {
        self.touch(&key, alt);
        let b = bucket_of(&key);
        let p = p9(&key);
        let before = self.model.get(&p).copied();
        let full = self.pend[(b & 15) as usize] >= CAP;
        let r = self.mgr.update_entry(&EncodingKey::from_bytes(key), loc.id, loc.off, loc.size);
        match before {
            None => {
                if r {
                    return Err((
                        "C05:index:update-returns-true-for-absent-key".into(),
                        format!("{what}: update_entry({}) = true, key was absent", hex(&key)),
                    ));
                }
            }
            Some(old) => {
                let now = self.observed(&key);
                if r {
                    if now != Some(loc) {
                        let k = format!("C05:index:update-returns-true-but-new-location-not-visible{}", if full { ":update-section-full" } else { "" });
                        return Err((k, format!("{what}: update_entry({}, {:?}) = true, lookup now {:?} (was {:?})", hex(&key), loc, now, old)));
                    }
                    self.model.insert(p, loc);
                    self.note_append(b, p, true, false);
                    if loc.id == MAX_ID {
                        self.flags.id_limit = true;
                    }
                    if loc.off == MAX_OFF {
                        self.flags.off_limit = true;
                    }
                } else {
                    if now != Some(old) {
                        return Err((
                            "C05:index:update-returns-false-but-state-changed".into(),
                            format!("{what}: update_entry({}, {:?}) = false, lookup now {:?} (was {:?})", hex(&key), loc, now, old),
                        ));
                    }
                    self.note_append(b, p, false, false);
                }
            }
        }
        self.check_key(&key, what)
    }

    fn status(&mut self, key: [u8; 16], alt: bool, st: u8, what: &str) -> Result<(), Fail> {
        self.touch(&key, alt);
        let b = bucket_of(&key);
        let p = p9(&key);
        let before = self.model.get(&p).copied();
        let full = self.pend[(b & 15) as usize] >= CAP;
        let status = status_of(st);
        let r = self.mgr.update_entry_status(&EncodingKey::from_bytes(key), status);
        match before {
            None => {
                if r {
                    return Err((
                        "C05:index:status-returns-true-for-absent-key".into(),
                        format!("{what}: update_entry_status({}, {status:?}) = true, key was absent", hex(&key)),
                    ));
                }
            }
            Some(old) => {
                let now = self.observed(&key);
                if status == UpdateStatus::Delete {
                    if r {
                        if now.is_some() {
                            let k = format!("C05:index:status-delete-returns-true-but-key-visible{}", if full { ":update-section-full" } else { "" });
                            return Err((k, format!("{what}: update_entry_status({}, Delete) = true, lookup still {:?}", hex(&key), now)));
                        }
                        self.model.remove(&p);
                        self.flags.deleted_since_start = true;
                        self.note_append(b, p, true, true);
                    } else {
                        if now != Some(old) {
                            return Err((
                                "C05:index:status-returns-false-but-state-changed".into(),
                                format!("{what}: update_entry_status({}, Delete) = false, lookup now {:?} (was {:?})", hex(&key), now, old),
                            ));
                        }
                        self.note_append(b, p, false, false);
                    }
                } else {
                    if now != Some(old) {
                        return Err((
                            "C05:index:status-update-changed-location".into(),
                            format!("{what}: update_entry_status({}, {status:?}) = {r}, lookup now {:?} (was {:?})", hex(&key), now, old),
                        ));
                    }
                    self.note_append(b, p, r, false);
                }
            }
        }
        self.check_key(&key, what)
    }

    fn remove(&mut self, key: [u8; 16], alt: bool, what: &str) -> Result<(), Fail> {
        self.touch(&key, alt);
        let b = bucket_of(&key);
        let p = p9(&key);
        let before = self.model.get(&p).copied();
        let full = self.pend[(b & 15) as usize] >= CAP;
        let r = self.mgr.remove_entry(&EncodingKey::from_bytes(key));
        match before {
            None => {
                if r {
                    return Err((
                        "C05:index:remove-returns-true-for-absent-key".into(),
                        format!("{what}: remove_entry({}) = true, key was absent", hex(&key)),
                    ));
                }
            }
            Some(old) => {
                let now = self.observed(&key);
                if r {
                    if now.is_some() {
                        let k = format!("C05:index:remove-returns-true-but-key-visible{}", if full { ":update-section-full" } else { "" });
                        let m = format!(
                            "{what}: remove_entry({}) = true but lookup still returns {:?}; bucket {b} holds {} un-flushed update entries",
                            hex(&key),
                            now,
                            self.pend[(b & 15) as usize]
                        );
                        // a listed finding: the key simply stays (model keeps it), the history goes on
                        self.flags.append_on_full |= full;
                        return self.tolerate(k, m);
                    }
                    self.model.remove(&p);
                    self.flags.deleted_since_start = true;
                    self.note_append(b, p, true, true);
                } else {
                    // weaker, statement-level form: `false` must mean "nothing happened"
                    if now != Some(old) {
                        return Err((
                            "C05:index:remove-returns-false-but-state-changed".into(),
                            format!("{what}: remove_entry({}) = false, lookup now {:?} (was {:?})", hex(&key), now, old),
                        ));
                    }
                    self.note_append(b, p, false, false);
                }
            }
        }
        self.check_key(&key, what)
    }

    fn flush_bucket(&mut self, b: u8, what: &str) -> Result<(), Fail> {
        if let Err(e) = self.mgr.flush_updates_for_bucket(b) {
            return Err(("C05:index:flush-fails".into(), format!("{what}: {e}")));
        }
        self.note_flush(b);
        self.bucket_exact(b, what)
    }

    fn reload(&mut self, what: &str) -> Result<(), Fail> {
        if let Err(e) = self.mgr.save_all() {
            return Err(("C05:index:save_all-fails".into(), format!("{what}: {e}")));
        }
        let mut fresh = IndexManager::new(self.dir.path());
        if let Err(e) = self.rt.block_on(fresh.load_all()) {
            return Err(("C05:index:load_all-fails-on-own-files".into(), format!("{what}: {e}")));
        }
        self.mgr = fresh;
        if self.flags.deleted_since_start {
            self.flags.reload_after_delete = true;
        }
        if self.pend.iter().any(|&c| c > 0) {
            self.flags.reload_with_pending = true;
        }
        Ok(())
    }

    fn step(&mut self, case: &IndexCase, i: usize, op: &IOp) -> Result<(), Fail> {
        let what = format!("op#{i} {}", short(op));
        let pick = |k: u16, alt: bool| -> [u8; 16] {
            let s = &case.pool[pick_idx(k, case.pool.len())];
            let b = if s.hot { case.hot } else { s.bucket };
            full_key(&make_prefix(s.body, s.hn, b), alt)
        };
        match op {
            IOp::Add { k, alt, loc } => self.add(pick(*k, *alt), *alt, *loc, &what)?,
            IOp::Update { k, alt, loc } => self.update(pick(*k, *alt), *alt, *loc, &what)?,
            IOp::Status { k, alt, st } => self.status(pick(*k, *alt), *alt, *st, &what)?,
            IOp::Remove { k, alt } => self.remove(pick(*k, *alt), *alt, &what)?,
            IOp::FlushBucket { b } => self.flush_bucket(b.unwrap_or(case.hot) & 15, &what)?,
            IOp::FlushAll => {
                if let Err(e) = self.mgr.flush_all_updates() {
                    return Err(("C05:index:flush-fails".into(), format!("{what}: {e}")));
                }
                for b in 0..16 {
                    self.note_flush(b);
                    self.bucket_exact(b, &what)?;
                }
            }
            IOp::Reload => self.reload(&what)?,
            IOp::Save => {
                if let Err(e) = self.mgr.save_all() {
                    return Err(("C05:index:save_all-fails".into(), format!("{what}: {e}")));
                }
            }
            IOp::ClearBucket { b } => {
                let b = b.unwrap_or(case.hot) & 15;
                let doomed: Vec<[u8; 9]> = self
                    .model
                    .keys()
                    .filter(|k| {
                        let mut f = [0u8; 16];
                        f[..9].copy_from_slice(*k);
                        bucket_of(&f) == b
                    })
                    .copied()
                    .collect();
                let r = self.mgr.clear_bucket(b);
                if r < doomed.len() {
                    return Err((
                        "C05:index:clear_bucket-count-below-visible-keys".into(),
                        format!("{what}: clear_bucket({b}) = {r} but {} keys of that bucket were visible", doomed.len()),
                    ));
                }
                if !doomed.is_empty() {
                    self.flags.clear_nonempty = true;
                    self.flags.deleted_since_start = true;
                }
                for k in doomed {
                    self.model.remove(&k);
                }
                // labels
                let bi = b as usize;
                self.pend[bi] = 0;
                self.pend_tomb[bi] = false;
                let gone = |p: &[u8; 9]| {
                    let mut f = [0u8; 16];
                    f[..9].copy_from_slice(p);
                    bucket_of(&f) == b
                };
                self.pend_keys.retain(|p| !gone(p));
                self.sorted_keys.retain(|p| !gone(p));
            }
            IOp::FillSorted { n, base } => {
                let n = (*n).min(60_000);
                for j in 0..n {
                    let w = format!("{what} step {j}");
                    self.add(full_key(&seq_prefix(case.hot, *base, j), false), false, burst_loc(0x5151, j), &w)?;
                    if j % 1000 == 999 {
                        self.flush_bucket(case.hot & 15, &w)?;
                    }
                }
                self.flush_bucket(case.hot & 15, &what)?;
            }
            IOp::ClearAll => {
                if !self.model.is_empty() {
                    self.flags.clear_nonempty = true;
                    self.flags.deleted_since_start = true;
                }
                self.mgr.clear();
                self.model.clear();
                for bi in 0..16 {
                    self.pend[bi] = 0;
                    self.pend_tomb[bi] = false;
                }
                self.pend_keys.clear();
                self.sorted_keys.clear();
            }
            IOp::Burst { n, kind, k, base, seed } => {
                let n = (*n).min(1500) as u32;
                for j in 0..n {
                    let w = format!("{what} step {j}");
                    let loc = burst_loc(*seed, j);
                    match kind {
                        BurstKind::AddSame => self.add(pick(*k, false), false, loc, &w)?,
                        BurstKind::AddSeq => self.add(full_key(&seq_prefix(case.hot, *base, j), false), false, loc, &w)?,
                        BurstKind::UpdateSame => self.update(pick(*k, false), false, loc, &w)?,
                        BurstKind::UpdateSeq => self.update(full_key(&seq_prefix(case.hot, *base, j), j % 5 == 4), j % 5 == 4, loc, &w)?,
                        BurstKind::StatusSame(st) => self.status(pick(*k, false), false, *st, &w)?,
                        BurstKind::AddRemove => {
                            if j % 2 == 0 {
                                self.add(pick(*k, false), false, loc, &w)?
                            } else {
                                self.remove(pick(*k, true), true, &w)?
                            }
                        }
                        BurstKind::RemoveSeq => self.remove(full_key(&seq_prefix(case.hot, *base, j), false), false, &w)?,
                    }
                }
            }
        }
        self.check_all(&what)
    }
}

fn short(op: &IOp) -> String {
    match op {
        IOp::Add { .. } => "add_entry".into(),
        IOp::Update { .. } => "update_entry".into(),
        IOp::Status { st, .. } => format!("update_entry_status({:?})", status_of(*st)),
        IOp::Remove { .. } => "remove_entry".into(),
        IOp::FlushBucket { .. } => "flush_updates_for_bucket".into(),
        IOp::FlushAll => "flush_all_updates".into(),
        IOp::Reload => "save_all+load_all".into(),
        IOp::Save => "save_all".into(),
        IOp::ClearBucket { .. } => "clear_bucket".into(),
        IOp::ClearAll => "clear".into(),
        IOp::FillSorted { n, .. } => format!("fill_sorted({n})"),
        IOp::Burst { n, kind, .. } => format!("burst({n} x {kind:?})"),
    }
}

pub fn check(case: &IndexCase, known: &Known, tolerate_inside: bool) -> Verdict {
    if case.pool.is_empty() {
        return Verdict::pass();
    }
    let mut run = Run::new(known, tolerate_inside);
    for (i, op) in case.ops.iter().enumerate() {
        if let Err((k, m)) = run.step(case, i, op) {
            return Verdict::fail(k, m);
        }
    }
    let f = &run.flags;
    let mut v = Verdict::pass()
        .nontrivial(f.append_on_full || f.reload_after_delete)
        .class_if(f.filled, "update-section-filled(1260)")
        .class_if(f.append_on_full, "append-attempted-on-full-section")
        .class_if(f.refused_full, "update/status-refused-on-full-section")
        .class_if(f.reload_after_delete, "reload-after-delete")
        .class_if(f.reload_with_pending, "reload-with-pending-updates")
        .class_if(f.flush_with_tombstone, "flush-merges-tombstone")
        .class_if(f.flush_overlapping_sorted, "flush-update-overrides-sorted-entry")
        .class_if(f.shared_prefix_pair, "two-keys-sharing-9-byte-prefix")
        .class_if(f.id_limit, "archive-id-1023")
        .class_if(f.off_limit, "offset-2^30-1")
        .class_if(f.clear_nonempty, "clear_bucket-nonempty")
        .class_if(f.big_sorted, "sorted-section>1500-keys")
        .class_if(!run.known_hits.is_empty(), "known-finding-tolerated");
    v.known_hits = run.known_hits.clone();
    v
}
