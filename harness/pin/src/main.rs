fn main() {}
