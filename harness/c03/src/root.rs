//! (4) Root manifest V1-V4: RootBuilder -> bytes -> RootFile::parse, then
//! resolve_by_id / resolve_by_hash / resolve_by_path / get_entries_by_* against a
//! multimap model filtered by the documented locale/content predicate and
//! against a linear scan of the parsed blocks.

use cascette_crypto::{ContentKey, FileDataId};
use cascette_formats::root::{ContentFlags, LocaleFlags, RootBuilder, RootFile, RootVersion};
use serde::{Deserialize, Serialize};
use std::collections::{BTreeMap, BTreeSet};
use vh_engine::Verdict;
use vh_engine::util::Rng;

/// Classic 12-byte V2 header `TSFM total named` is re-read as an extended header when
/// total is in 16..100 and named < 10 (RootHeader::read), and as V2/V3/V4 by
/// RootVersion::detect when additionally named is in 1..=4.
pub const K_V2BAND: &str = "C03:root:v2-classic-header-read-as-extended-header:total-16..=99-and-named<10";

pub const NO_NAME_HASH: u64 = 0x1000_0000;

#[derive(Debug, Clone, Serialize, Deserialize)]
pub struct BlockSpec {
    pub locale: u32,
    pub content: u64,
    pub named: bool,
}

#[derive(Debug, Clone, Serialize, Deserialize)]
pub struct RootCase {
    /// 1..=4
    pub version: u8,
    pub blocks: Vec<BlockSpec>,
    pub n_files: usize,
    /// chance (percent) that a file also appears in each further block (other locale/content)
    pub spread_pct: u8,
    /// 0 = dense ids from a small base, 1 = sparse random ids, 2 = as 1 plus 0 and u32::MAX
    pub fdid_style: u8,
    /// named records carry an explicit random hash (add_file_with_hash) instead of a path
    pub explicit_hash: bool,
    /// paths are generated already upper-cased with back-slashes
    pub normalized_paths: bool,
    /// Some(k): exact control of the header's named count — the first k files go to named
    /// blocks only, all later files to unnamed blocks only (needs both kinds; no spreading)
    #[serde(default)]
    pub named_first: Option<u16>,
    /// V2-V4: blocks of unnamed records do NOT carry the NO_NAME_HASH flag (a caller passes plain
    /// content flags and no path); what comes back as their name hash is not prescribed and not
    /// compared, the records and everything behind them in the file are
    #[serde(default)]
    pub unnamed_flag_clear: bool,
    pub seed: u64,
}

#[derive(Debug, Clone, PartialEq, Eq)]
pub struct Rec {
    pub fdid: u32,
    pub ckey: [u8; 16],
    pub hash: Option<u64>,
}

#[derive(Debug, Clone)]
pub struct FileM {
    pub fdid: u32,
    pub path: String,
    pub hash: u64,
    /// appears in at least one named block
    pub named_somewhere: bool,
}

pub struct RootModel {
    /// (locale, content) -> records sorted by fdid
    pub blocks: BTreeMap<(u32, u64), Vec<Rec>>,
    pub files: Vec<FileM>,
    pub total: usize,
    pub named: usize,
    pub version: RootVersion,
}

/// Name hash as documented for root files: Jenkins lookup3 hashlittle2 over the
/// upper-cased, back-slashed path, (pc << 32) | pb — computed with the reference lookup3.
pub fn ref_name_hash(path: &str) -> u64 {
    let norm: Vec<u8> = path.bytes().map(|b| if b == b'/' { b'\\' } else { b.to_ascii_uppercase() }).collect();
    let (c, b) = vh_engine::refimpl::lookup3::hashlittle2(&norm, 0, 0);
    ((c as u64) << 32) | b as u64
}

pub fn raw_hash(path: &str) -> u64 {
    let (c, b) = vh_engine::refimpl::lookup3::hashlittle2(path.as_bytes(), 0, 0);
    ((c as u64) << 32) | b as u64
}

pub fn normalize(path: &str) -> String {
    path.chars().map(|ch| if ch == '/' { '\\' } else { ch.to_ascii_uppercase() }).collect()
}

fn version_of(v: u8) -> RootVersion {
    match v {
        1 => RootVersion::V1,
        2 => RootVersion::V2,
        3 => RootVersion::V3,
        _ => RootVersion::V4,
    }
}

const DIRS: [&str; 5] = ["Interface/Icons", "World/Maps/Azeroth", "Sound/Music", "DBFilesClient", "interface/FrameXML"];
const EXTS: [&str; 4] = ["blp", "M2", "db2", "Ogg"];

/// Effective, de-duplicated block list for a case.
pub fn effective_blocks(c: &RootCase) -> Vec<(u32, u64, bool)> {
    let v1 = c.version <= 1;
    let mask: u64 = if c.version >= 4 { 0xFF_FFFF_FFFF } else { 0xFFFF_FFFF };
    let mut out: Vec<(u32, u64, bool)> = Vec::new();
    for b in &c.blocks {
        let named = b.named || v1;
        let mut content = b.content & mask & !NO_NAME_HASH;
        if !named && !c.unnamed_flag_clear {
            content |= NO_NAME_HASH;
        }
        if !out.iter().any(|x| x.0 == b.locale && x.1 == content) {
            out.push((b.locale, content, named));
        }
    }
    if out.is_empty() {
        out.push((LocaleFlags::ENUS, ContentFlags::INSTALL, true));
    }
    out
}

pub fn build(c: &RootCase) -> (Result<Vec<u8>, String>, RootModel) {
    let mut r = Rng::new(c.seed ^ 0x726f_6f74);
    let version = version_of(c.version);
    let blocks = effective_blocks(c);
    let nb = blocks.len();
    // distinct file ids
    let mut ids: BTreeSet<u32> = BTreeSet::new();
    let base = if c.fdid_style == 0 { r.below(1000) as u32 } else { 0 };
    if c.fdid_style == 2 && c.n_files >= 2 {
        ids.insert(0);
        ids.insert(u32::MAX);
    }
    let mut next = base;
    while ids.len() < c.n_files {
        match c.fdid_style {
            0 => {
                ids.insert(next);
                next += 1 + (r.below(4) == 0) as u32 * r.below(5) as u32;
            }
            _ => {
                // clusters so that id+-1 neighbours are sometimes present, sometimes not
                let a = r.next_u64() as u32;
                for d in 0..(1 + r.below(3) as u32) {
                    if ids.len() < c.n_files {
                        ids.insert(a.wrapping_add(d));
                    }
                }
            }
        }
    }
    let mut order: Vec<u32> = ids.into_iter().collect();
    for i in (1..order.len()).rev() {
        order.swap(i, r.below(i as u64 + 1) as usize);
    }
    // One case in four creates the builder for another version and settles the real one with
    // `set_version` just before `build` (decided by the case's seed, so that a replay repeats it)
    let created_as = if c.seed % 4 == 1 { version_of(((c.seed >> 8) % 4 + 1) as u8) } else { version };
    let mut b = RootBuilder::new(created_as);
    let mut model = RootModel { blocks: BTreeMap::new(), files: Vec::new(), total: 0, named: 0, version };
    for (i, fdid) in order.iter().enumerate() {
        let mut path = format!("{}/File_{i}_{:x}.{}", DIRS[r.below(DIRS.len() as u64) as usize], r.below(0xFFFF), EXTS[r.below(EXTS.len() as u64) as usize]);
        if c.normalized_paths {
            path = normalize(&path);
        }
        let hash = if c.explicit_hash {
            match r.below(16) {
                0 => u64::MAX,
                _ => r.next_u64() | 1, // never 0: 0 is what the writer emits for "no hash"
            }
        } else {
            ref_name_hash(&path)
        };
        let mut primary = r.below(nb as u64) as usize;
        let mut spread = c.spread_pct as u64;
        if let Some(k) = c.named_first {
            let want_named = i < k as usize;
            let pool: Vec<usize> = (0..nb).filter(|b| blocks[*b].2 == want_named).collect();
            if !pool.is_empty() {
                primary = pool[r.below(pool.len() as u64) as usize];
                spread = 0;
            }
        }
        let mut named_somewhere = false;
        for (bi, (loc, con, named)) in blocks.iter().enumerate() {
            if bi != primary && r.below(100) >= spread {
                continue;
            }
            let ckey: [u8; 16] = match r.below(24) {
                0 => [0u8; 16],
                1 => [0xFF; 16],
                _ => {
                    let mut a = [0u8; 16];
                    a.copy_from_slice(&r.bytes(16));
                    a
                }
            };
            let l = LocaleFlags::new(*loc);
            let cf = ContentFlags::new(*con);
            let h = if *named {
                named_somewhere = true;
                if c.explicit_hash {
                    b.add_file_with_hash(FileDataId::new(*fdid), ContentKey::from_bytes(ckey), Some(hash), l, cf);
                } else {
                    b.add_file(FileDataId::new(*fdid), ContentKey::from_bytes(ckey), Some(&path), l, cf);
                }
                model.named += 1;
                Some(hash)
            } else {
                b.add_file(FileDataId::new(*fdid), ContentKey::from_bytes(ckey), None, l, cf);
                None
            };
            model.total += 1;
            model.blocks.entry((*loc, *con)).or_default().push(Rec { fdid: *fdid, ckey, hash: h });
        }
        model.files.push(FileM { fdid: *fdid, path, hash, named_somewhere });
    }
    for v in model.blocks.values_mut() {
        v.sort_by_key(|r| r.fdid);
    }
    if created_as != version {
        b.set_version(version);
    }
    (b.build().map_err(|e| e.to_string()), model)
}

pub fn in_v2_band(m: &RootModel) -> bool {
    m.version == RootVersion::V2 && (16..100).contains(&m.total) && m.named < 10
}

fn matches(bl: u32, bc: u64, lq: u32, cq: u64) -> bool {
    // documented predicate: any requested locale bit present, all requested content bits present
    (bl & lq) != 0 && (bc & cq) == cq
}

macro_rules! bail {
    ($k:expr, $($a:tt)*) => { return Verdict::fail($k, format!($($a)*)) };
}

pub fn check(c: &RootCase) -> Verdict {
    let (built, model) = build(c);
    let band = in_v2_band(&model);
    let key = |k: &'static str| if band { K_V2BAND } else { k };
    let how = format!("V{} total={} named={} blocks={}", c.version.clamp(1, 4), model.total, model.named, model.blocks.len());
    let bytes = match built {
        Ok(b) => b,
        Err(e) => {
            if model.total == 0 {
                return Verdict::pass().class("empty-refused-by-builder");
            }
            bail!("C03:root:builder-refused-valid-input", "{how}: {e}");
        }
    };
    let parsed = match RootFile::parse(&bytes) {
        Ok(p) => p,
        Err(e) => bail!(key("C03:root:built-file-does-not-parse"), "{how}: {e}"),
    };
    // ---- linear scan of parsed blocks == inserted records (block order not prescribed)
    let mut scan: BTreeMap<(u32, u64), Vec<Rec>> = BTreeMap::new();
    for b in &parsed.blocks {
        let e = scan.entry((b.locale_flags().value(), b.content_flags().value)).or_default();
        for r in &b.records {
            e.push(Rec { fdid: r.file_data_id.get(), ckey: *r.content_key.as_bytes(), hash: r.name_hash });
        }
    }
    for v in scan.values_mut() {
        v.sort_by_key(|r| r.fdid);
    }
    if c.unnamed_flag_clear {
        // blocks whose records were inserted without a name: the hash column is not compared
        for (k, recs) in &model.blocks {
            if recs.iter().all(|r| r.hash.is_none()) {
                if let Some(v) = scan.get_mut(k) {
                    for r in v {
                        r.hash = None;
                    }
                }
            }
        }
    }
    if scan != model.blocks {
        let nrec: usize = scan.values().map(Vec::len).sum();
        bail!(key("C03:root:parsed-records-differ-from-inserted"), "{how}: parsed version {:?}, {} blocks, {} records", parsed.version, parsed.blocks.len(), nrec);
    }
    // ---- queries
    let mut queries: Vec<(u32, u64)> = model.blocks.keys().copied().collect();
    queries.extend([
        (LocaleFlags::ALL, 0),
        (LocaleFlags::ENUS, 0),
        (LocaleFlags::DEDE, 0),
        (LocaleFlags::FRFR, 0),
        (LocaleFlags::ALL, ContentFlags::INSTALL),
        (LocaleFlags::ALL, NO_NAME_HASH),
        (0, 0),
    ]);
    if c.version >= 4 {
        queries.push((LocaleFlags::ALL, 1u64 << 32));
    }
    // first match in a linear scan of the parsed blocks, and the set the model allows
    let scan_id = |fdid: u32, lq: u32, cq: u64| -> Option<[u8; 16]> {
        for b in &parsed.blocks {
            if !matches(b.locale_flags().value(), b.content_flags().value, lq, cq) {
                continue;
            }
            if let Some(r) = b.records.iter().find(|r| r.file_data_id.get() == fdid) {
                return Some(*r.content_key.as_bytes());
            }
        }
        None
    };
    let scan_hash = |h: u64, lq: u32, cq: u64| -> Option<[u8; 16]> {
        for b in &parsed.blocks {
            if !matches(b.locale_flags().value(), b.content_flags().value, lq, cq) {
                continue;
            }
            if let Some(r) = b.records.iter().find(|r| r.name_hash == Some(h)) {
                return Some(*r.content_key.as_bytes());
            }
        }
        None
    };
    let model_id = |fdid: u32, lq: u32, cq: u64| -> Vec<[u8; 16]> {
        model.blocks.iter().filter(|((l, cf), _)| matches(*l, *cf, lq, cq)).flat_map(|(_, v)| v.iter().filter(|r| r.fdid == fdid).map(|r| r.ckey)).collect()
    };
    let model_hash = |h: u64, lq: u32, cq: u64| -> Vec<[u8; 16]> {
        model.blocks.iter().filter(|((l, cf), _)| matches(*l, *cf, lq, cq)).flat_map(|(_, v)| v.iter().filter(|r| r.hash == Some(h)).map(|r| r.ckey)).collect()
    };
    let mut multi_block_hits = 0usize;
    let mut filtered_out = 0usize;
    for f in &model.files {
        let n_blocks_with = model.blocks.values().filter(|v| v.iter().any(|r| r.fdid == f.fdid)).count();
        let got_n = parsed.get_entries_by_id(FileDataId::new(f.fdid)).map_or(0, Vec::len);
        if got_n != n_blocks_with {
            bail!(key("C03:root:get_entries_by_id-count-differs"), "{how}: fdid {} inserted into {n_blocks_with} blocks, lookup table has {got_n}", f.fdid);
        }
        for &(lq, cq) in &queries {
            let got = parsed.resolve_by_id(FileDataId::new(f.fdid), LocaleFlags::new(lq), ContentFlags::new(cq)).map(|k| *k.as_bytes());
            let allowed = model_id(f.fdid, lq, cq);
            if allowed.len() > 1 {
                multi_block_hits += 1;
            }
            if allowed.is_empty() && n_blocks_with > 0 {
                filtered_out += 1;
            }
            let ok_model = match got {
                None => allowed.is_empty(),
                Some(g) => allowed.contains(&g),
            };
            if !ok_model {
                bail!(key("C03:root:resolve_by_id-differs-from-inserted"), "{how}: fdid {} locale {lq:#x} content {cq:#x} -> {:?}; inserted matching: {}", f.fdid, got.map(|g| crate::keys::hex(&g)), allowed.len());
            }
            if got != scan_id(f.fdid, lq, cq) {
                bail!(key("C03:root:resolve_by_id-differs-from-linear-scan"), "{how}: fdid {} locale {lq:#x} content {cq:#x}", f.fdid);
            }
            // by hash / by path
            let got_h = parsed.resolve_by_hash(f.hash, LocaleFlags::new(lq), ContentFlags::new(cq)).map(|k| *k.as_bytes());
            let allowed_h = model_hash(f.hash, lq, cq);
            let ok_h = match got_h {
                None => allowed_h.is_empty(),
                Some(g) => allowed_h.contains(&g),
            };
            if !ok_h {
                bail!(key("C03:root:resolve_by_hash-differs-from-inserted"), "{how}: hash {:#x} locale {lq:#x} content {cq:#x} -> {:?}; inserted matching: {}", f.hash, got_h.map(|g| crate::keys::hex(&g)), allowed_h.len());
            }
            if got_h != scan_hash(f.hash, lq, cq) {
                bail!(key("C03:root:resolve_by_hash-differs-from-linear-scan"), "{how}: hash {:#x} locale {lq:#x} content {cq:#x}", f.hash);
            }
            if !c.explicit_hash {
                // resolve_by_path is documented to normalise (upper-case, back-slashes): the
                // inserted spelling and the normalised spelling are the same key.
                for p in [f.path.clone(), normalize(&f.path)] {
                    let got_p = parsed.resolve_by_path(&p, LocaleFlags::new(lq), ContentFlags::new(cq)).map(|k| *k.as_bytes());
                    if got_p != got_h {
                        bail!(key("C03:root:resolve_by_path-differs-from-resolve_by_hash"), "{how}: path {p:?} locale {lq:#x} content {cq:#x} -> {:?}, by hash {:?}", got_p.is_some(), got_h.is_some());
                    }
                }
            }
        }
    }
    // ---- negative probes: id+-1, hash^1, path variations
    let ids: BTreeSet<u32> = model.files.iter().map(|f| f.fdid).collect();
    let hashes: BTreeSet<u64> = model.files.iter().filter(|f| f.named_somewhere).map(|f| f.hash).collect();
    let mut neg = 0usize;
    for f in &model.files {
        for p in [f.fdid.checked_add(1), f.fdid.checked_sub(1)].into_iter().flatten() {
            if ids.contains(&p) {
                continue;
            }
            neg += 1;
            if let Some(k) = parsed.resolve_by_id(FileDataId::new(p), LocaleFlags::new(LocaleFlags::ALL), ContentFlags::new(0)) {
                bail!("C03:root:resolve_by_id-finds-id-never-inserted", "{how}: fdid {p} -> {}", crate::keys::hex(k.as_bytes()));
            }
            if parsed.get_entries_by_id(FileDataId::new(p)).is_some_and(|v| !v.is_empty()) {
                bail!("C03:root:get_entries_by_id-finds-id-never-inserted", "{how}: fdid {p}");
            }
        }
        for h in [f.hash ^ 1, f.hash.wrapping_add(1)] {
            if hashes.contains(&h) {
                continue;
            }
            // unnamed records in a block whose flags announce name hashes are stored with hash 0
            if c.unnamed_flag_clear && h == 0 {
                continue;
            }
            if parsed.resolve_by_hash(h, LocaleFlags::new(LocaleFlags::ALL), ContentFlags::new(0)).is_some() {
                bail!("C03:root:resolve_by_hash-finds-hash-never-inserted", "{how}: hash {h:#x}");
            }
        }
        if !c.explicit_hash {
            let p = format!("{}x", f.path);
            if !hashes.contains(&ref_name_hash(&p)) && parsed.resolve_by_path(&p, LocaleFlags::new(LocaleFlags::ALL), ContentFlags::new(0)).is_some() {
                bail!("C03:root:resolve_by_path-finds-path-never-inserted", "{how}: path {p:?}");
            }
        }
    }
    let any_unnamed = model.blocks.keys().any(|(_, cf)| cf & NO_NAME_HASH != 0);
    Verdict::pass()
        .nontrivial((model.blocks.len() >= 2 || band) && neg >= 1)
        .class_if(band, "v2-ambiguity-band-correct")
        .class_if((16..100).contains(&model.total), "total-16..99")
        .class_if(model.total < 16 && model.total > 0, "total<16")
        .class_if(model.total >= 100, "total>=100")
        .class_if(model.blocks.len() >= 2, "blocks>=2")
        .class_if(any_unnamed, "has-unnamed-block")
        .class_if(model.named == 0, "no-named-files")
        .class_if(multi_block_hits > 0, "query-matches-several-blocks")
        .class_if(filtered_out > 0, "query-filters-out-present-file")
        .class_if(c.version == 1, "V1")
        .class_if(c.version == 2, "V2")
        .class_if(c.version == 3, "V3")
        .class_if(c.version >= 4, "V4")
        .class_if(c.version >= 4 && model.blocks.keys().any(|(_, cf)| cf >> 32 != 0), "V4-40bit-content-flags")
        .class_if(c.explicit_hash, "explicit-hash")
        .class_if(ids.contains(&0) && ids.contains(&u32::MAX), "fdid-extremes")
}
