//! Key-set generation shared by the keyed structures (encoding table, archive
//! index, archive group): a case stores `(count, style, seed)` and the key set is
//! re-derived deterministically, so replay files stay small.

use serde::{Deserialize, Serialize};
use std::collections::BTreeSet;
use vh_engine::util::Rng;

/// How the key set is laid out in key space.
#[derive(Debug, Clone, Serialize, Deserialize)]
pub struct KeySpec {
    /// number of distinct keys (clamped to the capacity of the key length)
    pub count: usize,
    /// 0 = uniformly random, 1 = a few long shared prefixes, 2 = dense runs of
    /// consecutive big-endian integers (incl. carries), 3 = mixture
    pub style: u8,
    /// shared prefix length for style 1/3 (clamped to key_len-1)
    pub prefix_len: u8,
    /// include the all-0x00 and the all-0xFF key
    pub extremes: bool,
    pub seed: u64,
}

pub fn capacity(key_len: usize) -> usize {
    if key_len >= 3 { usize::MAX } else { 1usize << (8 * key_len) }
}

/// key + 1 as a big-endian integer (None on overflow)
pub fn succ(k: &[u8]) -> Option<Vec<u8>> {
    let mut v = k.to_vec();
    for i in (0..v.len()).rev() {
        if v[i] == 0xFF {
            v[i] = 0;
        } else {
            v[i] += 1;
            return Some(v);
        }
    }
    None
}

/// key - 1 as a big-endian integer (None on underflow)
pub fn pred(k: &[u8]) -> Option<Vec<u8>> {
    let mut v = k.to_vec();
    for i in (0..v.len()).rev() {
        if v[i] == 0 {
            v[i] = 0xFF;
        } else {
            v[i] -= 1;
            return Some(v);
        }
    }
    None
}

/// Distinct keys of `key_len` bytes in a deterministic shuffled (insertion) order.
pub fn gen_keys(spec: &KeySpec, key_len: usize) -> Vec<Vec<u8>> {
    let want = spec.count.min(capacity(key_len));
    let mut r = Rng::new(spec.seed ^ 0x6b65_7973);
    let mut set: BTreeSet<Vec<u8>> = BTreeSet::new();
    let mut order: Vec<Vec<u8>> = Vec::with_capacity(want);
    let push = |k: Vec<u8>, set: &mut BTreeSet<Vec<u8>>, order: &mut Vec<Vec<u8>>| {
        if order.len() < want && set.insert(k.clone()) {
            order.push(k);
        }
    };
    if spec.extremes {
        push(vec![0u8; key_len], &mut set, &mut order);
        push(vec![0xFFu8; key_len], &mut set, &mut order);
    }
    let plen = (spec.prefix_len as usize).min(key_len.saturating_sub(1));
    let n_prefix = 1 + r.below(3) as usize;
    let prefixes: Vec<Vec<u8>> = (0..n_prefix)
        .map(|i| {
            let mut p = r.bytes(plen);
            // one prefix made of 0xFF bytes so that carries/ordering at the top are exercised
            if i == 1 {
                p.iter_mut().for_each(|b| *b = 0xFF);
            }
            p
        })
        .collect();
    let mut guard = 0usize;
    while order.len() < want && guard < want * 64 + 4096 {
        guard += 1;
        let style = if spec.style == 3 { r.below(3) as u8 } else { spec.style };
        match style {
            1 if plen > 0 => {
                let p = &prefixes[r.below(prefixes.len() as u64) as usize];
                let mut k = p.clone();
                // the suffix is short on entropy on purpose: neighbours differ in the last byte(s)
                let mut tail = r.bytes(key_len - plen);
                if r.below(2) == 0 {
                    for b in tail.iter_mut().take(key_len - plen - 1) {
                        *b = 0;
                    }
                }
                k.extend_from_slice(&tail);
                push(k, &mut set, &mut order);
            }
            2 => {
                // run of consecutive integers; start just below a carry half of the time
                let mut k = r.bytes(key_len);
                if r.below(2) == 0 {
                    let l = k.len();
                    k[l - 1] = 0xF0 + r.below(16) as u8;
                    if l >= 2 && r.below(2) == 0 {
                        k[l - 2] = 0xFF;
                    }
                }
                let run = 1 + r.below(48) as usize;
                let mut cur = Some(k);
                for _ in 0..run {
                    let Some(c) = cur else { break };
                    push(c.clone(), &mut set, &mut order);
                    cur = succ(&c);
                }
            }
            _ => push(r.bytes(key_len), &mut set, &mut order),
        }
    }
    // small key spaces: fill by enumeration if rejection sampling starved
    if order.len() < want {
        let mut k = Some(vec![0u8; key_len]);
        while let Some(c) = k {
            if order.len() >= want {
                break;
            }
            push(c.clone(), &mut set, &mut order);
            k = succ(&c);
        }
    }
    // deterministic shuffle (insertion order must not be sorted: builders have to sort)
    for i in (1..order.len()).rev() {
        let j = r.below(i as u64 + 1) as usize;
        order.swap(i, j);
    }
    order
}

pub struct Probes {
    /// keys that are NOT in the set
    pub absent: Vec<Vec<u8>>,
    /// how many of them are key±1 neighbours of a present key
    pub neighbours: usize,
}

/// Negative probes: key±1 of every present key, single-byte variations in the
/// first/last byte, the extreme keys, and random keys — all filtered to be absent.
pub fn probes(present: &BTreeSet<Vec<u8>>, key_len: usize, seed: u64) -> Probes {
    let mut r = Rng::new(seed ^ 0x7072_6f62);
    let mut out: BTreeSet<Vec<u8>> = BTreeSet::new();
    let mut neighbours = 0usize;
    for k in present {
        for n in [succ(k), pred(k)].into_iter().flatten() {
            if !present.contains(&n) && out.insert(n) {
                neighbours += 1;
            }
        }
    }
    // variations of a sample: flip first byte / last byte (same 15-byte prefix or suffix)
    let sample: Vec<&Vec<u8>> = present.iter().collect();
    let n_var = sample.len().min(64);
    for _ in 0..n_var {
        let k = sample[r.below(sample.len() as u64) as usize];
        let mut a = k.clone();
        a[0] ^= 1 << r.below(8);
        let mut b = k.clone();
        let l = b.len();
        b[l - 1] ^= 1 << r.below(8);
        for v in [a, b] {
            if !present.contains(&v) {
                out.insert(v);
            }
        }
    }
    for v in [vec![0u8; key_len], vec![0xFFu8; key_len]] {
        if !present.contains(&v) {
            out.insert(v);
        }
    }
    for _ in 0..16 {
        let v = r.bytes(key_len);
        if !present.contains(&v) {
            out.insert(v);
        }
    }
    Probes { absent: out.into_iter().collect(), neighbours }
}

pub fn hex(b: &[u8]) -> String {
    b.iter().map(|x| format!("{x:02x}")).collect()
}

pub fn arr16(v: &[u8]) -> [u8; 16] {
    let mut a = [0u8; 16];
    a.copy_from_slice(&v[..16]);
    a
}
