//! C03 — content resolution finds exactly what was indexed.
//!
//! Six structures, each as build -> serialise -> parse -> look up, judged against a
//! map model and a linear scan of the parsed entries:
//!   (1) encoding table            enc.rs
//!   (2) CDN archive index (+ ChunkedArchiveIndex)   idx.rs
//!   (3) archive group (ArchiveGroupBuilder, build_merged)   group.rs
//!   (4) root manifest V1-V4       root.rs
//!   (5) TVFS manifest             tvfs.rs
//!   (6) ContentResolver (root + encoding)   resolver.rs
//! Every structure has a random (proptest) section and a deterministic enumeration
//! of the page/chunk/header boundaries, so the boundaries are visited on every run.

mod enc;
mod group;
mod idx;
mod keys;
mod resolver;
mod root;
mod tvfs;

use enc::EncCase;
use group::GroupCase;
use idx::IdxCase;
use keys::KeySpec;
use proptest::prelude::*;
use resolver::ResCase;
use root::{BlockSpec, RootCase};
use tvfs::TvfsCase;
use vh_engine::util::splitmix64;
use vh_engine::{Check, Section};

/// counts around multiples of a page/chunk capacity (+-1), or anything up to the maximum
fn aimed(cap: usize, max_pages: usize) -> BoxedStrategy<usize> {
    prop_oneof![
        4 => (1..=max_pages, -1i64..=1).prop_map(move |(m, d)| ((m * cap) as i64 + d).max(0) as usize),
        1 => 0..=(cap * max_pages + 1),
        1 => 0usize..=3,
    ]
    .boxed()
}

fn keyspec(count: BoxedStrategy<usize>) -> BoxedStrategy<KeySpec> {
    (count, prop_oneof![3 => Just(0u8), 2 => Just(1u8), 2 => Just(2u8), 2 => Just(3u8)], 8u8..=15, proptest::bool::weighted(0.35), any::<u64>())
        .prop_map(|(count, style, prefix_len, extremes, seed)| KeySpec { count, style, prefix_len, extremes, seed })
        .boxed()
}

fn enc_strategy(max_pages: usize) -> BoxedStrategy<EncCase> {
    (1u16..=4, 1u16..=4)
        .prop_flat_map(move |(ckb, ekb)| {
            let capc = ckb as usize * 1024 / 38;
            let cape = ekb as usize * 1024 / 25;
            let fit = ((ckb as usize * 1024 - 22) / 16).min(255) as u8;
            (
                Just(ckb),
                Just(ekb),
                keyspec(aimed(capc, max_pages)),
                keyspec(aimed(cape, max_pages)),
                prop_oneof![4 => Just(0u8), 2 => Just(1u8), 2 => Just(2u8), 1 => Just(3u8), 1 => Just(4u8), 1 => Just(5u8)],
                prop_oneof![2 => Just(fit), 2 => Just(fit.saturating_add(1)), 1 => Just(fit - 1), 1 => 1u8..=255],
                1u8..=6,
                any::<bool>(),
                proptest::bool::weighted(0.15),
                any::<u64>(),
            )
        })
        .prop_map(|(ckey_page_kb, ekey_page_kb, ckeys, ekeys, multi, big_k, n_especs, trailing, blte, seed)| EncCase {
            ckeys,
            ekeys,
            ckey_page_kb,
            ekey_page_kb,
            multi,
            big_k,
            n_especs,
            trailing,
            blte,
            seed,
        })
        .boxed()
}

fn idx_strategy(max_chunks: usize) -> BoxedStrategy<IdxCase> {
    (1u8..=16, prop_oneof![2 => Just(4u8), 1 => Just(5u8), 1 => Just(6u8)])
        .prop_flat_map(move |(k, w)| {
            let cap = idx::records_per_chunk(k, w);
            let count = if k == 1 { (0usize..=256).boxed() } else { aimed(cap, max_chunks) };
            (Just(k), Just(w), keyspec(count), any::<bool>(), any::<u64>())
        })
        .prop_map(|(key_size, offset_bytes, keys, chunked, seed)| IdxCase { key_size, offset_bytes, keys, chunked, seed })
        .boxed()
}

fn idx1644_strategy(max_chunks: usize) -> BoxedStrategy<IdxCase> {
    (keyspec(aimed(170, max_chunks)), any::<u64>())
        .prop_map(|(keys, seed)| IdxCase { key_size: 16, offset_bytes: 4, keys, chunked: true, seed })
        .boxed()
}

fn group_strategy(max_chunks: usize) -> BoxedStrategy<GroupCase> {
    (keyspec(aimed(157, max_chunks)), 0u8..=5, prop_oneof![Just(0u8), 0u8..=60], 0u8..=1, any::<u64>())
        .prop_map(|(union, n_sources, overlap_pct, via, seed)| GroupCase { union, n_sources, overlap_pct, via, seed })
        .boxed()
}

const LOCALES: [u32; 8] = [0x2, 0x20, 0x22, 0xFFFF_FFFF, 0x10, 0x16, 0, 0x8000_0000];
const CONTENTS: [u64; 8] = [0, 0x4, 0x8, 0x4000_0004, 0x0800_0000, 0x8000_0000, 0x1_0000_0004, 0xFF_0000_0004];

fn block_strategy() -> BoxedStrategy<BlockSpec> {
    (proptest::sample::select(LOCALES.to_vec()), proptest::sample::select(CONTENTS.to_vec()), proptest::bool::weighted(0.55))
        .prop_map(|(locale, content, named)| BlockSpec { locale, content, named })
        .boxed()
}

fn root_strategy() -> BoxedStrategy<RootCase> {
    (
        1u8..=4,
        proptest::collection::vec(block_strategy(), 1..=4),
        prop_oneof![3 => 0usize..=120, 2 => 16usize..=99, 1 => 100usize..=300],
        prop_oneof![2 => Just(0u8), 1 => 0u8..=60],
        0u8..=2,
        proptest::bool::weighted(0.2),
        proptest::bool::weighted(0.2),
        prop_oneof![3 => Just(None), 1 => (0u16..=12).prop_map(Some)],
        (any::<u64>(), proptest::bool::weighted(0.2)),
    )
        .prop_map(|(version, blocks, n_files, spread_pct, fdid_style, explicit_hash, normalized_paths, named_first, (seed, unnamed_flag_clear))| RootCase {
            unnamed_flag_clear,
            version,
            blocks,
            n_files,
            spread_pct,
            fdid_style,
            explicit_hash,
            normalized_paths,
            named_first,
            seed,
        })
        .boxed()
}

fn tvfs_strategy(big_weight: u32) -> BoxedStrategy<TvfsCase> {
    (
        proptest::sample::select(vec![0u32, 1, 1, 3, 5, 7, 2, 6]),
        prop_oneof![40 => 0usize..=40, 20 => 8usize..=24, 10 => 100usize..=300, big_weight => 2600usize..=3100, big_weight => 4900usize..=5200],
        1u8..=6,
        1u8..=4,
        1u8..=40,
        prop_oneof![10 => Just(0u16), 1 => proptest::sample::select(vec![254u16, 255, 256]), 1 => proptest::sample::select(vec![253u16, 300, 510, 511])],
        any::<bool>(),
        prop_oneof![3 => 0u16..=8, 1 => 12u16..=40],
        1u8..=20,
        proptest::sample::select(vec![0u8, 50, 100, 100]),
        any::<u64>(),
    )
        .prop_map(|(flags, n_files, max_depth, fanout, name_len, long_name, long_is_dir, n_est, est_len, ckey_pct, seed)| TvfsCase {
            flags,
            n_files,
            max_depth,
            fanout,
            name_len,
            long_name,
            long_is_dir,
            n_est,
            est_len,
            ckey_pct,
            seed,
        })
        .boxed()
}

fn res_strategy() -> BoxedStrategy<ResCase> {
    (
        (
            1u8..=4,
            proptest::collection::vec(block_strategy(), 1..=3),
            prop_oneof![3 => 1usize..=60, 1 => 60usize..=200],
            prop_oneof![1 => Just(0u8), 1 => 0u8..=60],
            0u8..=2,
            proptest::bool::weighted(0.1),
            proptest::bool::weighted(0.3),
            any::<u64>(),
        ),
        proptest::sample::select(vec![0u8, 50, 90, 100, 100]),
        prop_oneof![2 => 0usize..=20, 1 => 100usize..=260],
        1u16..=4,
        any::<u64>(),
    )
        .prop_map(|((version, blocks, n_files, spread_pct, fdid_style, explicit_hash, normalized_paths, rseed), in_encoding_pct, extra_ckeys, page_kb, seed)| {
            let mut root = RootCase { version, blocks, n_files, spread_pct, fdid_style, explicit_hash, normalized_paths, named_first: None, unnamed_flag_clear: false, seed: rseed };
            // construct around the V2 header band (it is decided by the root sections)
            if root::in_v2_band(&root::build(&root).1) {
                root.version = 3;
            }
            ResCase { root, in_encoding_pct, extra_ckeys, page_kb, seed }
        })
        .boxed()
}

fn ks(count: usize, style: u8, extremes: bool, seed: u64) -> KeySpec {
    KeySpec { count, style, prefix_len: 8 + (seed % 8) as u8, extremes, seed }
}

fn main() {
    let mut ck = Check::from_args("C03", "exploration");
    let tier = ck.tier;
    let seed = ck.seed;
    let known = ck.known().clone();
    ck.extra(
        "rule",
        "each case = one structure built through the repo's builder from (count, layout, content_seed), serialised, parsed, and every inserted key plus key+-1 / \
         byte-flip / random / extreme-key negatives looked up through every lookup flavour and compared with a map model and a linear scan. non-trivial = \
         keyed structures: >=2 pages/chunks and >=1 absent key+-1 neighbour probed; root: >=2 blocks or V2 header band, and >=1 absent id probed; \
         TVFS: depth>=3, >=2 files, >=1 absent path probed; resolver: >=2 blocks, >=1 complete path/id->ckey->ekey resolution, >=1 negative. distinct by case hash"
            .into(),
    );
    ck.extra(
        "domain_exclusions",
        serde_json::json!({
            "never_generated": [
                "archive-index/group record with all-zero key AND size 0 AND offset 0 (IndexEntry::is_zero padding record): all-zero keys get size>=1",
                "zero encoding keys per content key; duplicate keys within one build; keys whose length differs from the configured key size",
                "sizes above 40 bit (encoding) / offsets above the configured offset width (archive index)",
                "root: name-hash presence inconsistent with the block's NO_NAME_HASH flag; V1 blocks without names; content flags above 32 bit (V1-V3) / 40 bit (V4)",
                "TVFS: a path that is both file and directory, empty components, '/' inside a component, duplicate paths"
            ],
            "counted_as_classes": [
                "excluded-ekey-sentinel: all-zero encoding key that would carry ESpec index 0 (only one ESpec in the table) is dropped",
                "excluded-empty-table: encoding table with no CKey or no EKey entries (header validation rejects zero page counts)",
                "empty-refused-by-builder: root with no records (RootBuilder::build documents the error)"
            ]
        }),
    );
    ck.assume("vh_engine::refimpl lookup3 and md5 are correct (pinned by published vectors in vh-selftest); they provide the name hash and hash-assigned archive index expectations");
    ck.assume("root lookups with several matching blocks: any inserted matching value is accepted against the model; equality is required only against the linear scan of the parsed blocks");
    ck.assume("TVFS content keys are compared on the 9 bytes the format stores (pkey_size); est_index of files added without one is 0 as written");

    let q = |quick: u64, thorough: u64| tier.pick(quick, thorough);
    let maxp = tier.pick(3usize, 6usize);

    // ------------------------------------------------------------------ (1) encoding
    ck.run(
        Section::enumerate(
            "encoding-page-boundaries",
            "EncodingBuilder: page sizes 1..=4 KiB x (1..=3 pages x {-1,0,+1} entries) for CKey pages (1 ekey each) and EKey pages, 3 key styles; a first CKey page filled exactly to its last byte followed by 0/1/cap/cap+1 entries; one entry of fit-1 / fit / fit+1 encoding keys per page size",
            move || {
                let mut v: Vec<EncCase> = Vec::new();
                for kb in 1u16..=4 {
                    let capc = kb as usize * 1024 / 38;
                    let cape = kb as usize * 1024 / 25;
                    for m in 1usize..=3 {
                        for d in [-1i64, 0, 1] {
                            for style in [0u8, 1, 2] {
                                let s = splitmix64(seed ^ (kb as u64) << 40 ^ (m as u64) << 32 ^ ((d + 1) as u64) << 24 ^ style as u64);
                                v.push(EncCase {
                                    ckeys: ks(((m * capc) as i64 + d) as usize, style, style == 1, s),
                                    ekeys: ks(((m * cape) as i64 + d) as usize, style, style == 2, s ^ 1),
                                    ckey_page_kb: kb,
                                    ekey_page_kb: kb,
                                    multi: 0,
                                    big_k: 1,
                                    n_especs: 1 + (s % 5) as u8,
                                    trailing: s & 8 != 0,
                                    blte: false,
                                    seed: s ^ 2,
                                });
                            }
                        }
                    }
                    for n in [8usize, 9, 8 + capc, 9 + capc] {
                        let s = splitmix64(seed ^ 0xf011 ^ (kb as u64) << 16 ^ n as u64);
                        v.push(EncCase { ckeys: ks(n, (n % 3) as u8, n % 2 == 0, s), ekeys: ks(5, 0, false, s ^ 1), ckey_page_kb: kb, ekey_page_kb: 1, multi: 5, big_k: 1, n_especs: 2, trailing: false, blte: false, seed: s ^ 2 });
                    }
                    let fit = ((kb as usize * 1024 - 22) / 16).min(255);
                    for k in [fit - 1, fit, fit + 1] {
                        if k > 255 {
                            continue;
                        }
                        let s = splitmix64(seed ^ 0xb16 ^ (kb as u64) << 16 ^ k as u64);
                        v.push(EncCase { ckeys: ks(40, 0, false, s), ekeys: ks(10, 0, false, s ^ 1), ckey_page_kb: kb, ekey_page_kb: 4, multi: 4, big_k: k as u8, n_especs: 2, trailing: false, blte: false, seed: s ^ 2 });
                    }
                }
                Box::new(v.into_iter())
            },
            enc::check,
        )
        .shards(12),
    );
    ck.run(Section::pbt("encoding-random", q(2_000, 200_000), move || enc_strategy(maxp), enc::check).shards(16).shrink_iters(300));

    // ------------------------------------------------------------------ (2) archive index
    ck.run(
        Section::enumerate(
            "archive-index-chunk-boundaries",
            "ArchiveIndexBuilder::with_config: key size 1..=16 x offset width {4,5,6} x entry counts {cap-1, cap, cap+1, 2cap, 2cap+1, 3cap+1} (cap = 4096/(k+4+w); key size 1 capped at 256 keys), ChunkedArchiveIndex on 16/4/4",
            move || {
                let mut v: Vec<IdxCase> = Vec::new();
                for k in 1u8..=16 {
                    for w in [4u8, 5, 6] {
                        let cap = idx::records_per_chunk(k, w);
                        for (i, n) in [cap - 1, cap, cap + 1, 2 * cap, 2 * cap + 1, 3 * cap + 1].into_iter().enumerate() {
                            let s = splitmix64(seed ^ 0x1d ^ (k as u64) << 32 ^ (w as u64) << 24 ^ i as u64);
                            v.push(IdxCase { key_size: k, offset_bytes: w, keys: ks(n, (i % 4) as u8, i % 2 == 0, s), chunked: true, seed: s ^ 1 });
                        }
                    }
                }
                Box::new(v.into_iter())
            },
            idx::check,
        )
        .shards(16),
    );
    ck.run(
        Section::enumerate(
            "archive-index-duplicate-keys",
            "key size {1,2,9,16} x offset width {4,5,6} x distinct keys {cap-1, cap+1, 2cap+3}: a run of 4 equal keys placed across the first chunk boundary plus two more runs; find_all_entries / find_all_key_matches / find_entry against the linear scan",
            move || {
                let mut v = Vec::new();
                for k in [1u8, 2, 9, 16] {
                    for w in [4u8, 5, 6] {
                        let cap = idx::records_per_chunk(k, w);
                        for (i, n) in [cap - 1, cap + 1, 2 * cap + 3].into_iter().enumerate() {
                            let s = splitmix64(seed ^ 0xd0b ^ (k as u64) << 32 ^ (w as u64) << 24 ^ i as u64);
                            v.push(idx::DupCase { key_size: k, offset_bytes: w, n, runs: vec![(s as u16, 3), ((s >> 16) as u16, 1)], straddle: true, seed: s });
                        }
                    }
                }
                Box::new(v.into_iter())
            },
            idx::check_dups,
        )
        .shards(16),
    );
    ck.run(
        Section::pbt(
            "archive-index-duplicate-keys-random",
            q(600, 60_000),
            || {
                (proptest::sample::select(vec![1u8, 2, 3, 8, 9, 16]), proptest::sample::select(vec![4u8, 5, 6]), 1usize..700, proptest::collection::vec((any::<u16>(), 0u8..5), 0..6), any::<bool>(), any::<u64>())
                    .prop_map(|(key_size, offset_bytes, n, runs, straddle, seed)| idx::DupCase { key_size, offset_bytes, n, runs, straddle, seed })
                    .boxed()
            },
            idx::check_dups,
        )
        .shards(16)
        .shrink_iters(300),
    );
    ck.run(Section::pbt("archive-index-random", q(2_500, 250_000), move || idx_strategy(maxp), idx::check).shards(16).shrink_iters(300));
    ck.run(Section::pbt("archive-index-16-4-4-chunked", q(500, 50_000), move || idx1644_strategy(maxp), idx::check).shards(16).shrink_iters(300));

    // ------------------------------------------------------------------ (3) archive group
    ck.run(
        Section::enumerate(
            "archive-group-chunk-boundaries",
            "ArchiveGroupBuilder (add_entry, add_archive x2 sources) and build_merged (2 sources): N in {0,1,156..158,313..316,470..474,627..631,785..788}",
            move || {
                let mut v: Vec<GroupCase> = Vec::new();
                let ns: Vec<usize> = [0usize, 1].into_iter().chain(156..=158).chain(313..=316).chain(470..=474).chain(627..=631).chain(785..=788).collect();
                for n in ns {
                    for (n_sources, via) in [(0u8, 0u8), (2, 0), (2, 1)] {
                        let s = splitmix64(seed ^ 0x9709 ^ (n as u64) << 16 ^ (n_sources as u64) << 8 ^ via as u64);
                        v.push(GroupCase { union: ks(n, (n % 4) as u8, n % 2 == 0, s), n_sources, overlap_pct: 25, via, seed: s ^ 1 });
                    }
                }
                Box::new(v.into_iter())
            },
            group::check,
        )
        .shards(16),
    );
    ck.run(Section::pbt("archive-group-random", q(1_500, 150_000), move || group_strategy(tier.pick(4, 8)), group::check).shards(16).shrink_iters(300));

    // ------------------------------------------------------------------ (4) root
    ck.run(
        Section::enumerate(
            "root-small-counts",
            "RootBuilder V1..V4 x total files 0..=110 x files with name hash in {0,1,2,4,5,9,10,all} (one named + one unnamed block, exact counts)",
            move || {
                let mut v: Vec<RootCase> = Vec::new();
                for version in 1u8..=4 {
                    for total in 0usize..=110 {
                        for named in [0usize, 1, 2, 4, 5, 9, 10, usize::MAX] {
                            let named = named.min(total);
                            let s = splitmix64(seed ^ 0x4007 ^ (version as u64) << 32 ^ (total as u64) << 16 ^ named as u64);
                            let mut blocks = Vec::new();
                            if named > 0 {
                                blocks.push(BlockSpec { locale: 0x2, content: 0x4, named: true });
                            }
                            if named < total || total == 0 {
                                blocks.push(BlockSpec { locale: 0x22, content: 0x8, named: false });
                            }
                            v.push(RootCase {
                                version,
                                blocks,
                                n_files: total,
                                spread_pct: 0,
                                fdid_style: (s % 3) as u8,
                                explicit_hash: false,
                                normalized_paths: s & 16 != 0,
                                named_first: Some(named as u16),
                                unnamed_flag_clear: false,
                                seed: s,
                            });
                            // no name anywhere, two blocks of unnamed records whose flags do not say so
                            if named == 0 && total >= 2 && version >= 2 {
                                v.push(RootCase {
                                    version,
                                    blocks: vec![BlockSpec { locale: 0x2, content: 0x4, named: false }, BlockSpec { locale: 0x22, content: 0x8, named: false }],
                                    n_files: total,
                                    spread_pct: 50,
                                    fdid_style: (s % 3) as u8,
                                    explicit_hash: false,
                                    normalized_paths: false,
                                    named_first: None,
                                    unnamed_flag_clear: true,
                                    seed: s,
                                });
                            }
                        }
                    }
                }
                v.dedup_by(|a, b| a.version == b.version && a.n_files == b.n_files && a.named_first == b.named_first && a.unnamed_flag_clear == b.unnamed_flag_clear);
                Box::new(v.into_iter())
            },
            root::check,
        )
        .shards(16),
    );
    ck.run(Section::pbt("root-random", q(2_500, 250_000), root_strategy, root::check).shards(16).shrink_iters(400));

    // ------------------------------------------------------------------ (5) TVFS
    ck.run(
        Section::enumerate(
            "tvfs-thresholds",
            "TvfsBuilder: flag sets {0,1,3,5,7} x file counts around the 1-byte CFT offset limit and around the 2-byte limit; component lengths 253..=256,300,510 as file and as directory; EST sizes 254..=257 bytes",
            move || {
                let mut v: Vec<TvfsCase> = Vec::new();
                let base = |flags: u32, n: usize, s: u64| TvfsCase { flags, n_files: n, max_depth: 4, fanout: 3, name_len: 12, long_name: 0, long_is_dir: false, n_est: if flags & 2 != 0 { 3 } else { 0 }, est_len: 6, ckey_pct: 100, seed: s };
                for flags in [0u32, 1, 3, 5, 7] {
                    let esz = tvfs::cft_entry_size(flags, 1, 1);
                    let n1 = 255 / esz;
                    for n in [n1 - 1, n1, n1 + 1, n1 + 2] {
                        v.push(base(flags, n, splitmix64(seed ^ 0x7f5 ^ (flags as u64) << 32 ^ n as u64)));
                    }
                    {
                        let esz2 = tvfs::cft_entry_size(flags, 1, 2);
                        let n2 = 65535 / esz2;
                        for n in [n2 - 1, n2, n2 + 1, n2 + 2] {
                            let mut c = base(flags, n, splitmix64(seed ^ 0x7f6 ^ (flags as u64) << 32 ^ n as u64));
                            c.max_depth = 3;
                            v.push(c);
                        }
                    }
                }
                for len in [253u16, 254, 255, 256, 300, 510] {
                    for is_dir in [false, true] {
                        let mut c = base(1, 6, splitmix64(seed ^ 0x7f7 ^ (len as u64) << 8 ^ is_dir as u64));
                        c.long_name = len;
                        c.long_is_dir = is_dir;
                        v.push(c);
                    }
                }
                // EST byte sizes: n_est * (est_len + 1)
                for (n_est, est_len) in [(2u16, 126u8), (15, 16), (16, 15), (1, 255), (3, 85), (40, 9)] {
                    let mut c = base(3, 10, splitmix64(seed ^ 0x7f8 ^ (n_est as u64) << 8 ^ est_len as u64));
                    c.n_est = n_est;
                    c.est_len = est_len;
                    v.push(c);
                }
                Box::new(v.into_iter())
            },
            tvfs::check,
        )
        .shards(16),
    );
    ck.run(Section::pbt("tvfs-random", q(1_500, 150_000), move || tvfs_strategy(tier.pick(2, 5)), tvfs::check).shards(16).shrink_iters(400));

    // ------------------------------------------------------------------ (6) resolver
    ck.run(Section::pbt("resolver-random", q(1_000, 100_000), res_strategy, move |c: &ResCase| resolver::check(c, &known)).shards(16).shrink_iters(300));

    ck.finish();
}
