//! (5) TVFS manifest: TvfsBuilder -> bytes -> TvfsFile::parse, resolve_path vs a
//! path model and vs an independent walk (enumerate_files + raw CFT read).

use cascette_formats::tvfs::{ContainerFileTable, TvfsBuilder, TvfsFile};
use serde::{Deserialize, Serialize};
use std::collections::{BTreeMap, BTreeSet};
use vh_engine::Verdict;
use vh_engine::util::Rng;

/// A one-byte name length of 255 is written as 0xFF, which the path-table parser reads
/// as the node-value marker (names longer than 255 are chunked into 255-byte fragments,
/// so they hit the same byte).
pub const K_NAME255: &str = "C03:tvfs:name-length-byte-0xff-read-as-node-marker:component-length>=255";
/// TvfsBuilder lays the CFT out with a 1-byte EST offset (table size still 0) but the
/// file is serialised/parsed with the width of the real EST size.
pub const K_EST256: &str = "C03:tvfs:cft-laid-out-before-est-size-known:est-table>255-bytes";
/// With PATCH_SUPPORT the entry size depends on the CFT offset width, which the builder
/// fixes one iteration too early when the table crosses 0xFFFF/0xFF.
pub const K_PATCHW: &str = "C03:tvfs:cft-offset-width-changes-after-entry-size-fixed:patch-support-at-width-threshold";

pub const F_CKEY: u32 = 1;
pub const F_EST: u32 = 2;
pub const F_PATCH: u32 = 4;

#[derive(Debug, Clone, Serialize, Deserialize)]
pub struct TvfsCase {
    /// subset of INCLUDE_CKEY(1) | ENCODING_SPEC(2) | PATCH_SUPPORT(4)
    pub flags: u32,
    pub n_files: usize,
    /// maximum number of path components (1..=6)
    pub max_depth: u8,
    /// directory names per level (1..=6)
    pub fanout: u8,
    /// maximum ordinary name length in bytes (1..=40)
    pub name_len: u8,
    /// 0 = none; otherwise one component (file 0's directory or leaf) is this many bytes long
    pub long_name: u16,
    pub long_is_dir: bool,
    /// number of EST strings (only used with ENCODING_SPEC)
    pub n_est: u16,
    /// length of each EST string
    pub est_len: u8,
    /// chance (percent) that a file carries a content key
    pub ckey_pct: u8,
    pub seed: u64,
}

#[derive(Debug, Clone)]
pub struct FileV {
    pub ekey: [u8; 9],
    pub encoded_size: u32,
    pub content_size: u32,
    pub ckey: Option<[u8; 16]>,
    pub est: Option<u32>,
}

fn pad_name(stem: String, want: usize, r: &mut Rng) -> String {
    // lengths are byte lengths; some multi-byte characters are mixed in
    let mut s = stem;
    while s.len() < want {
        let left = want - s.len();
        match r.below(12) {
            0 if left >= 2 => s.push('é'),
            1 if left >= 3 => s.push('文'),
            2 => s.push(' '),
            3 => s.push('.'),
            n => s.push((b'a' + (n as u8 % 26)) as char),
        }
    }
    s
}

pub struct Expanded {
    pub files: Vec<(String, FileV)>,
    pub specs: Vec<String>,
    pub max_component: usize,
    pub depth: usize,
}

pub fn expand(c: &TvfsCase) -> Expanded {
    let mut r = Rng::new(c.seed ^ 0x7476_6673);
    let max_depth = (c.max_depth as usize).clamp(1, 6);
    let fanout = (c.fanout as u64).clamp(1, 6);
    let name_len = (c.name_len as usize).clamp(1, 40);
    // directory names: one fixed string per (level, index); always start with 'd'
    let mut dirnames: Vec<Vec<String>> = Vec::new();
    for lvl in 0..max_depth {
        let mut v = Vec::new();
        for i in 0..fanout {
            let want = 2 + r.below(name_len as u64) as usize;
            v.push(pad_name(format!("d{i}"), want.min(40).max(2), &mut r));
            let _ = lvl;
        }
        dirnames.push(v);
    }
    if c.long_name > 0 && c.long_is_dir {
        dirnames[0][0] = pad_name("d0".into(), c.long_name as usize, &mut Rng::new(c.seed ^ 77));
    }
    let n_est = if c.flags & F_EST != 0 { c.n_est as usize } else { 0 };
    let specs: Vec<String> = (0..n_est).map(|i| pad_name(format!("b:{{{i}=z}}"), (c.est_len as usize).max(1), &mut r)).collect();
    let mut files = Vec::with_capacity(c.n_files);
    let mut seen: BTreeSet<String> = BTreeSet::new();
    let mut depth = 0usize;
    let mut max_component = 0usize;
    for i in 0..c.n_files {
        let d = if i == 0 && c.long_name > 0 && c.long_is_dir { max_depth.max(2) } else { 1 + r.below(max_depth as u64) as usize };
        let mut comps: Vec<String> = Vec::new();
        for lvl in 0..d - 1 {
            let lvl_names = &dirnames[lvl.min(dirnames.len() - 1)];
            let pick = if i == 0 && lvl == 0 && c.long_name > 0 && c.long_is_dir { 0 } else { r.below(lvl_names.len() as u64) as usize };
            comps.push(lvl_names[pick].clone());
        }
        // leaf names start with 'f' and carry the file number: distinct, and never a directory
        let want = 2 + r.below(name_len as u64) as usize;
        let leaf = if i == 0 && c.long_name > 0 && !c.long_is_dir { pad_name(format!("f{i}_"), c.long_name as usize, &mut r) } else { pad_name(format!("f{i}_"), want, &mut r) };
        comps.push(leaf);
        depth = depth.max(comps.len());
        max_component = max_component.max(comps.iter().map(String::len).max().unwrap_or(0));
        let path = comps.join("/");
        if !seen.insert(path.clone()) {
            continue;
        }
        let mut ekey = [0u8; 9];
        ekey.copy_from_slice(&r.bytes(9));
        if r.below(40) == 0 {
            ekey = [0; 9];
        }
        if r.below(40) == 0 {
            ekey = [0xFF; 9];
        }
        let ckey = if r.below(100) < c.ckey_pct as u64 {
            let mut k = [0u8; 16];
            k.copy_from_slice(&r.bytes(16));
            Some(k)
        } else {
            None
        };
        let est = if n_est > 0 && r.below(8) != 0 { Some(r.below(n_est as u64) as u32) } else { None };
        let sz = |r: &mut Rng| match r.below(6) {
            0 => 0u32,
            1 => u32::MAX,
            _ => r.next_u64() as u32,
        };
        let v = FileV { ekey, encoded_size: sz(&mut r), content_size: sz(&mut r), ckey, est };
        files.push((path, v));
    }
    // insertion order is not sorted
    for i in (1..files.len()).rev() {
        files.swap(i, r.below(i as u64 + 1) as usize);
    }
    Expanded { files, specs, max_component, depth }
}

macro_rules! bail {
    ($k:expr, $($a:tt)*) => { return Verdict::fail($k, format!($($a)*)) };
}

pub fn cft_entry_size(flags: u32, est_w: usize, cft_w: usize) -> usize {
    13 + if flags & F_CKEY != 0 { 9 } else { 0 } + if flags & F_EST != 0 { est_w } else { 0 } + if flags & F_PATCH != 0 { cft_w } else { 0 }
}

fn width(size: usize) -> usize {
    if size > 0xFF_FFFF {
        4
    } else if size > 0xFFFF {
        3
    } else if size > 0xFF {
        2
    } else {
        1
    }
}

pub fn check(c: &TvfsCase) -> Verdict {
    let flags = c.flags & 7;
    let ex = expand(c);
    let n = ex.files.len();
    let est_bytes: usize = ex.specs.iter().map(|s| s.len() + 1).sum();
    let mut b = TvfsBuilder::with_flags(flags);
    for s in &ex.specs {
        b.add_est_spec(s.clone());
    }
    for (p, v) in &ex.files {
        match v.est {
            Some(e) => b.add_file_with_est(p.clone(), v.ekey, v.encoded_size, v.content_size, v.ckey, e),
            None => b.add_file(p.clone(), v.ekey, v.encoded_size, v.content_size, v.ckey),
        }
    }
    // conditions under which the known layout defects apply (each narrow)
    let long = ex.max_component >= 255;
    let est_wide = flags & F_EST != 0 && est_bytes > 255;
    // PATCH_SUPPORT: the builder settles the entry size with the offset width of a first
    // estimate; it is wrong when the final table needs a wider offset than the estimate did
    let patch_shift = flags & F_PATCH != 0 && {
        let e1 = cft_entry_size(flags, 1, 1);
        let w1 = width(n * e1);
        let e2 = cft_entry_size(flags, 1, w1);
        width(n * e2) != w1
    };
    let key = |k: &'static str| {
        if long {
            K_NAME255
        } else if est_wide {
            K_EST256
        } else if patch_shift {
            K_PATCHW
        } else {
            k
        }
    };
    let how = format!("flags={flags:#x} files={n} depth={} longest-component={} est-bytes={est_bytes}", ex.depth, ex.max_component);
    let bytes = match b.build() {
        Ok(x) => x,
        Err(e) => bail!("C03:tvfs:builder-refused-valid-input", "{how}: {e}"),
    };
    let parsed = match TvfsFile::parse(&bytes) {
        Ok(p) => p,
        Err(e) => bail!(key("C03:tvfs:built-file-does-not-parse"), "{how}: {e}"),
    };
    let model: BTreeMap<&str, &FileV> = ex.files.iter().map(|(p, v)| (p.as_str(), v)).collect();
    // the set of file paths in the parsed table is exactly the inserted set
    let listed: BTreeSet<&str> = parsed.path_table.files.iter().map(|f| f.path.as_str()).collect();
    if listed.len() != parsed.path_table.files.len() || listed != model.keys().copied().collect::<BTreeSet<&str>>() {
        let missing = model.keys().find(|p| !listed.contains(*p));
        let extra = listed.iter().find(|p| !model.contains_key(*p));
        bail!(key("C03:tvfs:parsed-paths-differ-from-inserted"), "{how}: parsed {} paths; first missing {missing:?}; first extra {extra:?}", parsed.path_table.files.len());
    }
    // independent walk: enumerate_files -> first span -> raw CFT read at the span's byte offset
    let mut walk: BTreeMap<&str, (Vec<u8>, u32, Option<Vec<u8>>, Option<u32>, u32)> = BTreeMap::new();
    for (pf, ve) in parsed.enumerate_files() {
        let Some(ve) = ve else { bail!(key("C03:tvfs:path-points-to-no-vfs-entry"), "{how}: {:?} -> vfs offset {}", pf.path, pf.vfs_offset) };
        let Some(span) = ve.spans.first() else { bail!(key("C03:tvfs:vfs-entry-without-span"), "{how}: {:?}", pf.path) };
        match ContainerFileTable::read_entry_at(&parsed.container_table.data, span.cft_offset as usize, &parsed.header) {
            Ok(e) => {
                walk.insert(pf.path.as_str(), (e.ekey, e.encoded_size, e.content_key, e.est_index, span.span_length));
            }
            Err(e) => bail!(key("C03:tvfs:span-points-outside-cft"), "{how}: {:?} cft offset {}: {e}", pf.path, span.cft_offset),
        }
    }
    for (p, v) in &ex.files {
        // the CFT stores pkey_size (9) bytes of the content key (documented in cft_entry_size);
        // a file inserted without a content key has no prescribed value there
        let want_ckey: Option<Vec<u8>> = if flags & F_CKEY != 0 { Some(v.ckey.map_or(vec![0u8; 9], |k| k[..9].to_vec())) } else { None };
        let ckey_ok = |got: &Option<Vec<u8>>| if flags & F_CKEY != 0 && v.ckey.is_none() { got.is_some() } else { *got == want_ckey };
        let want_est: Option<u32> = if flags & F_EST != 0 { Some(v.est.unwrap_or(0)) } else { None };
        let Some(e) = parsed.resolve_path(p) else { bail!(key("C03:tvfs:resolve_path-misses-inserted-path"), "{how}: {p:?}") };
        if e.ekey != v.ekey || e.encoded_size != v.encoded_size || !ckey_ok(&e.content_key) || e.est_index != want_est {
            bail!(
                key("C03:tvfs:resolve_path-returns-other-entry"),
                "{how}: {p:?} -> ekey {} size {} ckey {:?} est {:?}; inserted ekey {} size {} ckey {:?} est {:?}",
                crate::keys::hex(&e.ekey),
                e.encoded_size,
                e.content_key.as_ref().map(|k| crate::keys::hex(k)),
                e.est_index,
                crate::keys::hex(&v.ekey),
                v.encoded_size,
                want_ckey.as_ref().map(|k| crate::keys::hex(k)),
                want_est
            );
        }
        match walk.get(p.as_str()) {
            Some(w) if w.0 == e.ekey && w.1 == e.encoded_size && w.2 == e.content_key && w.3 == e.est_index => {
                if w.4 != v.content_size {
                    bail!(key("C03:tvfs:span-length-differs-from-inserted-content-size"), "{how}: {p:?} span {} inserted {}", w.4, v.content_size);
                }
            }
            _ => bail!(key("C03:tvfs:resolve_path-differs-from-table-walk"), "{how}: {p:?}"),
        }
        if let (Some(ix), Some(t)) = (v.est, parsed.est_table.as_ref()) {
            if t.get_spec(ix as usize) != Some(ex.specs[ix as usize].as_str()) {
                bail!(key("C03:tvfs:est-spec-differs-from-inserted"), "{how}: {p:?} est index {ix} -> {:?}", t.get_spec(ix as usize));
            }
        }
    }
    // negative probes: every directory prefix, sibling/extended/truncated names
    let mut neg: BTreeSet<String> = BTreeSet::new();
    for (p, _) in &ex.files {
        let comps: Vec<&str> = p.split('/').collect();
        for i in 1..comps.len() {
            neg.insert(comps[..i].join("/"));
        }
        neg.insert(format!("{p}x"));
        neg.insert(format!("{p}/f"));
        if p.len() > 1 && p.is_char_boundary(p.len() - 1) {
            neg.insert(p[..p.len() - 1].to_string());
        }
        if let Some(last) = comps.last() {
            neg.insert((*last).to_string());
        }
    }
    neg.insert(String::new());
    neg.insert("nothing/here".into());
    let mut n_neg = 0usize;
    for p in &neg {
        if model.contains_key(p.as_str()) {
            continue;
        }
        n_neg += 1;
        if let Some(e) = parsed.resolve_path(p) {
            bail!("C03:tvfs:resolve_path-finds-path-never-inserted", "{how}: {p:?} -> ekey {}", crate::keys::hex(&e.ekey));
        }
    }
    let esz = cft_entry_size(flags, width(est_bytes), width(n * cft_entry_size(flags, 1, 1)));
    Verdict::pass()
        .nontrivial(ex.depth >= 3 && n_neg >= 1 && n >= 2)
        .class_if(ex.depth >= 3, "depth>=3")
        .class_if(ex.depth >= 5, "depth>=5")
        .class_if(flags & F_CKEY != 0, "with-ckey")
        .class_if(flags & F_EST != 0 && !ex.specs.is_empty(), "with-est")
        .class_if(flags & F_EST != 0 && ex.specs.is_empty(), "est-flag-without-specs")
        .class_if(flags & F_PATCH != 0, "with-patch-support")
        .class_if(n * esz > 0xFF, "cft-offset-2-bytes")
        .class_if(n * esz > 0xFFFF, "cft-offset-3-bytes")
        .class_if(n * esz <= 0xFF && (n + 1) * esz > 0xFF, "cft-just-below-1-byte-limit")
        .class_if(n * esz > 0xFF && (n - 1) * esz <= 0xFF, "cft-just-above-1-byte-limit")
        .class_if(ex.max_component == 254, "component-254-bytes")
        .class_if(long, "component>=255-correct")
        .class_if(est_wide, "est>255-bytes-correct")
        .class_if(patch_shift, "patch-width-shift-correct")
        .class_if(n == 0, "empty")
        .class_if(n >= 100, "files>=100")
}
