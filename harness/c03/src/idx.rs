//! (2) CDN archive index: ArchiveIndexBuilder::with_config(k, w, 4) -> bytes ->
//! ArchiveIndex::parse, find_entry/binary_search_key/find_all_entries vs model and
//! linear scan; ChunkedArchiveIndex::find_entry for 16/4/4 indices.

use crate::keys::{KeySpec, gen_keys, hex, probes};
use cascette_formats::archive::{ArchiveIndex, ArchiveIndexBuilder, ChunkedArchiveIndex};
use serde::{Deserialize, Serialize};
use std::collections::{BTreeMap, BTreeSet};
use std::io::Cursor;
use vh_engine::Verdict;
use vh_engine::util::Rng;

#[derive(Debug, Clone, Serialize, Deserialize)]
pub struct IdxCase {
    pub key_size: u8,
    pub offset_bytes: u8,
    pub keys: KeySpec,
    /// also exercise ChunkedArchiveIndex (only meaningful for 16/4/4)
    pub chunked: bool,
    pub seed: u64,
}

pub fn records_per_chunk(key_size: u8, offset_bytes: u8) -> usize {
    4096 / (key_size as usize + 4 + offset_bytes as usize)
}

/// (size, composite offset) per key; composite = the `offset_bytes`-wide big-endian field.
pub type IdxModel = BTreeMap<Vec<u8>, (u32, u64)>;

pub fn expand(c: &IdxCase) -> (Vec<(Vec<u8>, u32, u64)>, IdxModel) {
    let mut r = Rng::new(c.seed ^ 0x6964_78);
    let keys = gen_keys(&c.keys, c.key_size as usize);
    let bits = 8 * c.offset_bytes as u32;
    let max_off: u64 = if bits >= 64 { u64::MAX } else { (1u64 << bits) - 1 };
    let mut list = Vec::with_capacity(keys.len());
    let mut model = IdxModel::new();
    for k in keys {
        let mut size = match r.below(6) {
            0 => 0,
            1 => u32::MAX,
            _ => r.next_u64() as u32,
        };
        let off = match r.below(6) {
            0 => 0,
            1 => max_off,
            2 => r.below(1 << 20),
            _ => r.next_u64() & max_off,
        };
        // Domain exclusion: all-zero key AND size 0 AND offset 0 is the padding record
        // (IndexEntry::is_zero; for 6-byte offsets the parser looks at the low 32 bits).
        if k.iter().all(|b| *b == 0) && size == 0 {
            size = 1 + (r.next_u64() as u32 >> 1);
        }
        model.insert(k.clone(), (size, off));
        list.push((k, size, off));
    }
    (list, model)
}

fn composite(e: &cascette_formats::archive::IndexEntry) -> u64 {
    match e.archive_index {
        Some(a) => ((a as u64) << 32) | (e.offset & 0xFFFF_FFFF),
        None => e.offset,
    }
}

macro_rules! bail {
    ($k:expr, $($a:tt)*) => { return Verdict::fail($k, format!($($a)*)) };
}

pub fn build_bytes(c: &IdxCase, list: &[(Vec<u8>, u32, u64)]) -> Result<Vec<u8>, String> {
    let mut b = ArchiveIndexBuilder::with_config(c.key_size, c.offset_bytes, 4);
    for (k, s, o) in list {
        b.add_entry(k.clone(), *s, *o);
    }
    let mut out = Cursor::new(Vec::new());
    b.build(&mut out).map_err(|e| format!("{e}"))?;
    Ok(out.into_inner())
}

pub fn check(c: &IdxCase) -> Verdict {
    let (list, model) = expand(c);
    let n = model.len();
    let cfg = format!("k={} w={} n={n}", c.key_size, c.offset_bytes);
    let bytes = match build_bytes(c, &list) {
        Ok(b) => b,
        Err(e) => bail!("C03:archive-index:builder-refused-valid-input", "{cfg}: {e}"),
    };
    let parsed = match ArchiveIndex::parse(Cursor::new(&bytes)) {
        Ok(p) => p,
        Err(e) => bail!("C03:archive-index:built-file-does-not-parse", "{cfg}: {e}"),
    };
    // linear scan == model
    let mut scan = IdxModel::new();
    for e in &parsed.entries {
        scan.insert(e.encoding_key.clone(), (e.size, composite(e)));
    }
    if parsed.entries.len() != n || scan != model {
        let missing = model.keys().find(|k| !scan.contains_key(*k)).map(|k| hex(k));
        let wrong = model.iter().find(|(k, v)| scan.get(*k).is_some_and(|s| s != *v)).map(|(k, v)| format!("{} inserted {:?} parsed {:?}", hex(k), v, scan.get(k)));
        bail!("C03:archive-index:parsed-entries-differ-from-inserted", "{cfg}: parsed {} entries; first missing {missing:?}; first wrong {wrong:?}", parsed.entries.len());
    }
    let present: BTreeSet<Vec<u8>> = model.keys().cloned().collect();
    let pr = probes(&present, c.key_size as usize, c.seed ^ 3);
    for (k, v) in &model {
        match parsed.find_entry(k) {
            Some(e) if e.encoding_key == *k && (e.size, composite(e)) == *v => {}
            other => bail!("C03:archive-index:find_entry-wrong-for-inserted-key", "{cfg}: key {} -> {:?}, inserted {:?}", hex(k), other.map(|e| (e.size, composite(e))), v),
        }
        match parsed.binary_search_key(k) {
            Some(e) if (e.size, composite(e)) == *v => {}
            other => bail!("C03:archive-index:binary_search_key-wrong-for-inserted-key", "{cfg}: key {} -> {:?}", hex(k), other.map(|e| (e.size, composite(e)))),
        }
        let all = parsed.find_all_entries(k);
        if all.len() != 1 || (all[0].size, composite(all[0])) != *v {
            bail!("C03:archive-index:find_all_entries-wrong-for-inserted-key", "{cfg}: key {} -> {} matches", hex(k), all.len());
        }
    }
    for k in &pr.absent {
        if let Some(e) = parsed.find_entry(k) {
            bail!("C03:archive-index:find_entry-finds-key-never-inserted", "{cfg}: probe {} -> entry {}", hex(k), hex(&e.encoding_key));
        }
        if !parsed.find_all_key_matches(k).is_empty() {
            bail!("C03:archive-index:find_all_key_matches-finds-key-never-inserted", "{cfg}: probe {}", hex(k));
        }
    }
    // probes of another length than the index's keys are never "a key that was inserted": proper
    // prefixes (e.g. the 9-byte truncation local .idx files use) and extensions of present keys —
    // of every chunk's first and last key, and of a sample of the others
    let rpc0 = records_per_chunk(c.key_size, c.offset_bytes).max(1);
    let mut other_len = 0usize;
    for (i, k) in model.keys().enumerate() {
        let edge = i % rpc0 == 0 || i % rpc0 == rpc0 - 1 || i + 1 == n;
        if !edge && (i as u64).wrapping_mul(0x9E37_79B9).wrapping_add(c.seed) % 16 != 0 {
            continue;
        }
        let mut alts: Vec<Vec<u8>> = Vec::new();
        for cut in [k.len().saturating_sub(1), 9, k.len() / 2, 1] {
            if cut >= 1 && cut < k.len() {
                alts.push(k[..cut].to_vec());
            }
        }
        for fill in [0u8, 0xff] {
            let mut e = k.clone();
            e.push(fill);
            alts.push(e.clone());
            if e.len() < 16 {
                e.resize(16, fill);
                alts.push(e);
            }
        }
        for a in alts {
            other_len += 1;
            if let Some(e) = parsed.find_entry(&a) {
                bail!("C03:archive-index:find_entry-finds-probe-of-another-length", "{cfg}: probe {} ({} bytes, made from present key {}) -> entry {}", hex(&a), a.len(), hex(k), hex(&e.encoding_key));
            }
            if let Some(e) = parsed.binary_search_key(&a) {
                bail!("C03:archive-index:binary_search_key-finds-probe-of-another-length", "{cfg}: probe {} ({} bytes, made from present key {}) -> entry {}", hex(&a), a.len(), hex(k), hex(&e.encoding_key));
            }
            if !parsed.find_all_entries(&a).is_empty() {
                bail!("C03:archive-index:find_all_entries-finds-probe-of-another-length", "{cfg}: probe {} ({} bytes, made from present key {})", hex(&a), a.len(), hex(k));
            }
        }
    }
    // ChunkedArchiveIndex (fixed 16/4/4 layout) over the same bytes
    let mut did_chunked = false;
    // (needs a real file; a machine without a writable temp dir skips this flavour, counted)
    let tmp = if c.chunked && c.key_size == 16 && c.offset_bytes == 4 {
        tempfile::tempdir().ok().and_then(|d| {
            let p = d.path().join("a.index");
            std::fs::write(&p, &bytes).ok().map(|()| (d, p))
        })
    } else {
        None
    };
    let chunked_skipped = c.chunked && c.key_size == 16 && c.offset_bytes == 4 && tmp.is_none();
    if let Some((_dir, p)) = &tmp {
        let mut ch = match ChunkedArchiveIndex::open(p) {
            Ok(c) => c,
            Err(e) => bail!("C03:archive-index:chunked-open-fails-on-built-file", "{cfg}: {e}"),
        };
        for (k, v) in &model {
            match ch.find_entry(k) {
                Ok(Some(e)) if (e.size, e.offset) == *v => {}
                Ok(other) => bail!("C03:archive-index:chunked-find_entry-wrong-for-inserted-key", "{cfg}: key {} -> {:?}, inserted {:?}", hex(k), other.map(|e| (e.size, e.offset)), v),
                Err(e) => bail!("C03:archive-index:chunked-find_entry-errors", "{cfg}: key {}: {e}", hex(k)),
            }
        }
        for k in &pr.absent {
            match ch.find_entry(k) {
                Ok(None) => {}
                Ok(Some(e)) => bail!("C03:archive-index:chunked-find_entry-finds-key-never-inserted", "{cfg}: probe {} -> {}", hex(k), hex(&e.encoding_key)),
                Err(e) => bail!("C03:archive-index:chunked-find_entry-errors", "{cfg}: probe {}: {e}", hex(k)),
            }
        }
        did_chunked = true;
    }
    let rpc = records_per_chunk(c.key_size, c.offset_bytes);
    let chunks = n.div_ceil(rpc);
    Verdict::pass()
        .nontrivial(chunks >= 2 && pr.neighbours >= 1)
        .class_if(other_len >= 1, "probes-of-another-length")
        .class_if(chunks >= 2, "chunks>=2")
        .class_if(chunks >= 3, "chunks>=3")
        .class_if(n > 0 && n % rpc == 0, "exact-chunk-multiple")
        .class_if(n > 1 && n % rpc == 1, "chunk-multiple+1")
        .class_if(n % rpc == rpc - 1, "chunk-multiple-1")
        .class_if(c.offset_bytes == 5, "w5")
        .class_if(c.offset_bytes == 6, "w6")
        .class_if(c.key_size < 16, "key<16")
        .class_if(c.key_size <= 4, "key<=4")
        .class_if(model.contains_key(&vec![0u8; c.key_size as usize]), "all-zero-key-nonsentinel")
        .class_if(model.contains_key(&vec![0xFFu8; c.key_size as usize]), "all-ff-key")
        .class_if(c.keys.style == 1 || c.keys.style == 3, "shared-prefix-keys")
        .class_if(did_chunked, "chunked-index")
        .class_if(chunked_skipped, "chunked-index-skipped-no-tempdir")
        .class_if(n == 0, "empty")
}

// ------------------------------------------------------------------ duplicate keys

/// Equal keys are legal in an archive index (documented collision handling; unavoidable with
/// 1-2 byte keys). A run of equal keys may sit anywhere, also across a 4 KiB chunk boundary.
#[derive(Debug, Clone, Serialize, Deserialize)]
pub struct DupCase {
    pub key_size: u8,
    pub offset_bytes: u8,
    /// number of distinct keys
    pub n: usize,
    /// (where the run starts, as a selector over the final record positions; run length 2..=6)
    pub runs: Vec<(u16, u8)>,
    /// place the first run so that it straddles the first chunk boundary
    pub straddle: bool,
    pub seed: u64,
}

pub fn check_dups(c: &DupCase) -> Verdict {
    let rpc = records_per_chunk(c.key_size, c.offset_bytes).max(2);
    let mut r = Rng::new(c.seed ^ 0x6475_70);
    let ksz = c.key_size as usize;
    // distinct sorted keys: big-endian counter spread over the key space (fits any key size >= 2;
    // key size 1 holds at most 256)
    let n = if ksz == 1 { c.n.min(200) } else { c.n };
    let mut keys: Vec<Vec<u8>> = (0..n)
        .map(|i| {
            let v = (i as u64 + 1) * if ksz == 1 { 1 } else { 37 };
            let be = v.to_be_bytes();
            let mut k = vec![0u8; ksz];
            let take = ksz.min(8);
            k[..take].copy_from_slice(&be[8 - take..]);
            if ksz > 8 {
                k[8..].fill(0xee);
            }
            k
        })
        .collect();
    keys.sort();
    keys.dedup();
    if keys.is_empty() {
        return Verdict::pass().class("empty");
    }
    // multiplicity per key index
    let mut mult = vec![1usize; keys.len()];
    let mut runs = c.runs.clone();
    for (sel, len) in runs.drain(..) {
        let i = vh_engine::pick_idx(sel, keys.len());
        mult[i] = mult[i].max(2 + usize::from(len % 5));
    }
    if c.straddle {
        // the key whose first record is 2 before the end of the first chunk becomes a run of 4
        let mut before = 0usize;
        for m in mult.iter_mut() {
            if before + 2 == rpc || (before + 2 < rpc && before + *m + 1 >= rpc) {
                *m = (*m).max(4);
                break;
            }
            before += *m;
        }
    }
    let bits = 8 * u32::from(c.offset_bytes);
    let max_off: u64 = if bits >= 64 { u64::MAX } else { (1u64 << bits) - 1 };
    let mut b = ArchiveIndexBuilder::with_config(c.key_size, c.offset_bytes, 4);
    let mut want: BTreeMap<Vec<u8>, Vec<(u32, u64)>> = BTreeMap::new();
    let mut total = 0usize;
    let mut crossing = false;
    for (i, k) in keys.iter().enumerate() {
        let first = total;
        for _ in 0..mult[i] {
            let size = 1 + (r.next_u64() as u32 >> 1);
            let off = r.next_u64() & max_off & 0xFFFF_FFFF;
            b.add_entry(k.clone(), size, off);
            want.entry(k.clone()).or_default().push((size, off));
            total += 1;
        }
        if mult[i] > 1 && first / rpc != (total - 1) / rpc {
            crossing = true;
        }
    }
    let cfg = format!("k={} w={} distinct={} records={total}", c.key_size, c.offset_bytes, keys.len());
    let mut out = Cursor::new(Vec::new());
    if let Err(e) = b.build(&mut out) {
        return Verdict::fail("C03:archive-index:builder-refused-duplicate-keys", format!("{cfg}: {e}"));
    }
    let parsed = match ArchiveIndex::parse(Cursor::new(out.into_inner())) {
        Ok(p) => p,
        Err(e) => return Verdict::fail("C03:archive-index:built-file-with-duplicate-keys-does-not-parse", format!("{cfg}: {e}")),
    };
    for (k, exp) in &want {
        let mut exp = exp.clone();
        exp.sort_unstable();
        // the linear scan
        let mut scan: Vec<(u32, u64)> = parsed.entries.iter().filter(|e| e.encoding_key == *k).map(|e| (e.size, composite(e))).collect();
        scan.sort_unstable();
        if scan != exp {
            return Verdict::fail("C03:archive-index:parsed-entries-differ-from-inserted", format!("{cfg}: key {} inserted {} times, parsed {} times", hex(k), exp.len(), scan.len()));
        }
        for (name, got) in [("find_all_entries", parsed.find_all_entries(k)), ("find_all_key_matches", parsed.find_all_key_matches(k))] {
            let mut g: Vec<(u32, u64)> = got.iter().map(|e| (e.size, composite(e))).collect();
            g.sort_unstable();
            if g != scan {
                return Verdict::fail(
                    "C03:archive-index:all-matches-differ-from-linear-scan",
                    format!("{cfg}: {name}({}) returns {} of the {} records a scan finds (records per chunk {rpc})", hex(k), g.len(), scan.len()),
                );
            }
        }
        match parsed.find_entry(k) {
            Some(e) if e.encoding_key == *k && scan.contains(&(e.size, composite(e))) => {}
            other => {
                return Verdict::fail("C03:archive-index:find_entry-wrong-for-inserted-key", format!("{cfg}: duplicate key {} -> {:?}", hex(k), other.map(|e| (e.size, composite(e)))));
            }
        }
    }
    Verdict::pass().nontrivial(total > keys.len()).class_if(crossing, "run-of-equal-keys-crosses-a-chunk-boundary").class_if(total > rpc, "chunks>=2")
}
