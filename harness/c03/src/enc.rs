//! (1) Encoding table: EncodingBuilder -> EncodingFile::build -> EncodingFile::parse,
//! then find_encoding / find_all_encodings / find_espec / batch_find_* against a
//! BTreeMap model and a linear scan of the parsed pages.

use crate::keys::{KeySpec, arr16, gen_keys, hex, probes};
use cascette_crypto::{ContentKey, EncodingKey};
use cascette_formats::encoding::{CKeyEntryData, EKeyEntryData, EncodingBuilder, EncodingFile};
use serde::{Deserialize, Serialize};
use std::collections::{BTreeMap, BTreeSet};
use vh_engine::Verdict;
use vh_engine::util::Rng;

pub const K_OVERSIZE: &str = "C03:encoding:ckey-entry-larger-than-page-grows-page:22+16k>page-size";

#[derive(Debug, Clone, Serialize, Deserialize)]
pub struct EncCase {
    pub ckeys: KeySpec,
    pub ekeys: KeySpec,
    pub ckey_page_kb: u16,
    pub ekey_page_kb: u16,
    /// encoding keys per content key: 0 = exactly 1; 1 = 1..=3; 2 = 1..=8;
    /// 3 = mostly 1..=3, some up to the page's fit; 4 = as 1, plus one entry with `big_k` keys;
    /// 5 = the first CKey page is filled exactly to its last byte, all other entries 1 key
    pub multi: u8,
    /// key count of the single big entry for multi == 4 (1..=255)
    pub big_k: u8,
    pub n_especs: u8,
    pub trailing: bool,
    pub blte: bool,
    pub seed: u64,
}

const ESPECS: [&str; 6] = ["z", "n", "b:{164=z,16K*565=z,1656=z}", "b:{*=z:{6,mpq}}", "z:{9,mpq}", "b:{256K*=e:{237DA26C65073F42,0,z}}"];

fn fit(page: usize) -> usize {
    (page - 22) / 16
}

pub struct EncModel {
    pub ckeys: BTreeMap<[u8; 16], (u64, Vec<[u8; 16]>)>,
    pub ekeys: BTreeMap<[u8; 16], (String, u64)>,
    pub excluded_sentinel: bool,
    pub oversize: bool,
    pub exact_full_page: bool,
}

fn size40(r: &mut Rng) -> u64 {
    match r.below(8) {
        0 => 0,
        1 => 0xFFFF_FFFF,
        2 => 0x1_0000_0000,
        3 => (1u64 << 40) - 1,
        4 => r.below(1 << 40),
        _ => r.below(1 << 24),
    }
}

/// Expand a case into builder input (in insertion order) and the model.
pub fn expand(c: &EncCase) -> (Vec<CKeyEntryData>, Vec<EKeyEntryData>, EncModel) {
    let mut r = Rng::new(c.seed ^ 0x656e_63);
    let cpage = c.ckey_page_kb as usize * 1024;
    let ck = gen_keys(&c.ckeys, 16);
    let mut ek = gen_keys(&c.ekeys, 16);
    let n_especs = (c.n_especs as usize).clamp(1, ESPECS.len());
    // Domain exclusion: an ekey-page entry with all-zero key and ESpec index 0 is the
    // padding sentinel. ESpec indices are handed out in first-appearance order, so the
    // all-zero key must not carry the first-appearing ESpec; with a single ESpec it
    // cannot be represented at all and is dropped (counted).
    let zero = vec![0u8; 16];
    let mut excluded_sentinel = false;
    if let Some(p) = ek.iter().position(|k| *k == zero) {
        if n_especs < 2 || ek.len() < 2 {
            ek.remove(p);
            excluded_sentinel = true;
        } else if p == 0 {
            ek.swap(0, 1);
        }
    }
    let mut model = EncModel { ckeys: BTreeMap::new(), ekeys: BTreeMap::new(), excluded_sentinel, oversize: false, exact_full_page: false };
    let mut eentries = Vec::with_capacity(ek.len());
    let mut first_spec: Option<usize> = None;
    for k in &ek {
        let mut si = r.below(n_especs as u64) as usize;
        match first_spec {
            None => first_spec = Some(si),
            Some(f) => {
                if *k == zero && si == f {
                    si = (f + 1) % n_especs;
                }
            }
        }
        let size = size40(&mut r);
        model.ekeys.insert(arr16(k), (ESPECS[si].to_string(), size));
        eentries.push(EKeyEntryData { encoding_key: EncodingKey::from_bytes(arr16(k)), espec: ESPECS[si].to_string(), file_size: size });
    }
    let big_at = if c.multi == 4 && !ck.is_empty() { Some(r.below(ck.len() as u64) as usize) } else { None };
    // multi == 5: the 8 smallest keys get key counts that fill the first page to the last
    // byte (8*22 + 16*S == page size; the 8th entry has a single key), everything else 1 key
    let mut exact: BTreeMap<Vec<u8>, usize> = BTreeMap::new();
    if c.multi == 5 && ck.len() >= 8 {
        let mut sorted = ck.clone();
        sorted.sort();
        let s_total = (cpage - 8 * 22) / 16;
        for (i, k) in sorted.iter().take(8).enumerate() {
            let n = if i == 7 { 1 } else { (s_total - 1) / 7 + usize::from(i < (s_total - 1) % 7) };
            exact.insert(k.clone(), n);
        }
        model.exact_full_page = true;
    }
    let mut centries = Vec::with_capacity(ck.len());
    for (i, k) in ck.iter().enumerate() {
        let n = match c.multi {
            0 => 1,
            1 => 1 + r.below(3) as usize,
            2 => 1 + r.below(8) as usize,
            3 => {
                if r.below(12) == 0 {
                    1 + r.below(fit(cpage).min(255) as u64) as usize
                } else {
                    1 + r.below(3) as usize
                }
            }
            4 => {
                if Some(i) == big_at {
                    (c.big_k as usize).clamp(1, 255)
                } else {
                    1 + r.below(3) as usize
                }
            }
            _ => exact.get(k).copied().unwrap_or(1),
        };
        if 22 + 16 * n > cpage {
            model.oversize = true;
        }
        let mut eks = Vec::with_capacity(n);
        for _ in 0..n {
            // mostly fresh keys, sometimes one of the ekey table, rarely all-zero
            let e = match r.below(10) {
                0 if !ek.is_empty() => arr16(&ek[r.below(ek.len() as u64) as usize]),
                1 => [0u8; 16],
                _ => arr16(&r.bytes(16)),
            };
            eks.push(e);
        }
        let size = size40(&mut r);
        model.ckeys.insert(arr16(k), (size, eks.clone()));
        centries.push(CKeyEntryData {
            content_key: ContentKey::from_bytes(arr16(k)),
            file_size: size,
            encoding_keys: eks.into_iter().map(EncodingKey::from_bytes).collect(),
        });
    }
    (centries, eentries, model)
}

/// Build + serialise. Err(text) when a builder step refuses.
pub fn build_bytes(c: &EncCase, centries: Vec<CKeyEntryData>, eentries: Vec<EKeyEntryData>) -> Result<Vec<u8>, String> {
    let mut b = EncodingBuilder::new().with_page_sizes(c.ckey_page_kb, c.ekey_page_kb);
    if c.trailing {
        b = b.with_trailing_espec("b:{22=n,*=z}".to_string());
    }
    // One case in three puts decoy mappings in between and takes them out again with
    // remove_ckey_entry / remove_ekey_entry before building; another one in three rebuilds the
    // table from its own parsed output (EncodingBuilder::from_encoding_file). Decided by the seed.
    let mode = c.seed % 3;
    let mut r = Rng::new(c.seed ^ 0xDEC0);
    let decoy = |r: &mut Rng| {
        let mut k = [0xDEu8; 16];
        k[4..].copy_from_slice(&r.bytes(12));
        k
    };
    let (mut dc, mut de): (Vec<[u8; 16]>, Vec<[u8; 16]>) = (Vec::new(), Vec::new());
    for (i, e) in centries.into_iter().enumerate() {
        if mode == 1 && i % 5 == 0 {
            let k = decoy(&mut r);
            b.add_ckey_entry(CKeyEntryData { content_key: ContentKey::from_bytes(k), file_size: 77, encoding_keys: vec![EncodingKey::from_bytes(decoy(&mut r))] });
            dc.push(k);
        }
        b.add_ckey_entry(e);
    }
    for (i, e) in eentries.into_iter().enumerate() {
        if mode == 1 && i % 5 == 0 {
            let k = decoy(&mut r);
            b.add_ekey_entry(EKeyEntryData { encoding_key: EncodingKey::from_bytes(k), espec: ESPECS[0].to_string(), file_size: 78 });
            de.push(k);
        }
        b.add_ekey_entry(e);
    }
    for k in &dc {
        if !b.remove_ckey_entry(&ContentKey::from_bytes(*k)) || b.remove_ckey_entry(&ContentKey::from_bytes(*k)) || b.has_ckey_entry(&ContentKey::from_bytes(*k)) {
            return Err("CONTRACT: remove_ckey_entry does not report the removal of a present / an absent key truthfully".into());
        }
    }
    for k in &de {
        if !b.remove_ekey_entry(&EncodingKey::from_bytes(*k)) || b.remove_ekey_entry(&EncodingKey::from_bytes(*k)) || b.has_ekey_entry(&EncodingKey::from_bytes(*k)) {
            return Err("CONTRACT: remove_ekey_entry does not report the removal of a present / an absent key truthfully".into());
        }
    }
    let mut file = b.build().map_err(|e| format!("EncodingBuilder::build: {e}"))?;
    if mode == 2 {
        // bytes -> parse -> from_encoding_file -> build: the table a tool gets when it edits a file
        if let Ok(bytes) = file.build() {
            if let Ok(parsed) = EncodingFile::parse(&bytes) {
                file = EncodingBuilder::from_encoding_file(&parsed).build().map_err(|e| format!("EncodingBuilder::from_encoding_file(..).build: {e}"))?;
            }
        }
    }
    if c.blte { file.build_blte().map_err(|e| format!("EncodingFile::build_blte: {e}")) } else { file.build().map_err(|e| format!("EncodingFile::build: {e}")) }
}

macro_rules! bail {
    ($k:expr, $($a:tt)*) => { return Verdict::fail($k, format!($($a)*)) };
}

pub fn check(c: &EncCase) -> Verdict {
    let (centries, eentries, model) = expand(c);
    let n_c = model.ckeys.len();
    let n_e = model.ekeys.len();
    let empty_side = n_c == 0 || n_e == 0;
    let bytes = match build_bytes(c, centries, eentries) {
        Ok(b) => b,
        Err(e) => {
            // a builder may refuse what it cannot represent; silent acceptance is what is checked
            if model.oversize {
                return Verdict::pass().class("oversize-entry-refused");
            }
            bail!("C03:encoding:builder-refused-valid-input", "{e} (ckeys={n_c} ekeys={n_e})");
        }
    };
    let parsed = if c.blte { EncodingFile::parse_blte(&bytes) } else { EncodingFile::parse(&bytes) };
    let parsed = match parsed {
        Ok(p) => p,
        Err(e) => {
            if empty_side {
                // Domain exclusion (counted): the format (Agent.exe header validation) has no
                // representation for a table with zero CKey pages or zero EKey pages.
                return Verdict::pass().class("excluded-empty-table");
            }
            if model.oversize {
                bail!(K_OVERSIZE, "built file does not parse: {e} (ckey page {} KiB)", c.ckey_page_kb);
            }
            bail!("C03:encoding:built-file-does-not-parse", "{e} (ckeys={n_c} ekeys={n_e} pages {}K/{}K)", c.ckey_page_kb, c.ekey_page_kb);
        }
    };
    let ovk = |k: &'static str| if model.oversize { K_OVERSIZE } else { k };

    // ---- linear scan of the parsed pages == model (exactly what was inserted, nothing else)
    let mut scan_c: BTreeMap<[u8; 16], (u64, Vec<[u8; 16]>)> = BTreeMap::new();
    let mut total_c = 0usize;
    for p in &parsed.ckey_pages {
        for e in &p.entries {
            total_c += 1;
            scan_c.insert(*e.content_key.as_bytes(), (e.file_size, e.encoding_keys.iter().map(|k| *k.as_bytes()).collect()));
        }
    }
    if total_c != n_c || scan_c != model.ckeys {
        let missing = model.ckeys.keys().find(|k| !scan_c.contains_key(*k)).map(|k| hex(k));
        bail!(
            ovk("C03:encoding:parsed-ckey-entries-differ-from-inserted"),
            "inserted {n_c} ckey entries, pages hold {total_c} ({} distinct); first missing {:?}",
            scan_c.len(),
            missing
        );
    }
    let mut scan_e: BTreeMap<[u8; 16], (String, u64)> = BTreeMap::new();
    let mut total_e = 0usize;
    for p in &parsed.ekey_pages {
        for e in &p.entries {
            total_e += 1;
            let spec = parsed.espec_table.get(e.espec_index).unwrap_or("<bad espec index>").to_string();
            scan_e.insert(*e.encoding_key.as_bytes(), (spec, e.file_size));
        }
    }
    if total_e != n_e || scan_e != model.ekeys {
        let missing = model.ekeys.keys().find(|k| !scan_e.contains_key(*k)).map(|k| hex(k));
        bail!(
            "C03:encoding:parsed-ekey-entries-differ-from-inserted",
            "inserted {n_e} ekey entries, pages hold {total_e} ({} distinct); first missing {:?}",
            scan_e.len(),
            missing
        );
    }

    // ---- single lookups: positives and negatives
    let present_c: BTreeSet<Vec<u8>> = model.ckeys.keys().map(|k| k.to_vec()).collect();
    let present_e: BTreeSet<Vec<u8>> = model.ekeys.keys().map(|k| k.to_vec()).collect();
    let pc = probes(&present_c, 16, c.seed ^ 1);
    let pe = probes(&present_e, 16, c.seed ^ 2);
    for (k, (_sz, eks)) in &model.ckeys {
        let ck = ContentKey::from_bytes(*k);
        let got = parsed.find_encoding(&ck).map(|e| *e.as_bytes());
        if got != Some(eks[0]) {
            bail!(ovk("C03:encoding:find_encoding-wrong-for-inserted-key"), "ckey {} -> {:?}, inserted first ekey {}", hex(k), got.map(|g| hex(&g)), hex(&eks[0]));
        }
        let all: Vec<[u8; 16]> = parsed.find_all_encodings(&ck).iter().map(|e| *e.as_bytes()).collect();
        if &all != eks {
            bail!(ovk("C03:encoding:find_all_encodings-wrong-for-inserted-key"), "ckey {} -> {} keys, inserted {}", hex(k), all.len(), eks.len());
        }
    }
    for k in &pc.absent {
        let ck = ContentKey::from_bytes(arr16(k));
        if let Some(g) = parsed.find_encoding(&ck) {
            bail!("C03:encoding:find_encoding-finds-key-never-inserted", "ckey {} -> {}", hex(k), hex(g.as_bytes()));
        }
        if !parsed.find_all_encodings(&ck).is_empty() {
            bail!("C03:encoding:find_all_encodings-finds-key-never-inserted", "ckey {}", hex(k));
        }
    }
    for (k, (spec, _)) in &model.ekeys {
        let got = parsed.find_espec(&EncodingKey::from_bytes(*k));
        if got != Some(spec.as_str()) {
            bail!("C03:encoding:find_espec-wrong-for-inserted-key", "ekey {} -> {:?}, inserted {:?}", hex(k), got, spec);
        }
    }
    for k in &pe.absent {
        if let Some(g) = parsed.find_espec(&EncodingKey::from_bytes(arr16(k))) {
            bail!("C03:encoding:find_espec-finds-key-never-inserted", "ekey {} -> {g:?}", hex(k));
        }
    }

    // ---- batch == element-wise single (query list: positives, negatives, duplicates, shuffled)
    let mut r = Rng::new(c.seed ^ 0xba7c);
    let mut q: Vec<[u8; 16]> = model.ckeys.keys().copied().collect();
    q.extend(pc.absent.iter().map(|k| arr16(k)));
    let dup = q.len().min(8);
    for _ in 0..dup {
        let x = q[r.below(q.len() as u64) as usize];
        q.push(x);
    }
    for i in (1..q.len()).rev() {
        q.swap(i, r.below(i as u64 + 1) as usize);
    }
    let qk: Vec<ContentKey> = q.iter().map(|k| ContentKey::from_bytes(*k)).collect();
    let b1 = parsed.batch_find_encodings(&qk);
    let b2 = parsed.batch_find_all_encodings(&qk);
    if b1.len() != qk.len() || b2.len() != qk.len() {
        bail!("C03:encoding:batch-result-length-differs", "{} queries -> {} / {} results", qk.len(), b1.len(), b2.len());
    }
    for (i, k) in qk.iter().enumerate() {
        if b1[i] != parsed.find_encoding(k) {
            bail!(ovk("C03:encoding:batch_find_encodings-differs-from-single"), "ckey {} batch {:?} single {:?}", hex(k.as_bytes()), b1[i], parsed.find_encoding(k));
        }
        if b2[i] != parsed.find_all_encodings(k) {
            bail!(ovk("C03:encoding:batch_find_all_encodings-differs-from-single"), "ckey {} batch {} single {}", hex(k.as_bytes()), b2[i].len(), parsed.find_all_encodings(k).len());
        }
    }
    let mut qe: Vec<[u8; 16]> = model.ekeys.keys().copied().collect();
    qe.extend(pe.absent.iter().map(|k| arr16(k)));
    for i in (1..qe.len()).rev() {
        qe.swap(i, r.below(i as u64 + 1) as usize);
    }
    let qek: Vec<EncodingKey> = qe.iter().map(|k| EncodingKey::from_bytes(*k)).collect();
    let b3 = parsed.batch_find_especs(&qek);
    if b3.len() != qek.len() {
        bail!("C03:encoding:batch-result-length-differs", "{} queries -> {} results", qek.len(), b3.len());
    }
    for (i, k) in qek.iter().enumerate() {
        if b3[i] != parsed.find_espec(k) {
            bail!("C03:encoding:batch_find_especs-differs-from-single", "ekey {} batch {:?} single {:?}", hex(k.as_bytes()), b3[i], parsed.find_espec(k));
        }
    }
    if !parsed.batch_find_encodings(&[]).is_empty() || !parsed.batch_find_especs(&[]).is_empty() {
        bail!("C03:encoding:batch-of-nothing-not-empty", "");
    }

    let pages_c = parsed.ckey_pages.len();
    let pages_e = parsed.ekey_pages.len();
    let cap1 = (c.ckey_page_kb as usize * 1024) / 38;
    let cape = (c.ekey_page_kb as usize * 1024) / 25;
    Verdict::pass()
        .nontrivial((pages_c >= 2 || pages_e >= 2) && pc.neighbours + pe.neighbours >= 1)
        .class_if(pages_c >= 2, "ckey-pages>=2")
        .class_if(pages_e >= 2, "ekey-pages>=2")
        .class_if(pages_c >= 3, "ckey-pages>=3")
        .class_if(c.multi == 0 && n_c > 0 && n_c % cap1 == 0, "ckeys-exact-page-multiple")
        .class_if(c.multi == 0 && n_c % cap1 == 1 && n_c > 1, "ckeys-page-multiple+1")
        .class_if(n_e > 0 && n_e % cape == 0, "ekeys-exact-page-multiple")
        .class_if(n_e % cape == 1 && n_e > 1, "ekeys-page-multiple+1")
        .class_if(c.ckeys.style == 1 || c.ckeys.style == 3, "shared-prefix-keys")
        .class_if(model.ckeys.contains_key(&[0u8; 16]), "all-zero-ckey")
        .class_if(model.ckeys.contains_key(&[0xFFu8; 16]), "all-ff-ckey")
        .class_if(model.ekeys.contains_key(&[0u8; 16]), "all-zero-ekey-nonsentinel")
        .class_if(model.excluded_sentinel, "excluded-ekey-sentinel")
        .class_if(model.oversize, "oversize-entry-accepted-and-correct")
        .class_if(c.multi >= 2, "many-ekeys-per-ckey")
        .class_if(model.exact_full_page, "ckey-page-exactly-full")
        .class_if(c.blte, "via-blte")
        .class_if(empty_side, "empty-side-parsed")
}
