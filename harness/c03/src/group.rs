//! (3) Archive group: ArchiveGroupBuilder (add_archive / add_entry) and build_merged
//! over 0..=5 generated source indices with overlapping key sets (first occurrence
//! wins) -> bytes -> ArchiveGroup::parse -> find_entry vs model and linear scan.

use crate::keys::{KeySpec, gen_keys, hex, probes};
use cascette_formats::archive::{ArchiveGroup, ArchiveGroupBuilder, ArchiveGroupEntry, ArchiveIndex, ArchiveIndexBuilder, build_merged};
use serde::{Deserialize, Serialize};
use std::collections::{BTreeMap, BTreeSet};
use std::io::Cursor;
use vh_engine::Verdict;
use vh_engine::util::Rng;

/// ArchiveGroupBuilder::build derives the chunk count from bytes (ceil(26N/4096));
/// a chunk holds floor(4096/26)=157 records, so the real need is ceil(N/157).
pub const K_CHUNKS: &str = "C03:archive-group:builder-chunk-count-from-bytes-drops-tail-entries:ceil(26N/4096)<ceil(N/157)";

#[derive(Debug, Clone, Serialize, Deserialize)]
pub struct GroupCase {
    /// union of all keys (count = N of the resulting group)
    pub union: KeySpec,
    /// 0 = entries added one by one (add_entry / add_entry_with_hash_assignment); 1..=5 source indices
    pub n_sources: u8,
    /// chance (percent) that a key also occurs in each further source
    pub overlap_pct: u8,
    /// 0 = ArchiveGroupBuilder, 1 = build_merged
    pub via: u8,
    pub seed: u64,
}

pub fn band(n: usize) -> bool {
    (26 * n).div_ceil(4096) < n.div_ceil(157)
}

/// key -> (archive index, offset, size)
type Model = BTreeMap<Vec<u8>, (u16, u32, u32)>;

macro_rules! bail {
    ($k:expr, $($a:tt)*) => { return Verdict::fail($k, format!($($a)*)) };
}

pub fn check(c: &GroupCase) -> Verdict {
    let mut r = Rng::new(c.seed ^ 0x6772_70);
    let keys = gen_keys(&c.union, 16);
    let n = keys.len();
    let ns = (c.n_sources as usize).min(5);
    let via_merged = c.via == 1 && ns >= 1;
    let mut model = Model::new();
    let mut out = Cursor::new(Vec::new());
    let val = |r: &mut Rng, zero_key: bool| -> (u32, u32) {
        let off = match r.below(5) {
            0 => 0,
            1 => u32::MAX,
            _ => r.next_u64() as u32,
        };
        let mut size = match r.below(5) {
            0 => 0,
            1 => u32::MAX,
            _ => r.next_u64() as u32,
        };
        // Domain exclusion: zero key + size 0 + offset 0 is the padding record
        if zero_key && size == 0 {
            size = 1 + (r.next_u64() as u32 >> 1);
        }
        (off, size)
    };
    let mut overlapping = 0usize;
    let built: Result<ArchiveGroup, String> = if ns == 0 {
        let mut b = ArchiveGroupBuilder::new();
        for k in &keys {
            let zero = k.iter().all(|x| *x == 0);
            let (off, size) = val(&mut r, zero);
            if r.below(4) == 0 {
                // hash-assigned archive index: documented as first two bytes of MD5(key), big-endian
                let md = vh_engine::refimpl::md5::md5(k);
                let a = u16::from_be_bytes([md[0], md[1]]);
                b.add_entry_with_hash_assignment(k.clone(), off, size);
                model.insert(k.clone(), (a, off, size));
            } else {
                let a = match r.below(4) {
                    0 => 0,
                    1 => u16::MAX,
                    _ => r.next_u64() as u16,
                };
                b.add_entry(ArchiveGroupEntry::new(k.clone(), a, off, size));
                model.insert(k.clone(), (a, off, size));
            }
        }
        b.build(&mut out).map_err(|e| e.to_string())
    } else {
        // distinct archive ids, deliberately not ascending
        let mut ids: Vec<u16> = Vec::new();
        while ids.len() < ns {
            let id = match r.below(4) {
                0 => 0,
                1 => u16::MAX,
                _ => r.next_u64() as u16,
            };
            if !ids.contains(&id) {
                ids.push(id);
            }
        }
        let mut per: Vec<Vec<(Vec<u8>, u32, u32)>> = vec![Vec::new(); ns];
        for k in &keys {
            let zero = k.iter().all(|x| *x == 0);
            let primary = r.below(ns as u64) as usize;
            let mut first = true;
            for s in 0..ns {
                let here = s == primary || r.below(100) < c.overlap_pct as u64;
                if !here {
                    continue;
                }
                let (off, size) = val(&mut r, zero);
                per[s].push((k.clone(), size, off));
                if first {
                    model.insert(k.clone(), (ids[s], off, size));
                    first = false;
                } else {
                    overlapping += 1;
                }
            }
        }
        // sources are real CDN indices: built, serialised, parsed (16-byte keys, 4-byte offsets)
        let mut sources: Vec<ArchiveIndex> = Vec::new();
        for list in &per {
            let mut b = ArchiveIndexBuilder::new();
            for (k, s, o) in list {
                b.add_entry(k.clone(), *s, *o as u64);
            }
            let mut buf = Cursor::new(Vec::new());
            if let Err(e) = b.build(&mut buf) {
                bail!("C03:archive-index:builder-refused-valid-input", "source index: {e}");
            }
            match ArchiveIndex::parse(Cursor::new(buf.into_inner())) {
                Ok(i) => sources.push(i),
                Err(e) => bail!("C03:archive-index:built-file-does-not-parse", "source index with {} entries: {e}", list.len()),
            }
        }
        if via_merged {
            let refs: Vec<(u16, &ArchiveIndex)> = ids.iter().copied().zip(sources.iter()).collect();
            build_merged(&refs, &mut out).map_err(|e| e.to_string())
        } else {
            let mut b = ArchiveGroupBuilder::new();
            for (id, s) in ids.iter().zip(sources.iter()) {
                b.add_archive(*id, s);
            }
            b.build(&mut out).map_err(|e| e.to_string())
        }
    };
    let in_band = !via_merged && band(n);
    let key = |k: &'static str| if in_band { K_CHUNKS } else { k };
    let how = format!("N={n} sources={ns} via={}", if via_merged { "build_merged" } else { "ArchiveGroupBuilder" });
    if let Err(e) = built {
        bail!("C03:archive-group:builder-refused-valid-input", "{how}: {e}");
    }
    let bytes = out.into_inner();
    let parsed = match ArchiveGroup::parse(&mut Cursor::new(&bytes)) {
        Ok(p) => p,
        Err(e) => bail!(key("C03:archive-group:built-file-does-not-parse"), "{how}: {e}"),
    };
    let mut scan = Model::new();
    for e in &parsed.entries {
        scan.insert(e.encoding_key.clone(), (e.archive_index, e.offset, e.size));
    }
    if parsed.entries.len() != n || scan != model {
        let missing = model.keys().find(|k| !scan.contains_key(*k)).map(|k| hex(k));
        let wrong = model.iter().find(|(k, v)| scan.get(*k).is_some_and(|s| s != *v)).map(|(k, v)| format!("{} expected {:?} parsed {:?}", hex(k), v, scan.get(k)));
        bail!(key("C03:archive-group:parsed-entries-differ-from-inserted"), "{how}: parsed {} entries; first missing {missing:?}; first wrong {wrong:?}", parsed.entries.len());
    }
    let present: BTreeSet<Vec<u8>> = model.keys().cloned().collect();
    let pr = probes(&present, 16, c.seed ^ 4);
    for (k, v) in &model {
        match parsed.find_entry(k) {
            Some(e) if (e.archive_index, e.offset, e.size) == *v && e.encoding_key == *k => {}
            other => bail!(key("C03:archive-group:find_entry-wrong-for-inserted-key"), "{how}: key {} -> {:?}, expected {:?}", hex(k), other.map(|e| (e.archive_index, e.offset, e.size)), v),
        }
    }
    for k in &pr.absent {
        if let Some(e) = parsed.find_entry(k) {
            bail!("C03:archive-group:find_entry-finds-key-never-inserted", "{how}: probe {} -> {}", hex(k), hex(&e.encoding_key));
        }
    }
    let chunks = n.div_ceil(157);
    Verdict::pass()
        .nontrivial(chunks >= 2 && pr.neighbours >= 1)
        .class_if(chunks >= 2, "chunks>=2")
        .class_if(chunks >= 3, "chunks>=3")
        .class_if(n > 0 && n % 157 == 0, "exact-chunk-multiple")
        .class_if(n > 1 && n % 157 == 1, "chunk-multiple+1")
        .class_if(via_merged, "via-build_merged")
        .class_if(!via_merged && ns > 0, "via-builder-add_archive")
        .class_if(ns == 0, "via-builder-add_entry")
        .class_if(overlapping > 0, "overlapping-sources")
        .class_if(ns >= 3, "sources>=3")
        .class_if(band(n), "N-in-byte/record-chunk-count-band")
        .class_if(in_band, "builder-in-band-correct")
        .class_if(n == 0, "empty")
}
