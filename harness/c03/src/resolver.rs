//! (6) ContentResolver: root manifest + encoding table loaded into the resolver,
//! path / FileDataID -> content key -> encoding key, against the models of both.

use crate::keys::hex;
use crate::root::{self, RootCase};
use cascette_client_storage::resolver::ContentResolver;
use cascette_crypto::{ContentKey, EncodingKey};
use cascette_formats::encoding::{CKeyEntryData, EKeyEntryData, EncodingBuilder};
use serde::{Deserialize, Serialize};
use std::collections::{BTreeMap, BTreeSet};
use vh_engine::util::Rng;
use vh_engine::{Known, Verdict};

/// RootBuilder::add_file hashes the upper-cased, back-slashed path (as RootFile::resolve_by_path
/// does); ContentResolver::resolve_path hashes the path bytes as given.
pub const K_RAWPATH: &str = "C03:resolver:resolve_path-hashes-raw-path-while-root-hashes-normalised-path:path-not-already-upper-backslash";

#[derive(Debug, Clone, Serialize, Deserialize)]
pub struct ResCase {
    pub root: RootCase,
    /// chance (percent) that a content key of the root is present in the encoding table
    pub in_encoding_pct: u8,
    /// additional unrelated content keys in the encoding table
    pub extra_ckeys: usize,
    pub page_kb: u16,
    pub seed: u64,
}

macro_rules! bail {
    ($k:expr, $($a:tt)*) => { return Verdict::fail($k, format!($($a)*)) };
}

pub fn check(c: &ResCase, known: &Known) -> Verdict {
    let (built, model) = root::build(&c.root);
    if root::in_v2_band(&model) {
        // the V2 header ambiguity is decided by the root sections; the generator constructs around it
        return Verdict::pass().class("skipped-v2-header-band");
    }
    let root_bytes = match built {
        Ok(b) => b,
        Err(_) if model.total == 0 => return Verdict::pass().class("empty-root-refused-by-builder"),
        Err(e) => bail!("C03:root:builder-refused-valid-input", "{e}"),
    };
    let mut r = Rng::new(c.seed ^ 0x7265_73);
    // encoding table over the root's content keys
    let mut ckeys: BTreeSet<[u8; 16]> = BTreeSet::new();
    for v in model.blocks.values() {
        for rec in v {
            ckeys.insert(rec.ckey);
        }
    }
    let mut enc: BTreeMap<[u8; 16], (u64, Vec<[u8; 16]>)> = BTreeMap::new();
    let fresh = |r: &mut Rng| {
        let mut a = [0u8; 16];
        a.copy_from_slice(&r.bytes(16));
        a
    };
    for k in &ckeys {
        if r.below(100) < c.in_encoding_pct as u64 {
            let n = 1 + r.below(3) as usize;
            let eks: Vec<[u8; 16]> = (0..n).map(|_| fresh(&mut r)).collect();
            enc.insert(*k, (r.below(1 << 40), eks));
        }
    }
    let mut extra = c.extra_ckeys;
    if enc.is_empty() && extra == 0 {
        extra = 1; // a table without CKey pages is not representable
    }
    for _ in 0..extra {
        let k = fresh(&mut r);
        if !ckeys.contains(&k) {
            let e = fresh(&mut r);
            enc.insert(k, (r.below(1 << 32), vec![e]));
        }
    }
    let mut b = EncodingBuilder::new().with_page_sizes(c.page_kb.clamp(1, 4), 4);
    let mut order: Vec<&[u8; 16]> = enc.keys().collect();
    for i in (1..order.len()).rev() {
        order.swap(i, r.below(i as u64 + 1) as usize);
    }
    let mut seen_e: BTreeSet<[u8; 16]> = BTreeSet::new();
    for k in order {
        let (sz, eks) = &enc[k];
        b.add_ckey_entry(CKeyEntryData { content_key: ContentKey::from_bytes(*k), file_size: *sz, encoding_keys: eks.iter().map(|e| EncodingKey::from_bytes(*e)).collect() });
        for e in eks {
            if seen_e.insert(*e) {
                b.add_ekey_entry(EKeyEntryData { encoding_key: EncodingKey::from_bytes(*e), espec: "z".into(), file_size: *sz / 2 });
            }
        }
    }
    let enc_bytes = match b.build().and_then(|f| f.build()) {
        Ok(x) => x,
        Err(e) => bail!("C03:encoding:builder-refused-valid-input", "{e}"),
    };
    let res = ContentResolver::new();
    if let Err(e) = res.load_root_file(&root_bytes) {
        bail!("C03:resolver:load_root_file-refuses-built-root", "V{} total={} named={}: {e}", c.root.version, model.total, model.named);
    }
    if let Err(e) = res.load_encoding_file(&enc_bytes) {
        bail!("C03:resolver:load_encoding_file-refuses-built-table", "{} ckeys: {e}", enc.len());
    }
    let enc_first = |k: &[u8; 16]| enc.get(k).map(|(_, e)| e[0]);
    let how = format!("V{} total={} named={} enc={}", c.root.version.clamp(1, 4), model.total, model.named, enc.len());
    let mut verdict_known: Vec<String> = Vec::new();
    let all_hashes: BTreeSet<u64> = model.blocks.values().flatten().filter_map(|r| r.hash).collect();
    let ids: BTreeSet<u32> = model.files.iter().map(|f| f.fdid).collect();
    let mut chain_hits = 0usize;
    let mut chain_miss = 0usize;
    let mut neg = 0usize;
    for f in &model.files {
        let allowed: Vec<[u8; 16]> = model.blocks.values().flatten().filter(|r| r.fdid == f.fdid).map(|r| r.ckey).collect();
        let got = res.resolve_file_data_id(f.fdid).map(|k| *k.as_bytes());
        match got {
            Some(g) if allowed.contains(&g) => {}
            _ => bail!("C03:resolver:resolve_file_data_id-differs-from-inserted", "{how}: fdid {} -> {:?}; inserted {} records", f.fdid, got.map(|g| hex(&g)), allowed.len()),
        }
        let want_e = got.and_then(|g| enc_first(&g));
        let got_e = res.resolve_fdid_to_encoding(f.fdid).map(|k| *k.as_bytes());
        if got_e != want_e {
            bail!("C03:resolver:resolve_fdid_to_encoding-breaks-chain", "{how}: fdid {} -> {:?}, chain says {:?}", f.fdid, got_e.map(|g| hex(&g)), want_e.map(|g| hex(&g)));
        }
        if want_e.is_some() {
            chain_hits += 1;
        } else {
            chain_miss += 1;
        }
        if c.root.explicit_hash {
            continue;
        }
        let allowed_p: Vec<[u8; 16]> = model.blocks.values().flatten().filter(|r| r.hash == Some(f.hash)).map(|r| r.ckey).collect();
        let norm = root::normalize(&f.path);
        for (spelling, p) in [("normalised", norm.clone()), ("inserted", f.path.clone())] {
            let got_p = res.resolve_path(&p).map(|k| *k.as_bytes());
            let ok = match got_p {
                None => allowed_p.is_empty(),
                Some(g) => allowed_p.contains(&g),
            };
            if !ok {
                if spelling == "inserted" && p != norm && got_p.is_none() {
                    // same path, the spelling it was inserted with: RootBuilder::add_file(.., Some(p), ..)
                    if known.is_open(K_RAWPATH) {
                        if verdict_known.is_empty() {
                            verdict_known.push(K_RAWPATH.to_string());
                        }
                        continue;
                    }
                    bail!(K_RAWPATH, "{how}: add_file(.., Some({p:?}), ..) then resolve_path({p:?}) -> None; resolve_path({norm:?}) finds it");
                }
                bail!("C03:resolver:resolve_path-differs-from-inserted", "{how}: {spelling} spelling {p:?} -> {:?}; inserted {} named records", got_p.map(|g| hex(&g)), allowed_p.len());
            }
            // asked twice (path cache) -> same answer
            if res.resolve_path(&p).map(|k| *k.as_bytes()) != got_p {
                bail!("C03:resolver:resolve_path-second-answer-differs", "{how}: {p:?}");
            }
            let want_pe = got_p.and_then(|g| enc_first(&g));
            let got_pe = res.resolve_path_to_encoding(&p).map(|k| *k.as_bytes());
            if got_pe != want_pe {
                bail!("C03:resolver:resolve_path_to_encoding-breaks-chain", "{how}: {p:?} -> {:?}, chain says {:?}", got_pe.map(|g| hex(&g)), want_pe.map(|g| hex(&g)));
            }
            let info = res.get_file_info(&p);
            match (info, got_p, want_pe) {
                (None, _, None) => {}
                (Some(i), Some(ck), Some(ek)) if *i.content_key.as_bytes() == ck && *i.encoding_key.as_bytes() == ek && Some(i.size) == enc.get(&ck).map(|x| x.0) => {}
                (i, _, _) => bail!("C03:resolver:get_file_info-differs-from-chain", "{how}: {p:?} -> {:?}", i.map(|i| (i.content_key.to_hex(), i.encoding_key.to_hex(), i.size))),
            }
        }
        let px = format!("{norm}X");
        if !all_hashes.contains(&root::raw_hash(&px)) {
            neg += 1;
            if let Some(k) = res.resolve_path(&px) {
                bail!("C03:resolver:resolve_path-finds-path-never-inserted", "{how}: {px:?} -> {}", hex(k.as_bytes()));
            }
        }
    }
    for f in &model.files {
        for p in [f.fdid.checked_add(1), f.fdid.checked_sub(1)].into_iter().flatten() {
            if ids.contains(&p) {
                continue;
            }
            neg += 1;
            if let Some(k) = res.resolve_file_data_id(p) {
                bail!("C03:resolver:resolve_file_data_id-finds-id-never-inserted", "{how}: fdid {p} -> {}", hex(k.as_bytes()));
            }
            if res.resolve_fdid_to_encoding(p).is_some() {
                bail!("C03:resolver:resolve_fdid_to_encoding-finds-id-never-inserted", "{how}: fdid {p}");
            }
        }
    }
    // content key -> encoding key / size, positives and negatives
    for k in ckeys.iter().chain(enc.keys()) {
        let ck = ContentKey::from_bytes(*k);
        let got = res.resolve_content_key(&ck).map(|e| *e.as_bytes());
        if got != enc_first(k) {
            bail!("C03:resolver:resolve_content_key-differs-from-inserted", "{how}: ckey {} -> {:?}, inserted {:?}", hex(k), got.map(|g| hex(&g)), enc_first(k).map(|g| hex(&g)));
        }
        if res.get_content_size(&ck) != enc.get(k).map(|x| x.0) {
            bail!("C03:resolver:get_content_size-differs-from-inserted", "{how}: ckey {} -> {:?}, inserted {:?}", hex(k), res.get_content_size(&ck), enc.get(k).map(|x| x.0));
        }
        for nb in [crate::keys::succ(k), crate::keys::pred(k)].into_iter().flatten() {
            let a = crate::keys::arr16(&nb);
            if enc.contains_key(&a) {
                continue;
            }
            neg += 1;
            if res.resolve_content_key(&ContentKey::from_bytes(a)).is_some() || res.get_content_size(&ContentKey::from_bytes(a)).is_some() {
                bail!("C03:resolver:resolve_content_key-finds-key-never-inserted", "{how}: ckey {}", hex(&a));
            }
        }
    }
    let mut v = Verdict::pass()
        .nontrivial(model.blocks.len() >= 2 && chain_hits >= 1 && neg >= 1)
        .class_if(chain_hits > 0, "chain-resolves")
        .class_if(chain_miss > 0, "ckey-absent-from-encoding")
        .class_if(model.blocks.len() >= 2, "blocks>=2")
        .class_if(!c.root.normalized_paths && !c.root.explicit_hash && model.named > 0, "paths-not-pre-normalised")
        .class_if(c.root.normalized_paths, "paths-pre-normalised")
        .class_if(c.root.version == 1, "V1")
        .class_if(c.root.version == 2, "V2")
        .class_if(c.root.version == 3, "V3")
        .class_if(c.root.version >= 4, "V4");
    v.known_hits = verdict_known;
    v
}
