//! C01 — BLTE encode/decode is the identity on content, and the chunk table is
//! truthful. Builder programs + free constructors; identity oracle through the
//! repo decoder and through an independent decoder that also audits the table.

mod decoder;
mod oracle;
mod program;

use cascette_formats::CascFormat;
use cascette_formats::blte::{BlteFile, ChunkData};
use program::*;
use proptest::prelude::*;
use serde::{Deserialize, Serialize};
use vh_engine::{Check, Known, Section, Verdict};

// ---------------------------------------------------------------- generators

fn mode() -> impl Strategy<Value = M> {
    prop_oneof![10 => Just(M::N), 10 => Just(M::Z), 10 => Just(M::L4), 1 => Just(M::E), 1 => Just(M::F)]
}

fn mode_nz4() -> impl Strategy<Value = M> {
    prop_oneof![Just(M::N), Just(M::Z), Just(M::L4)]
}

fn pclass() -> impl Strategy<Value = PClass> {
    prop_oneof![
        4 => Just(PClass::Random),
        2 => Just(PClass::Run),
        2 => Just(PClass::Pattern),
        3 => proptest::sample::select(b"NZ4EF".to_vec()).prop_map(PClass::FirstByte),
        1 => Just(PClass::NestedBlte),
        1 => Just(PClass::LooksEncrypted),
    ]
}

fn len(cap: usize) -> impl Strategy<Value = Len> {
    prop_oneof![
        2 => Just(Len::Abs(0)),
        2 => Just(Len::Abs(1)),
        4 => (2usize..64).prop_map(Len::Abs),
        3 => (64usize..2048).prop_map(Len::Abs),
        2 => (2048usize..=cap).prop_map(Len::Abs),
        7 => (prop_oneof![4 => Just(1u8), 3 => 2u8..6, 1 => Just(0u8), 1 => 6u8..40], proptest::sample::select(vec![-1i8, 0, 1]))
            .prop_map(|(k, delta)| Len::Chunk { k, delta }),
    ]
}

fn payload(cap: usize) -> impl Strategy<Value = Payload> {
    (len(cap), pclass(), any::<u64>()).prop_map(|(len, class, content_seed)| Payload { len, class, content_seed })
}

fn spec() -> impl Strategy<Value = Spec> {
    (
        prop_oneof![
            18 => Just(Cipher::Salsa20),
            6 => Just(Cipher::Arc4),
            1 => proptest::sample::select(vec![b's', b'a', 0u8, b'E', b'N', b'Z', 0xffu8, b'S', b'A']).prop_map(Cipher::Other),
        ],
        any::<u16>(),
        prop_oneof![1 => Just([0u8; 4]), 1 => Just([0xffu8; 4]), 4 => any::<[u8; 4]>()],
    )
        .prop_map(|(cipher, key_ix, iv)| Spec { cipher, key_ix, iv })
}

fn key_entry() -> impl Strategy<Value = KeyEntry> {
    (
        prop_oneof![
            1 => Just(0u64),
            1 => Just(u64::MAX),
            1 => Just(0xFA50_5078_126A_CB3Eu64), // a name the built-in store also knows
            1 => 1u64..4,
            4 => any::<u64>(),
        ],
        prop_oneof![1 => Just([0u8; 16]), 5 => any::<[u8; 16]>()],
    )
        .prop_map(|(name, key)| KeyEntry { name, key })
}

fn config_op() -> impl Strategy<Value = Op> {
    prop_oneof![
        20 => mode().prop_map(Op::Compression),
        40 => proptest::sample::select(vec![1024usize, 1025, 1500, 2048, 4096, 16 * 1024, 16 * 1024 * 1024]).prop_map(Op::ChunkSize),
        1 => proptest::sample::select(vec![0usize, 1, 512, 1023, 16 * 1024 * 1024 + 1]).prop_map(Op::ChunkSize),
        50 => proptest::sample::select(vec![1usize, 2, 3, 5, 16, 64, 255, 256, 1024, 4096]).prop_map(Op::ChunkSizeUnchecked),
        24 => spec().prop_map(Op::Encryption),
        12 => Just(Op::NoEncryption),
    ]
}

fn data_op(cap: usize) -> impl Strategy<Value = Op> {
    prop_oneof![
        6 => payload(cap).prop_map(Op::AddData),
        3 => (payload(cap), proptest::option::weighted(0.6, spec())).prop_map(|(p, s)| Op::AddMixed(p, s)),
        2 => (payload(cap), spec()).prop_map(|(p, s)| Op::AddEncrypted(p, s)),
        2 => (payload(cap), mode()).prop_map(|(p, m)| Op::AddChunk(p, m)),
        1 => (payload(cap), spec()).prop_map(|(p, s)| Op::AddPrebuiltEncrypted(p, s)),
    ]
}

fn program(cap: usize) -> impl Strategy<Value = Program> {
    (
        proptest::collection::vec(key_entry(), 1..=3),
        any::<bool>(),
        proptest::collection::vec(config_op(), 0..4),
        prop_oneof![
            1 => proptest::collection::vec((data_op(cap), proptest::collection::vec(config_op(), 0..3)), 0..=0),
            40 => proptest::collection::vec((data_op(cap), proptest::collection::vec(config_op(), 0..3)), 1..=8),
        ],
    )
        .prop_map(move |(keys, builtin_store, prefix, body)| {
            let mut ops = prefix;
            for (d, cfg) in body {
                ops.push(d);
                ops.extend(cfg);
            }
            Program { keys, builtin_store, cap, ops }
        })
}

/// The free constructors of `BlteFile`.
#[derive(Debug, Clone, Serialize, Deserialize)]
enum Free {
    Single { payload: Payload, mode: M },
    Multi { parts: Vec<(Payload, M)> },
    /// chunk_size >= 1 (0 makes no progress and is outside the domain)
    Compress { payload: Payload, chunk_size: usize, mode: M },
}

#[derive(Debug, Clone, Serialize, Deserialize)]
struct FreeCase {
    /// payload length cap in bytes (part of the case so a replay is self-contained)
    cap: usize,
    call: Free,
}

fn free(cap: usize) -> impl Strategy<Value = FreeCase> {
    free_call(cap).prop_map(move |call| FreeCase { cap, call })
}

fn free_call(cap: usize) -> impl Strategy<Value = Free> {
    prop_oneof![
        2 => (payload(cap), mode()).prop_map(|(payload, mode)| Free::Single { payload, mode }),
        3 => proptest::collection::vec((payload(cap), mode_nz4()), 0..=8).prop_map(|parts| Free::Multi { parts }),
        1 => proptest::collection::vec((payload(cap), mode()), 1..=4).prop_map(|parts| Free::Multi { parts }),
        4 => (payload(cap), proptest::sample::select(vec![1usize, 2, 3, 7, 64, 255, 256, 1000, 1024, 4096, 65536]), mode_nz4())
            .prop_map(|(payload, chunk_size, mode)| Free::Compress { payload, chunk_size, mode }),
    ]
}

// ---------------------------------------------------------------- oracle glue

/// `known`: open findings; `replay`: single-case replay mode, where a listed
/// finding must surface as the failure (the engine then prints KNOWN-FINDING)
/// instead of being stepped over.
#[derive(Clone)]
struct Ctx {
    known: Known,
    replay: bool,
}

fn verdict_from(j: oracle::Judged, m: &Model, ctx: &Ctx) -> Verdict {
    let known = &ctx.known;
    let mut v = Verdict::pass().nontrivial(m.data_calls >= 2 || j.n_chunks >= 2 || j.any_encrypted);
    for c in &m.classes {
        v = v.class(c);
    }
    for c in &j.classes {
        v = v.class(c);
    }
    v = v.class_if(m.data_calls >= 2, "data-calls>=2").class_if(!j.any_encrypted && j.n_chunks >= 2, "plain-multi-chunk");
    // one class / known-hit per distinct label
    v.classes.sort_unstable();
    v.classes.dedup();
    let mut first_known: Option<oracle::Finding> = None;
    for f in j.findings {
        if known.is_open(&f.key) {
            // listed defect: keep searching behind it
            if first_known.is_none() {
                first_known = Some(f.clone());
            }
            if !v.known_hits.contains(&f.key) {
                v.known_hits.push(f.key);
            }
        } else if v.fail.is_none() {
            v = v.with_fail(f.key, f.msg);
        }
    }
    if ctx.replay && v.fail.is_none() {
        if let Some(f) = first_known {
            v.known_hits.clear();
            v = v.with_fail(f.key, f.msg);
        }
    }
    v
}

fn refused(what: &'static str, m: &Model) -> Verdict {
    let mut v = Verdict::pass().class("refused").class(what);
    for c in &m.classes {
        v = v.class(c);
    }
    v.classes.sort_unstable();
    v.classes.dedup();
    v
}

fn check_program(p: &Program, known: &Ctx) -> Verdict {
    let keys = resolve_keys(p);
    let (built, m) = interpret(p, &keys.map);
    let file = match built {
        Built::Refused(what, _msg) => return refused(what, &m),
        Built::Ok(f) => f,
    };
    let bytes = match CascFormat::build(&file) {
        Ok(b) => b,
        Err(_) => return refused("refused:CascFormat::build", &m),
    };
    let mut j = oracle::judge(&bytes, &m, &keys.map, &keys.store);
    // the same chunks behind the extended chunk table (flags 0x10: 40-byte entries with the MD5 of
    // the decoded chunk), as `BlteHeader::multi_chunk_extended` writes it
    if j.findings.is_empty() && !file.header.is_single_chunk() {
        if let Ok(h) = cascette_formats::blte::BlteHeader::multi_chunk_extended(&file.chunks) {
            let ext = BlteFile { header: h, chunks: file.chunks.clone() };
            if let Ok(b2) = CascFormat::build(&ext) {
                let mut j2 = oracle::judge(&b2, &m, &keys.map, &keys.store);
                for f in &mut j2.findings {
                    f.key = f.key.replacen("C01:", "C01:extended-table:", 1);
                }
                j.findings.extend(j2.findings);
                j.classes.push("also-behind-extended-table");
            }
        }
    }
    verdict_from(j, &m, known)
}

fn check_free(fc: &FreeCase, known: &Ctx) -> Verdict {
    let (c, cap) = (&fc.call, fc.cap);
    let mut m = Model::default();
    let push = |m: &mut Model, data: &[u8], pieces: Vec<(usize, usize)>| {
        let base = m.expected.len();
        m.expected.extend_from_slice(data);
        let call = m.data_calls;
        m.data_calls += 1;
        for (local_ix, (s, e)) in pieces.into_iter().enumerate() {
            m.chunks.push(MChunk { call, kind: CallKind::Free, local_ix, range: (base + s, base + e), enc_from_builder: false });
        }
    };
    let built = match c {
        Free::Single { payload, mode } => {
            let n = payload.resolve_len(1024, cap);
            let d = payload.bytes(n);
            push(&mut m, &d, vec![(0, n)]);
            m.classes.push("free:single_chunk");
            BlteFile::single_chunk(d, mode.real())
        }
        Free::Multi { parts } => {
            m.classes.push("free:multi_chunk");
            let mut chunks = Vec::new();
            for (pl, mode) in parts {
                let n = pl.resolve_len(1024, cap);
                let d = pl.bytes(n);
                push(&mut m, &d, vec![(0, n)]);
                match ChunkData::new(d, mode.real()) {
                    Ok(c) => chunks.push(c),
                    Err(_) => return refused("refused:ChunkData::new", &m),
                }
            }
            BlteFile::multi_chunk(chunks)
        }
        Free::Compress { payload, chunk_size, mode } => {
            let cs = (*chunk_size).max(1);
            let n = payload.resolve_len(cs, cap);
            let d = payload.bytes(n);
            let mut ps = Vec::new();
            if n <= cs {
                ps.push((0, n));
            } else {
                let mut o = 0;
                while o < n {
                    ps.push((o, (o + cs).min(n)));
                    o = (o + cs).min(n);
                }
            }
            if n == cs {
                m.classes.push("len==chunk");
            }
            if n == cs + 1 {
                m.classes.push("len==chunk+1");
            }
            if n + 1 == cs {
                m.classes.push("len==chunk-1");
            }
            push(&mut m, &d, ps);
            m.data_calls = 1;
            m.classes.push("free:compress");
            BlteFile::compress(&d, cs, mode.real())
        }
    };
    let file = match built {
        Ok(f) => f,
        Err(_) => return refused("refused:free-constructor", &m),
    };
    let bytes = match CascFormat::build(&file) {
        Ok(b) => b,
        Err(_) => return refused("refused:CascFormat::build", &m),
    };
    let keys = decoder::KeyMap::new();
    let store = cascette_crypto::TactKeyStore::empty();
    let j = oracle::judge(&bytes, &m, &keys, &store);
    // for the free constructors "non-trivial" is >= 2 chunks (a call is one constructor call)
    let mut v = verdict_from(j, &m, known);
    if matches!(c, Free::Multi { .. }) {
        v.nontrivial = m.chunks.len() >= 2;
    }
    v
}

fn main() {
    let mut ck = Check::from_args("C01", "exploration");
    let tier = ck.tier;
    let cap = tier.pick(32 * 1024, 1024 * 1024);
    ck.extra(
        "rule",
        "builder programs: 0-3 config calls, then 0-8 data calls (add_data / add_mixed_data / add_encrypted_data / add_chunk) each followed by 0-2 \
         config calls (with_compression, with_chunk_size[_unchecked], with_encryption, without_encryption), then build(); plus \
         BlteFile::{single_chunk,multi_chunk,compress}. Payload = (length rule, class, content_seed); expected = concatenation of payloads. \
         An Err from any encoder call = refused (allowed, counted in class 'refused'). Non-trivial = >=2 data calls, or >=2 chunks in the \
         container, or any encrypted chunk; distinct by case hash"
            .into(),
    );
    ck.extra("payload_cap_bytes", cap.into());
    ck.assume("flate2 (zlib) and lz4_flex (LZ4 block) are trusted codecs shared by the code under test and the independent decoder");
    ck.assume("reference Salsa20/RC4/MD5 in vh_engine::refimpl are correct (self-test with published vectors runs first)");
    ck.assume(
        "ARC4 chunks are keyed with the raw 16-byte key (the only keying the repo documents); the format docs define IV/chunk-index mixing for Salsa20 only",
    );
    ck.assume(
        "automatic chunking rule (one chunk if len <= chunk_size, else consecutive chunk_size pieces) is taken from the rustdoc and the repo's own \
         tests; it is what lets a caller supply add_encrypted_data's block_index",
    );
    ck.assume("chunk_size 0 (with_chunk_size_unchecked(0), BlteFile::compress(_, 0, _)) is outside the domain: the split loop cannot make progress");
    let bad = vh_engine::refimpl::self_test();
    if !bad.is_empty() {
        for b in bad {
            ck.infra(format!("reference self-test failed: {b}"));
        }
        ck.finish();
    }
    let known = Ctx { known: ck.known().clone(), replay: ck.is_replay() };

    let k1 = known.clone();
    ck.run(
        Section::pbt("builder-programs", tier.pick(24_000, 400_000), move || program(cap).boxed(), move |p: &Program| check_program(p, &k1))
            .shards(16),
    );
    let k2 = known.clone();
    ck.run(
        Section::pbt("free-constructors", tier.pick(6_000, 100_000), move || free(cap).boxed(), move |c: &FreeCase| check_free(c, &k2)).shards(8),
    );
    // Large, highly compressible chunks: deflate reaches ~1030:1 and LZ4 ~250:1 on constant data, which
    // only shows with chunks far above the 256 KiB default. Deterministic grid, both tiers.
    let big_cap = 8 * 1024 * 1024;
    let k3 = known.clone();
    ck.run(
        Section::enumerate(
            "large-compressible-free",
            "grid: BlteFile::single_chunk and BlteFile::compress(chunk 16 MiB) of 300 KiB, 700 KiB, 1 MiB, 1 MiB + 1, 4 MiB and 8 MiB of one repeated byte / a short repeating pattern, modes Z and LZ4",
            move || Box::new(big_payloads().into_iter().flat_map(move |(payload, mode)| {
                [
                    FreeCase { cap: big_cap, call: Free::Single { payload: payload.clone(), mode } },
                    FreeCase { cap: big_cap, call: Free::Compress { payload, chunk_size: 16 * 1024 * 1024, mode } },
                ]
            })),
            move |c: &FreeCase| check_free(c, &k3),
        )
        .shards(8),
    );
    let k4 = known.clone();
    ck.run(
        Section::enumerate(
            "large-compressible-builder",
            "grid: the same payloads through BlteBuilder with chunk size 16 MiB: add_data plain, add_data under with_encryption (Salsa20 / ARC4, compressed inner block), add_encrypted_data, and followed by a second small add_data",
            move || Box::new(big_payloads().into_iter().flat_map(move |(payload, mode)| {
                let keys = vec![KeyEntry { name: 0x1122_3344_5566_7788, key: [7u8; 16] }];
                let spec = |cipher| Spec { cipher, key_ix: 0, iv: [1, 2, 3, 4] };
                let small = Payload { len: Len::Abs(100), class: PClass::Random, content_seed: 5 };
                let head = vec![Op::ChunkSize(16 * 1024 * 1024), Op::Compression(mode)];
                let mk = |tail: Vec<Op>| Program { keys: keys.clone(), builtin_store: false, cap: big_cap, ops: head.iter().cloned().chain(tail).collect() };
                vec![
                    mk(vec![Op::AddData(payload.clone())]),
                    mk(vec![Op::Encryption(spec(Cipher::Salsa20)), Op::AddData(payload.clone())]),
                    mk(vec![Op::Encryption(spec(Cipher::Arc4)), Op::AddData(payload.clone())]),
                    mk(vec![Op::AddEncrypted(payload.clone(), spec(Cipher::Salsa20))]),
                    mk(vec![Op::AddData(payload.clone()), Op::AddData(small.clone())]),
                    mk(vec![Op::AddData(small), Op::AddMixed(payload, Some(spec(Cipher::Salsa20)))]),
                ]
            })),
            move |p: &Program| check_program(p, &k4),
        )
        .shards(8),
    );
    // Chunks filled to the largest size the builder accepts, with data that does not shrink: the
    // stored chunk is larger than its payload (mode byte, encryption header, zlib / LZ4 framing)
    let k6 = known.clone();
    ck.run(
        Section::enumerate(
            "full-size-chunks",
            "builder with chunk size 16 MiB and 16 MiB + 5 / 32 MiB of incompressible data: mode N, Z, LZ4, plain and under with_encryption (Salsa20), and chunk size 16 MiB - 1".to_string(),
            move || {
                let keys = vec![KeyEntry { name: 0x1122_3344_5566_7788, key: [7u8; 16] }];
                let spec = Spec { cipher: Cipher::Salsa20, key_ix: 0, iv: [1, 2, 3, 4] };
                let mut v = Vec::new();
                for (i, (cs, n)) in [(16usize << 20, (16usize << 20) + 5), (16 << 20, 32 << 20), ((16 << 20) - 1, (16 << 20) + 5)].into_iter().enumerate() {
                    for mode in [M::N, M::Z, M::L4] {
                        for enc in [false, true] {
                            let mut ops = vec![Op::ChunkSize(cs), Op::Compression(mode)];
                            if enc {
                                ops.push(Op::Encryption(spec.clone()));
                            }
                            ops.push(Op::AddData(Payload { len: Len::Abs(n), class: PClass::Random, content_seed: 77 + i as u64 }));
                            v.push(Program { keys: keys.clone(), builtin_store: false, cap: 40 << 20, ops });
                        }
                    }
                }
                Box::new(v.into_iter())
            },
            move |p: &Program| check_program(p, &k6),
        )
        .shards(9),
    );
    // Chunk counts around 2^16 (the count is a 24-bit field) and a lone pre-built encrypted chunk
    let k5 = known.clone();
    ck.run(
        Section::enumerate(
            "many-chunks-and-lone-prebuilt",
            "builder with chunk size 1 and 65 535 / 65 536 / 65 537 / 70 000 one-byte chunks (add_data in pieces of 400); a builder whose only chunk is a pre-built encrypted chunk (Salsa20 / ARC4, payload 0 / 1 / 100 bytes), alone and followed by a plain chunk".to_string(),
            move || {
                let keys = vec![KeyEntry { name: 0x0102_0304_0506_0708, key: [9u8; 16] }];
                let mut v = Vec::new();
                for total in [65_535usize, 65_536, 65_537, 70_000] {
                    let mut ops = vec![Op::ChunkSizeUnchecked(1)];
                    let mut left = total;
                    let mut i = 0u64;
                    while left > 0 {
                        let n = left.min(400);
                        ops.push(Op::AddData(Payload { len: Len::Abs(n), class: PClass::Random, content_seed: i }));
                        left -= n;
                        i += 1;
                    }
                    v.push(Program { keys: keys.clone(), builtin_store: false, cap: 1 << 20, ops });
                }
                for cipher in [Cipher::Salsa20, Cipher::Arc4] {
                    for n in [0usize, 1, 100] {
                        let pl = Payload { len: Len::Abs(n), class: PClass::Random, content_seed: n as u64 };
                        let sp = Spec { cipher, key_ix: 0, iv: [4, 3, 2, 1] };
                        v.push(Program { keys: keys.clone(), builtin_store: false, cap: 1 << 20, ops: vec![Op::AddPrebuiltEncrypted(pl.clone(), sp)] });
                        v.push(Program { keys: keys.clone(), builtin_store: false, cap: 1 << 20, ops: vec![Op::AddPrebuiltEncrypted(pl.clone(), sp), Op::AddData(pl.clone())] });
                        v.push(Program { keys: keys.clone(), builtin_store: false, cap: 1 << 20, ops: vec![Op::AddData(pl.clone()), Op::AddPrebuiltEncrypted(pl, sp)] });
                    }
                }
                Box::new(v.into_iter())
            },
            move |p: &Program| check_program(p, &k5),
        )
        .shards(8),
    );
    ck.finish();
}

fn big_payloads() -> Vec<(Payload, M)> {
    let mut v = Vec::new();
    for n in [300 * 1024, 700 * 1024, 1024 * 1024, 1024 * 1024 + 1, 4 * 1024 * 1024, 8 * 1024 * 1024] {
        for class in [PClass::Run, PClass::Pattern] {
            for (i, mode) in [M::Z, M::L4].into_iter().enumerate() {
                v.push((Payload { len: Len::Abs(n), class, content_seed: (n as u64) ^ (i as u64) }, mode));
            }
        }
    }
    v
}
