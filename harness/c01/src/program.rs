//! Builder programs: the case type, its interpretation against the real
//! `BlteBuilder`, and the harness-side model (expected bytes, expected chunk
//! layout, which call produced which chunk).

use crate::decoder::{self, KeyMap};
use cascette_crypto::{TactKey, TactKeyStore};
use cascette_formats::blte::{BlteBuilder, BlteFile, ChunkData, CompressionMode, EncryptionSpec};
use serde::{Deserialize, Serialize};
use vh_engine::pick_idx;
use vh_engine::util::Rng;

/// Compression mode argument. E and F are accepted by the type but are not
/// "compression modes" of the property; they are generated rarely and must
/// simply be refused (or be harmless).
#[derive(Debug, Clone, Copy, Serialize, Deserialize, PartialEq, Eq)]
pub enum M {
    N,
    Z,
    L4,
    E,
    F,
}

impl M {
    #[allow(deprecated)]
    pub fn real(self) -> CompressionMode {
        match self {
            M::N => CompressionMode::None,
            M::Z => CompressionMode::ZLib,
            M::L4 => CompressionMode::LZ4,
            M::E => CompressionMode::Encrypted,
            M::F => CompressionMode::Frame,
        }
    }
}

#[derive(Debug, Clone, Copy, Serialize, Deserialize, PartialEq, Eq)]
pub enum PClass {
    /// incompressible
    Random,
    /// one repeated byte
    Run,
    /// short repeating pattern
    Pattern,
    /// first byte is the given mode letter, rest random or compressible (seed decides)
    FirstByte(u8),
    /// the payload is itself a BLTE container
    NestedBlte,
    /// looks like the body of an encrypted chunk (key-name length 8, …)
    LooksEncrypted,
}

#[derive(Debug, Clone, Copy, Serialize, Deserialize, PartialEq, Eq)]
pub enum Len {
    Abs(usize),
    /// k * current_chunk_size + delta
    Chunk { k: u8, delta: i8 },
}

#[derive(Debug, Clone, Serialize, Deserialize)]
pub struct Payload {
    pub len: Len,
    pub class: PClass,
    pub content_seed: u64,
}

/// upper bound on chunks a single call may produce (keeps tiny chunk sizes cheap)
pub const MAX_CHUNKS_PER_CALL: usize = 400;

impl Payload {
    pub fn resolve_len(&self, chunk_size: usize, cap: usize) -> usize {
        let n = match self.len {
            Len::Abs(n) => n,
            Len::Chunk { k, delta } => {
                let base = (k as usize).saturating_mul(chunk_size);
                if delta < 0 { base.saturating_sub((-(delta as i64)) as usize) } else { base.saturating_add(delta as usize) }
            }
        };
        n.min(cap).min(chunk_size.saturating_mul(MAX_CHUNKS_PER_CALL))
    }

    pub fn bytes(&self, len: usize) -> Vec<u8> {
        let mut r = Rng::new(self.content_seed);
        match self.class {
            PClass::Random => r.bytes(len),
            PClass::Run => {
                let b = [0u8, 0xff, b'N', 0x78][r.below(4) as usize];
                vec![b; len]
            }
            PClass::Pattern => {
                let period = 1 + r.below(37) as usize;
                let pat = r.bytes(period);
                (0..len).map(|i| pat[i % period]).collect()
            }
            PClass::FirstByte(b) => {
                let mut v = if r.below(2) == 0 { r.bytes(len) } else { vec![r.below(256) as u8; len] };
                if let Some(f) = v.first_mut() {
                    *f = b;
                }
                v
            }
            PClass::NestedBlte => {
                // a well-formed container of exactly `len` bytes when len allows, else its prefix
                let table = r.below(2) == 0;
                let overhead = if table { 12 + 48 + 2 } else { 9 };
                let inner = len.saturating_sub(overhead);
                let data = r.bytes(inner);
                let cut = if inner == 0 { 0 } else { r.below(inner as u64 + 1) as usize };
                let mut v = if table {
                    decoder::make_container(&[&data[..cut], &data[cut..]], true)
                } else {
                    decoder::make_container(&[&data], false)
                };
                v.truncate(len);
                v
            }
            PClass::LooksEncrypted => {
                let mut v = vec![8u8];
                v.extend_from_slice(&r.bytes(8));
                v.push(4);
                v.extend_from_slice(&r.bytes(4));
                v.push(if r.below(2) == 0 { b'S' } else { b'A' });
                v.extend_from_slice(&r.bytes(len.saturating_sub(15)));
                v.truncate(len);
                v
            }
        }
    }
}

#[derive(Debug, Clone, Copy, Serialize, Deserialize, PartialEq, Eq)]
pub enum Cipher {
    Salsa20,
    Arc4,
    /// a spec written as a struct literal (all fields are public) with a type byte that is
    /// neither 'S' nor 'A': the encoder must refuse it, or the container must still decode
    Other(u8),
}

#[derive(Debug, Clone, Copy, Serialize, Deserialize)]
pub struct Spec {
    pub cipher: Cipher,
    /// index into `Program::keys` (monotone `pick_idx`)
    pub key_ix: u16,
    pub iv: [u8; 4],
}

#[derive(Debug, Clone, Copy, Serialize, Deserialize)]
pub struct KeyEntry {
    pub name: u64,
    pub key: [u8; 16],
}

#[derive(Debug, Clone, Serialize, Deserialize)]
pub enum Op {
    Compression(M),
    /// validated setter; out-of-range sizes must be refused
    ChunkSize(usize),
    ChunkSizeUnchecked(usize),
    Encryption(Spec),
    NoEncryption,
    AddData(Payload),
    AddMixed(Payload, Option<Spec>),
    /// block_index argument = the true global chunk index (tracked by the harness)
    AddEncrypted(Payload, Spec),
    AddChunk(Payload, M),
    /// `add_chunk(ChunkData::from_compressed(Encrypted, encrypt_chunk_with_key(data, spec, key, i), Some(len)))`:
    /// a chunk the caller encrypted itself (i = the true global chunk index) and hands over pre-built
    #[serde(alias = "AddPrebuilt")]
    AddPrebuiltEncrypted(Payload, Spec),
}

#[derive(Debug, Clone, Serialize, Deserialize)]
pub struct Program {
    /// key pool; a name maps to the key of its first occurrence (name -> key stays a function)
    pub keys: Vec<KeyEntry>,
    /// start the decoder's key store from the built-in keys (true) or empty (false)
    pub builtin_store: bool,
    /// payload length cap in bytes (tier dependent; part of the case so a replay is self-contained)
    pub cap: usize,
    pub ops: Vec<Op>,
}

#[derive(Debug, Clone, Copy, PartialEq, Eq)]
pub enum CallKind {
    AddData,
    AddMixed,
    AddEncrypted,
    AddChunk,
    Free,
}

/// What the harness expects about one chunk of the output.
#[derive(Debug, Clone)]
pub struct MChunk {
    pub call: usize,
    pub kind: CallKind,
    /// index of the chunk within its call
    pub local_ix: usize,
    /// slice of `expected` this chunk must decode to
    pub range: (usize, usize),
    /// encryption was requested for this chunk through the builder-level
    /// `with_encryption` (as opposed to a per-call spec, or none)
    pub enc_from_builder: bool,
}

#[derive(Debug, Default)]
pub struct Model {
    pub expected: Vec<u8>,
    pub chunks: Vec<MChunk>,
    pub data_calls: usize,
    pub classes: Vec<&'static str>,
}

pub enum Built {
    /// an encoder call returned Err: allowed by the statement
    Refused(&'static str, String),
    Ok(BlteFile),
}

pub struct Keys {
    pub map: KeyMap,
    pub store: TactKeyStore,
}

pub fn resolve_keys(p: &Program) -> Keys {
    let mut map = KeyMap::new();
    for k in &p.keys {
        map.entry(k.name).or_insert(k.key);
    }
    let mut store = if p.builtin_store { TactKeyStore::new() } else { TactKeyStore::empty() };
    for (n, k) in &map {
        store.add(TactKey::new(*n, *k));
    }
    Keys { map, store }
}

fn real_spec(p: &Program, keys: &KeyMap, s: &Spec) -> (EncryptionSpec, [u8; 16]) {
    let e = p.keys[pick_idx(s.key_ix, p.keys.len())];
    let key = keys[&e.name];
    let spec = match s.cipher {
        Cipher::Salsa20 => EncryptionSpec::salsa20(e.name, s.iv),
        Cipher::Arc4 => EncryptionSpec::arc4(e.name, s.iv),
        Cipher::Other(b) => EncryptionSpec { key_name: e.name, iv: s.iv, encryption_type: b },
    };
    (spec, key)
}

fn len_classes(m: &mut Model, len: usize, cs: usize, pl: &Payload) {
    if len == 0 {
        m.classes.push("payload:empty");
    }
    if len == 1 {
        m.classes.push("payload:1-byte");
    }
    if len == cs {
        m.classes.push("len==chunk");
    }
    if len + 1 == cs {
        m.classes.push("len==chunk-1");
    }
    if len == cs + 1 {
        m.classes.push("len==chunk+1");
    }
    if len >= 2 * cs && len % cs == 0 {
        m.classes.push("len==k*chunk,k>=2");
    }
    if len > cs && len % cs == 1 {
        m.classes.push("len==k*chunk+1");
    }
    match pl.class {
        PClass::FirstByte(_) if len >= 1 => m.classes.push("payload:first-byte-is-mode-letter"),
        PClass::NestedBlte if len >= 9 => m.classes.push("payload:nested-blte"),
        PClass::Random if len >= 64 => m.classes.push("payload:incompressible"),
        PClass::Run | PClass::Pattern if len >= 64 => m.classes.push("payload:highly-compressible"),
        PClass::LooksEncrypted if len >= 16 => m.classes.push("payload:looks-encrypted"),
        _ => {}
    }
}

/// Split rule documented for automatic chunking (rustdoc of with_chunk_size /
/// add_data, asserted by the repo's own `automatic_chunking_consistent` and
/// `test_builder_multi_chunk`): one chunk when len <= chunk_size, else
/// consecutive pieces of chunk_size bytes (last one shorter).
fn pieces(len: usize, cs: usize) -> Vec<(usize, usize)> {
    if len <= cs {
        return vec![(0, len)];
    }
    let mut v = Vec::new();
    let mut o = 0;
    while o < len {
        let e = (o + cs).min(len);
        v.push((o, e));
        o = e;
    }
    v
}

/// Run the program against the real builder, building the model alongside.
pub fn interpret(p: &Program, keys: &KeyMap) -> (Built, Model) {
    let cap = p.cap;
    let mut dm = M::N;
    let mut m = Model::default();
    let mut b = BlteBuilder::new();
    let mut cs: usize = 256 * 1024; // documented default
    let mut enc: Option<Spec> = None;
    for op in &p.ops {
        match op {
            Op::Compression(mode) => {
                b = b.with_compression(mode.real());
                dm = *mode;
                match mode {
                    M::Z => m.classes.push("cfg:zlib"),
                    M::L4 => m.classes.push("cfg:lz4"),
                    M::E | M::F => m.classes.push("cfg:mode-E-or-F"),
                    M::N => {}
                }
            }
            Op::ChunkSize(s) => match b.with_chunk_size(*s) {
                Ok(nb) => {
                    b = nb;
                    cs = *s;
                }
                Err(e) => return (Built::Refused("refused:with_chunk_size", e.to_string()), m),
            },
            Op::ChunkSizeUnchecked(s) => {
                let s = (*s).max(1); // 0 is outside the domain (no progress possible)
                b = b.with_chunk_size_unchecked(s);
                cs = s;
            }
            Op::Encryption(s) => {
                if p.keys.is_empty() {
                    continue;
                }
                let (spec, key) = real_spec(p, keys, s);
                b = b.with_encryption(spec, key);
                enc = Some(*s);
            }
            Op::NoEncryption => {
                b = b.without_encryption();
                enc = None;
            }
            Op::AddData(pl) | Op::AddMixed(pl, _) | Op::AddEncrypted(pl, _) | Op::AddChunk(pl, _) | Op::AddPrebuiltEncrypted(pl, _) => {
                if matches!(op, Op::AddEncrypted(..) | Op::AddPrebuiltEncrypted(..)) && p.keys.is_empty() {
                    continue; // hand-edited replay without a key pool: nothing to encrypt with
                }
                let len = pl.resolve_len(cs, cap);
                let data = pl.bytes(len);
                debug_assert_eq!(data.len(), len);
                len_classes(&mut m, len, cs, pl);
                let call = m.data_calls;
                m.data_calls += 1;
                let base = m.expected.len();
                let (kind, split, chunk_enc, from_builder): (CallKind, bool, Option<Cipher>, bool);
                let res = match op {
                    Op::AddData(_) => {
                        kind = CallKind::AddData;
                        split = true;
                        chunk_enc = enc.map(|s| s.cipher);
                        from_builder = true;
                        b.add_data(&data)
                    }
                    Op::AddMixed(_, s) => {
                        kind = CallKind::AddMixed;
                        split = true;
                        from_builder = false;
                        let s = if p.keys.is_empty() { None } else { *s };
                        chunk_enc = s.map(|s| s.cipher);
                        b.add_mixed_data(&data, s.map(|s| real_spec(p, keys, &s)))
                    }
                    Op::AddEncrypted(_, s) => {
                        kind = CallKind::AddEncrypted;
                        split = false;
                        from_builder = false;
                        chunk_enc = Some(s.cipher);
                        let (spec, key) = real_spec(p, keys, s);
                        // the caller owns block_index: pass the true global chunk index
                        let ix = m.chunks.len();
                        m.classes.push("call:add_encrypted_data");
                        if ix >= 1 {
                            m.classes.push("add_encrypted_data:index>=1");
                        }
                        b.add_encrypted_data(&data, spec, key, ix)
                    }
                    Op::AddPrebuiltEncrypted(_, s) => {
                        kind = CallKind::AddChunk;
                        split = false;
                        from_builder = false;
                        chunk_enc = Some(s.cipher);
                        let (spec, key) = real_spec(p, keys, s);
                        let ix = m.chunks.len();
                        m.classes.push("call:add_chunk(prebuilt-encrypted)");
                        // what is encrypted is the inner block: mode byte 'N' + the data
                        let mut inner = Vec::with_capacity(data.len() + 1);
                        inner.push(b'N');
                        inner.extend_from_slice(&data);
                        match cascette_formats::blte::encrypt_chunk_with_key(&inner, spec, &key, ix) {
                            Ok(body) => Ok(b.add_chunk(ChunkData::from_compressed(CompressionMode::Encrypted, body, Some(data.len())))),
                            Err(e) => return (Built::Refused("refused:encrypt_chunk_with_key", e.to_string()), m),
                        }
                    }
                    Op::AddChunk(_, mode) => {
                        kind = CallKind::AddChunk;
                        split = false;
                        from_builder = false;
                        chunk_enc = None;
                        m.classes.push("call:add_chunk");
                        match ChunkData::new(data.clone(), mode.real()) {
                            Ok(c) => Ok(b.add_chunk(c)),
                            Err(e) => return (Built::Refused("refused:ChunkData::new", e.to_string()), m),
                        }
                    }
                    _ => unreachable!(),
                };
                b = match res {
                    Ok(nb) => nb,
                    Err(e) => {
                        let what = match kind {
                            CallKind::AddData => "refused:add_data",
                            CallKind::AddMixed => "refused:add_mixed_data",
                            CallKind::AddEncrypted => "refused:add_encrypted_data",
                            _ => "refused:add_chunk",
                        };
                        return (Built::Refused(what, e.to_string()), m);
                    }
                };
                m.expected.extend_from_slice(&data);
                if matches!(chunk_enc, Some(Cipher::Other(b)) if b != b'S' && b != b'A') {
                    m.classes.push("spec:unknown-encryption-type-accepted");
                }
                if chunk_enc.is_some() {
                    match dm {
                        M::Z => m.classes.push("enc-inner:zlib"),
                        M::L4 => m.classes.push("enc-inner:lz4"),
                        _ => m.classes.push("enc-inner:none"),
                    }
                    if len == 0 {
                        m.classes.push("enc-of-empty-payload");
                    }
                }
                let ps = if split { pieces(len, cs) } else { vec![(0, len)] };
                if ps.len() >= 2 {
                    m.classes.push("call-split-into>=2-chunks");
                }
                for (local_ix, (s, e)) in ps.into_iter().enumerate() {
                    m.chunks.push(MChunk {
                        call,
                        kind,
                        local_ix,
                        range: (base + s, base + e),
                        enc_from_builder: from_builder && chunk_enc.is_some(),
                    });
                }
            }
        }
    }
    match b.build() {
        Ok(f) => (Built::Ok(f), m),
        Err(e) => (Built::Refused("refused:build", e.to_string()), m),
    }
}
