//! Independent BLTE reader, written from the format description in
//! docs/src/compression/blte.md and docs/src/encryption/salsa20.md (the public
//! BLTE container used by NGDP tools), sharing no code with cascette-formats:
//!
//! ```text
//! "BLTE" | header_size:u32 BE
//!   header_size == 0 : one chunk follows, it is the rest of the file
//!   header_size  > 0 : flags:u8 (0x0F) | count:u24 BE | count * { csize:u32 BE, dsize:u32 BE, md5[16] }
//!                      header_size == 12 + 24*count ; data starts at header_size
//! chunk = mode:u8 | body
//!   'N' body is the content
//!   'Z' body is one zlib stream
//!   '4' body is size:u64 LE | one LZ4 block
//!   'E' body is name_len:u8(8) | key_name:u64 LE | iv_len:u8(4|8) | iv | type:u8('S'|'A') | ciphertext
//!       plaintext of the ciphertext is again mode:u8 | body with mode in N/Z/4
//!       'S': Salsa20/20, 16-byte key (tau), nonce = iv zero-extended to 8 with the
//!            chunk index XORed little-endian into its first four bytes
//!       'A': RC4 keyed with the 16-byte key
//! ```
//! zlib and the LZ4 block codec are the trusted third-party crates; Salsa20,
//! RC4 and MD5 are the references in `vh_engine::refimpl`.

use std::collections::BTreeMap;
use std::io::Read;
use vh_engine::refimpl::{md5, rc4, salsa20};

pub type KeyMap = BTreeMap<u64, [u8; 16]>;

#[derive(Debug, Clone)]
pub struct TableEntry {
    pub csize: u32,
    pub dsize: u32,
    pub md5: [u8; 16],
    /// extended table (flags 0x10): MD5 of the decoded chunk
    pub dmd5: Option<[u8; 16]>,
}

#[derive(Debug, Clone)]
pub struct RawChunk<'a> {
    /// mode byte + body, exactly as stored
    pub stored: &'a [u8],
    pub entry: Option<TableEntry>,
}

#[derive(Debug, Clone)]
pub struct Container<'a> {
    pub headerless: bool,
    pub chunks: Vec<RawChunk<'a>>,
}

/// A structural complaint: (narrow key suffix, message).
pub type Complaint = (&'static str, String);

fn be32(b: &[u8]) -> u32 {
    u32::from_be_bytes([b[0], b[1], b[2], b[3]])
}

/// Split the file into header, table and stored chunks. `Err` means the
/// container cannot even be walked; `Ok((c, complaints))` lists every rule of
/// the layout that does not hold.
pub fn split(bytes: &[u8]) -> Result<(Container<'_>, Vec<Complaint>), Complaint> {
    let mut bad = Vec::new();
    if bytes.len() < 8 {
        return Err(("format:shorter-than-preamble", format!("file has {} bytes", bytes.len())));
    }
    if &bytes[..4] != b"BLTE" {
        return Err(("format:bad-magic", format!("magic {:02x?}", &bytes[..4])));
    }
    let header_size = be32(&bytes[4..8]) as usize;
    if header_size == 0 {
        let stored = &bytes[8..];
        if stored.is_empty() {
            return Err(("format:headerless-file-without-chunk", "nothing after the 8-byte preamble".into()));
        }
        return Ok((Container { headerless: true, chunks: vec![RawChunk { stored, entry: None }] }, bad));
    }
    if bytes.len() < 12 {
        return Err(("format:table-header-truncated", format!("file has {} bytes", bytes.len())));
    }
    let flags = bytes[8];
    let count = ((bytes[9] as usize) << 16) | ((bytes[10] as usize) << 8) | bytes[11] as usize;
    if flags != 0x0F && flags != 0x10 {
        return Err(("format:table-flags-neither-0x0f-nor-0x10", format!("flags {flags:#04x}")));
    }
    // standard entries: sizes + MD5 of the stored chunk; extended ones add the MD5 of the decoded chunk
    let esz = if flags == 0x10 { 40 } else { 24 };
    if count == 0 {
        return Err(("format:table-with-zero-chunks", "chunk count 0 with a non-zero header size".into()));
    }
    let want = 12 + esz * count;
    if header_size != want {
        bad.push(("format:header-size-not-12-plus-24n", format!("header_size {header_size}, {count} chunks of {esz} table bytes => {want}")));
    }
    if bytes.len() < want {
        return Err(("format:table-truncated", format!("{count} entries need {want} bytes, file has {}", bytes.len())));
    }
    let mut off = want; // data start per the formula; equals header_size when that is right
    let mut chunks = Vec::with_capacity(count);
    for i in 0..count {
        let e = &bytes[12 + esz * i..12 + esz * (i + 1)];
        let entry = TableEntry { csize: be32(&e[0..4]), dsize: be32(&e[4..8]), md5: e[8..24].try_into().unwrap(), dmd5: if esz == 40 { Some(e[24..40].try_into().unwrap()) } else { None } };
        let end = off.checked_add(entry.csize as usize).filter(|&x| x <= bytes.len());
        let Some(end) = end else {
            return Err((
                "table:compressed-sizes-run-past-end-of-file",
                format!("chunk {i}: offset {off} + csize {} > file length {}", entry.csize, bytes.len()),
            ));
        };
        if entry.csize == 0 {
            return Err(("table:compressed-size-zero", format!("chunk {i} has no mode byte")));
        }
        chunks.push(RawChunk { stored: &bytes[off..end], entry: Some(entry) });
        off = end;
    }
    if off != bytes.len() {
        bad.push((
            "format:file-length-differs-from-header-plus-compressed-sizes",
            format!("header {want} + sum(csize) = {off}, file length {}", bytes.len()),
        ));
    }
    Ok((Container { headerless: false, chunks }, bad))
}

#[derive(Debug, Clone)]
pub struct EncInfo {
    pub key_name: u64,
    pub iv: Vec<u8>,
    pub typ: u8,
    pub cipher_len: usize,
}

/// Parse the header of an 'E' body.
pub fn enc_info(body: &[u8]) -> Result<(EncInfo, &[u8]), String> {
    let mut p = 0usize;
    let take = |p: &mut usize, n: usize| -> Result<&[u8], String> {
        if body.len() < *p + n {
            return Err(format!("encrypted body truncated at {} (+{n}) of {}", *p, body.len()));
        }
        let s = &body[*p..*p + n];
        *p += n;
        Ok(s)
    };
    let nl = take(&mut p, 1)?[0];
    if nl != 8 {
        return Err(format!("key name length {nl}"));
    }
    let key_name = u64::from_le_bytes(take(&mut p, 8)?.try_into().unwrap());
    let il = take(&mut p, 1)?[0] as usize;
    if il != 4 && il != 8 {
        return Err(format!("iv length {il}"));
    }
    let iv = take(&mut p, il)?.to_vec();
    let typ = take(&mut p, 1)?[0];
    let cipher = &body[p..];
    Ok((EncInfo { key_name, iv, typ, cipher_len: cipher.len() }, cipher))
}

fn unzlib(body: &[u8]) -> Result<Vec<u8>, String> {
    if body.is_empty() {
        return Err("empty zlib stream".into());
    }
    let mut d = flate2::bufread::ZlibDecoder::new(body);
    let mut out = Vec::new();
    d.read_to_end(&mut out).map_err(|e| format!("zlib: {e}"))?;
    let used = d.total_in() as usize;
    if used != body.len() {
        return Err(format!("zlib stream ends after {used} of {} body bytes (recorded size covers foreign bytes)", body.len()));
    }
    Ok(out)
}

fn unlz4(body: &[u8]) -> Result<Vec<u8>, String> {
    if body.len() < 8 {
        return Err(format!("LZ4 body of {} bytes has no 8-byte size prefix", body.len()));
    }
    let n = u64::from_le_bytes(body[..8].try_into().unwrap());
    if n > (1 << 30) {
        return Err(format!("LZ4 size prefix {n:#x} (little endian) is implausible"));
    }
    let out = lz4_flex::block::decompress(&body[8..], n as usize).map_err(|e| format!("lz4: {e}"))?;
    if out.len() as u64 != n {
        return Err(format!("LZ4 block gives {} bytes, prefix says {n}", out.len()));
    }
    Ok(out)
}

fn plain_block(block: &[u8], what: &str) -> Result<Vec<u8>, String> {
    let Some((&mode, body)) = block.split_first() else {
        return Err(format!("{what}: no mode byte"));
    };
    match mode {
        b'N' => Ok(body.to_vec()),
        b'Z' => unzlib(body),
        b'4' => unlz4(body),
        other => Err(format!("{what}: mode byte {other:#04x} is not N/Z/4")),
    }
}

/// Decode one stored chunk, using `index` as the chunk index for Salsa20.
pub fn decode_chunk(stored: &[u8], index: u32, keys: &KeyMap) -> Result<Vec<u8>, String> {
    match stored.first() {
        None => Err("chunk without mode byte".into()),
        Some(b'E') => {
            let (info, cipher) = enc_info(&stored[1..])?;
            let key = keys.get(&info.key_name).ok_or_else(|| format!("no key for name {:#018x}", info.key_name))?;
            let inner = match info.typ {
                b'S' => salsa20::casc_crypt(cipher, key, &info.iv, index),
                b'A' => rc4::Rc4::crypt(key, cipher),
                t => return Err(format!("encryption type {t:#04x}")),
            };
            if inner.is_empty() {
                return Err("encrypted chunk carries no inner block (not even a mode byte)".into());
            }
            plain_block(&inner, "inner block")
        }
        Some(_) => plain_block(stored, "chunk"),
    }
}

pub fn md5_of(stored: &[u8]) -> [u8; 16] {
    md5::md5(stored)
}

/// Minimal independent *writer* used only to manufacture "a BLTE container" as
/// payload content (nested BLTE class). `table` chooses the table form.
pub fn make_container(parts: &[&[u8]], table: bool) -> Vec<u8> {
    let mut out = b"BLTE".to_vec();
    if !table {
        out.extend_from_slice(&0u32.to_be_bytes());
        out.push(b'N');
        for p in parts {
            out.extend_from_slice(p);
        }
        return out;
    }
    let n = parts.len();
    out.extend_from_slice(&((12 + 24 * n) as u32).to_be_bytes());
    out.push(0x0F);
    out.extend_from_slice(&(n as u32).to_be_bytes()[1..]);
    let stored: Vec<Vec<u8>> = parts
        .iter()
        .map(|p| {
            let mut s = vec![b'N'];
            s.extend_from_slice(p);
            s
        })
        .collect();
    for s in &stored {
        out.extend_from_slice(&(s.len() as u32).to_be_bytes());
        out.extend_from_slice(&((s.len() - 1) as u32).to_be_bytes());
        out.extend_from_slice(&md5::md5(s));
    }
    for s in &stored {
        out.extend_from_slice(s);
    }
    out
}
