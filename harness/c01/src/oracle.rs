//! The oracle: identity on content (repo decoder and independent decoder) and
//! truthfulness of the chunk table, with one narrow key per root cause.

use crate::decoder::{self, KeyMap};
use crate::program::{CallKind, Model};
use cascette_crypto::TactKeyStore;
use cascette_formats::CascFormat;
use cascette_formats::blte::BlteFile;

#[derive(Debug, Clone)]
pub struct Finding {
    pub key: String,
    pub msg: String,
}

fn f(key: &str, msg: impl Into<String>) -> Finding {
    Finding { key: format!("C01:{key}"), msg: msg.into() }
}

pub const KEY_A: &str = "builder:add_data:encrypted-chunk-keyed-with-call-local-index";
pub const KEY_B: &str = "table:encrypted-chunk-decompressed-size-is-inner-block-length";
pub const KEY_C: &str = "repo-decoder:encrypted-chunk-of-empty-payload-rejected-as-too-short";

fn show(b: &[u8]) -> String {
    let n = b.len().min(24);
    let hex: String = b[..n].iter().map(|x| format!("{x:02x}")).collect();
    format!("{} bytes [{}{}]", b.len(), hex, if b.len() > n { ".." } else { "" })
}

fn first_diff(a: &[u8], b: &[u8]) -> String {
    match a.iter().zip(b).position(|(x, y)| x != y) {
        Some(p) => format!("first difference at byte {p}"),
        None => format!("common prefix of {} bytes, lengths {} vs {}", a.len().min(b.len()), a.len(), b.len()),
    }
}

pub struct Judged {
    pub findings: Vec<Finding>,
    pub classes: Vec<&'static str>,
    pub n_chunks: usize,
    pub any_encrypted: bool,
}

/// `bytes` = serialized container produced by the encoder for `m`.
pub fn judge(bytes: &[u8], m: &Model, keys: &KeyMap, store: &TactKeyStore) -> Judged {
    let mut content: Vec<Finding> = Vec::new(); // identity-level findings (reported first)
    let mut table: Vec<Finding> = Vec::new(); // table / layout findings
    let mut classes: Vec<&'static str> = Vec::new();
    let expected = &m.expected[..];

    // ---- the repo's own decoder on the serialized bytes -------------------------
    let parsed = BlteFile::parse(bytes).map_err(|e| e.to_string());
    let repo_keys: Option<Result<Vec<u8>, String>> =
        parsed.as_ref().ok().map(|p| p.decompress_with_keys(store).map_err(|e| e.to_string()));
    let repo_keys_ok = matches!(&repo_keys, Some(Ok(v)) if v == expected);
    let repo_summary = match &repo_keys {
        None => "parse failed".to_string(),
        Some(Ok(v)) if v == expected => "Ok(expected)".to_string(),
        Some(Ok(v)) => format!("Ok({}) but expected {}; {}", show(v), show(expected), first_diff(v, expected)),
        Some(Err(e)) => format!("Err({e})"),
    };

    // ---- independent decoder + table audit -----------------------------------------
    let mut n_chunks = 0usize;
    let mut any_encrypted = false;
    let mut index_root_cause = false; // an index finding explains a repo-decoder mismatch
    let mut empty_enc_chunk_ok = false; // pattern (c): 17-byte stored E chunk that decodes fine independently
    match decoder::split(bytes) {
        Err((k, msg)) => table.push(f(k, msg)),
        Ok((c, complaints)) => {
            for (k, msg) in complaints {
                table.push(f(k, msg));
            }
            n_chunks = c.chunks.len();
            classes.push(if c.headerless { "container:headerless" } else { "container:table" });
            if n_chunks >= 2 {
                classes.push("chunks>=2");
            }
            if n_chunks >= 17 {
                classes.push("chunks>=17");
            }
            if n_chunks >= 256 {
                classes.push("chunks>=256");
            }
            let aligned = n_chunks == m.chunks.len();
            if !aligned {
                content.push(f(
                    "builder:chunk-count-differs-from-chunk-size-rule",
                    format!("container has {n_chunks} chunks, the documented splitting rule gives {}", m.chunks.len()),
                ));
            }
            let mut all = Vec::new();
            let mut all_ok = true;
            let (mut saw_plain, mut saw_enc) = (false, false);
            for (i, ch) in c.chunks.iter().enumerate() {
                let is_enc = ch.stored.first() == Some(&b'E');
                let info = if is_enc { decoder::enc_info(&ch.stored[1..]).ok().map(|x| x.0) } else { None };
                if is_enc {
                    any_encrypted = true;
                    saw_enc = true;
                    match info.as_ref().map(|x| x.typ) {
                        Some(b'S') => classes.push("enc:salsa20"),
                        Some(b'A') => classes.push("enc:arc4"),
                        _ => {}
                    }
                    if i >= 1 {
                        classes.push("enc-chunk-at-index>=1");
                    }
                    if c.headerless {
                        table.push(f("format:encrypted-chunk-in-headerless-container", "mode 'E' without a chunk table"));
                    }
                } else {
                    saw_plain = true;
                    match ch.stored.first() {
                        Some(b'Z') => classes.push("chunk:Z"),
                        Some(b'4') => classes.push("chunk:4"),
                        _ => {}
                    }
                }
                let want: Option<&[u8]> = if aligned { Some(&expected[m.chunks[i].range.0..m.chunks[i].range.1]) } else { None };
                let got = decoder::decode_chunk(ch.stored, i as u32, keys);
                // decoded length of this chunk as far as it can be established
                let mut decoded_len: Option<usize> = got.as_ref().ok().map(Vec::len);
                match (&got, want) {
                    (Ok(g), Some(w)) if g == w => {
                        if is_enc && ch.stored.len() == 17 {
                            empty_enc_chunk_ok = true;
                        }
                    }
                    (_, Some(w)) => {
                        // which chunk index was this encrypted with?
                        let mc = &m.chunks[i];
                        let mut found: Option<u32> = None;
                        if is_enc && info.as_ref().map(|x| x.typ) == Some(b'S') {
                            let cands = std::iter::once(mc.local_ix as u32).chain(0..(n_chunks as u32 + 2));
                            for j in cands {
                                if j as usize != i && decoder::decode_chunk(ch.stored, j, keys).as_deref() == Ok(w) {
                                    found = Some(j);
                                    break;
                                }
                            }
                        }
                        match found {
                            Some(j) => {
                                decoded_len = Some(w.len());
                                if ch.stored.len() == 17 {
                                    empty_enc_chunk_ok = true;
                                }
                                let pattern_a = mc.kind == CallKind::AddData && mc.enc_from_builder && j as usize == mc.local_ix;
                                if pattern_a {
                                    index_root_cause = true;
                                    content.push(f(
                                        KEY_A,
                                        format!(
                                            "chunk {i} (piece {} of data call {}, add_data under with_encryption) is Salsa20-keyed with index {j}, \
                                             not its chunk index {i}; decompress_with_keys (which uses the chunk index) gives {repo_summary}",
                                            mc.local_ix, mc.call
                                        ),
                                    ));
                                } else {
                                    index_root_cause = true;
                                    content.push(f(
                                        "crypto:encrypted-chunk-keyed-with-index-other-than-its-chunk-index",
                                        format!(
                                            "chunk {i} ({:?} call {}) decodes only with Salsa20 block index {j}; the format XORs the chunk index ({i}) into the IV; repo decoder: {repo_summary}",
                                            mc.kind, mc.call
                                        ),
                                    ));
                                }
                            }
                            None => {
                                all_ok = false;
                                match &got {
                                    Ok(g) => content.push(f(
                                        "content:independent-decoder:chunk-decodes-to-other-bytes",
                                        format!("chunk {i}: got {}, want {}; {}", show(g), show(w), first_diff(g, w)),
                                    )),
                                    Err(e) => content.push(f("content:independent-decoder:chunk-undecodable", format!("chunk {i} ({}): {e}", show(ch.stored)))),
                                }
                            }
                        }
                    }
                    (Ok(g), None) => all.extend_from_slice(g),
                    (Err(e), None) => {
                        all_ok = false;
                        content.push(f("content:independent-decoder:chunk-undecodable", format!("chunk {i} ({}): {e}", show(ch.stored))));
                    }
                }
                // ---- table audit for this chunk
                if let Some(e) = &ch.entry {
                    // compressed size == stored length holds by the way `split` walks the file;
                    // a Z stream that ends early is reported by decode_chunk (undecodable: "recorded size covers foreign bytes")
                    let sum = decoder::md5_of(ch.stored);
                    if sum != e.md5 {
                        table.push(f(
                            "table:checksum-is-not-md5-of-mode-byte-and-data",
                            format!("chunk {i}: recorded {}, MD5(stored chunk) {}", hex(&e.md5), hex(&sum)),
                        ));
                    }
                    if let (Some(d), Ok(g), false) = (&e.dmd5, &got, is_enc) {
                        // (for an encrypted chunk the library hashes what a key-less reader sees: not judged)
                        let sum = decoder::md5_of(g);
                        if sum != *d {
                            table.push(f(
                                "table:extended-checksum-is-not-md5-of-decoded-chunk",
                                format!("chunk {i}: recorded {}, MD5(decoded chunk) {}", hex(d), hex(&sum)),
                            ));
                        }
                    }
                    if let Some(l) = decoded_len {
                        if e.dsize as usize != l {
                            let inner = info.as_ref().map(|x| x.cipher_len);
                            if is_enc && inner == Some(e.dsize as usize) {
                                table.push(f(
                                    KEY_B,
                                    format!(
                                        "chunk {i} (encrypted): table says decompressed size {}, the chunk decodes to {l} bytes; {} is the length of the encrypted inner block (mode byte + data)",
                                        e.dsize, e.dsize
                                    ),
                                ));
                            } else {
                                table.push(f(
                                    "table:decompressed-size-mismatch",
                                    format!("chunk {i} (mode {:?}): table says {}, chunk decodes to {l} bytes", ch.stored[0] as char, e.dsize),
                                ));
                            }
                        }
                    }
                }
            }
            if saw_plain && saw_enc {
                classes.push("mixed-plain-and-encrypted-chunks");
            }
            if !aligned && all_ok && all != expected {
                content.push(f(
                    "content:independent-decoder:output-differs",
                    format!("got {}, want {}; {}", show(&all), show(expected), first_diff(&all, expected)),
                ));
            }
        }
    }

    // ---- verdict on the repo decoder ----------------------------------------------------
    match (&parsed, &repo_keys) {
        (Err(e), _) => content.push(f("repo-decoder:parse-rejects-encoder-output", format!("BlteFile::parse: {e}"))),
        (Ok(_), Some(r)) if !repo_keys_ok => {
            if matches!(r, Err(e) if e.contains("Encrypted chunk too short")) && empty_enc_chunk_ok {
                content.push(f(
                    KEY_C,
                    format!("container holds an encrypted chunk with a 16-byte body (15-byte header + inner mode byte, empty payload); decompress_with_keys: {repo_summary}"),
                ));
            } else if index_root_cause {
                // consequence of the index finding above (same root cause)
            } else if r.is_ok() {
                content.push(f("repo-decoder:decompress_with_keys-ok-but-content-differs", repo_summary.clone()));
            } else {
                content.push(f("repo-decoder:decompress_with_keys-err-on-encoder-output", repo_summary.clone()));
            }
        }
        _ => {}
    }
    if let Ok(p) = &parsed {
        if !any_encrypted && n_chunks > 0 {
            match p.decompress() {
                Ok(v) if v == expected => {}
                Ok(v) => content.push(f(
                    "repo-decoder:decompress-ok-but-content-differs",
                    format!("got {}, want {}; {}", show(&v), show(expected), first_diff(&v, expected)),
                )),
                Err(e) => content.push(f("repo-decoder:decompress-err-on-encoder-output", e.to_string())),
            }
        }
    }

    content.extend(table);
    Judged { findings: content, classes, n_chunks, any_encrypted }
}

fn hex(b: &[u8]) -> String {
    b.iter().map(|x| format!("{x:02x}")).collect()
}
